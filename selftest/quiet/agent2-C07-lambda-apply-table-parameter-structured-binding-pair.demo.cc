// Differential program for the C07r refactor: exercises ConsistentUnit, RelatedUnitSystem,
// ConvertInPlace / Convert (scalar, std::array, std::vector, PlanarVector, Vector, SymmetricDyad,
// Dyad) and ConvertStatically on all unit types, all units and all three numeric types, and prints
// every result as a hexfloat.
#include <PhQ/Unit/Acceleration.hpp>
#include <PhQ/Unit/Angle.hpp>
#include <PhQ/Unit/AngularAcceleration.hpp>
#include <PhQ/Unit/AngularSpeed.hpp>
#include <PhQ/Unit/Area.hpp>
#include <PhQ/Unit/Diffusivity.hpp>
#include <PhQ/Unit/DynamicViscosity.hpp>
#include <PhQ/Unit/ElectricCharge.hpp>
#include <PhQ/Unit/ElectricCurrent.hpp>
#include <PhQ/Unit/Energy.hpp>
#include <PhQ/Unit/EnergyFlux.hpp>
#include <PhQ/Unit/Force.hpp>
#include <PhQ/Unit/Frequency.hpp>
#include <PhQ/Unit/HeatCapacity.hpp>
#include <PhQ/Unit/Length.hpp>
#include <PhQ/Unit/Mass.hpp>
#include <PhQ/Unit/MassDensity.hpp>
#include <PhQ/Unit/MassRate.hpp>
#include <PhQ/Unit/Memory.hpp>
#include <PhQ/Unit/MemoryRate.hpp>
#include <PhQ/Unit/Power.hpp>
#include <PhQ/Unit/Pressure.hpp>
#include <PhQ/Unit/ReciprocalTemperature.hpp>
#include <PhQ/Unit/SolidAngle.hpp>
#include <PhQ/Unit/SpecificEnergy.hpp>
#include <PhQ/Unit/SpecificHeatCapacity.hpp>
#include <PhQ/Unit/SpecificPower.hpp>
#include <PhQ/Unit/Speed.hpp>
#include <PhQ/Unit/SubstanceAmount.hpp>
#include <PhQ/Unit/Temperature.hpp>
#include <PhQ/Unit/TemperatureDifference.hpp>
#include <PhQ/Unit/TemperatureGradient.hpp>
#include <PhQ/Unit/ThermalConductivity.hpp>
#include <PhQ/Unit/Time.hpp>
#include <PhQ/Unit/TransportEnergyConsumption.hpp>
#include <PhQ/Unit/Volume.hpp>
#include <PhQ/Unit/VolumeRate.hpp>

#include <array>
#include <cstdint>
#include <cstdio>
#include <limits>
#include <optional>
#include <string>
#include <type_traits>
#include <utility>
#include <vector>

namespace {

const std::array<PhQ::UnitSystem, 4> kSystems{
  PhQ::UnitSystem::MetreKilogramSecondKelvin, PhQ::UnitSystem::MillimetreGramSecondKelvin,
  PhQ::UnitSystem::FootPoundSecondRankine, PhQ::UnitSystem::InchPoundSecondRankine};

// Deterministic pseudo-random generator (xorshift64*).
std::uint64_t rng_state = 0x9E3779B97F4A7C15ULL;
std::uint64_t NextU64() {
  rng_state ^= rng_state >> 12;
  rng_state ^= rng_state << 25;
  rng_state ^= rng_state >> 27;
  return rng_state * 0x2545F4914F6CDD1DULL;
}

template <typename T>
T NextValue() {
  // Mantissa in [-1, 1) scaled by a power of ten in [-12, 12].
  const double mantissa =
      (static_cast<double>(NextU64() >> 11) / 9007199254740992.0) * 2.0 - 1.0;
  const int exponent = static_cast<int>(NextU64() % 25) - 12;
  T value = static_cast<T>(mantissa);
  T scale = static_cast<T>(1);
  for (int i = 0; i < (exponent < 0 ? -exponent : exponent); ++i) {
    scale *= static_cast<T>(10);
  }
  return exponent < 0 ? value / scale : value * scale;
}

void Put(const float v) {
  std::printf(" %a", static_cast<double>(v));
}
void Put(const double v) {
  std::printf(" %a", v);
}
void Put(const long double v) {
  std::printf(" %La", v);
}

template <typename T, std::size_t N>
void PutAll(const std::array<T, N>& values) {
  for (const T v : values) {
    Put(v);
  }
}

template <typename T>
std::vector<T> EdgeValues() {
  using L = std::numeric_limits<T>;
  return {static_cast<T>(0),
          -static_cast<T>(0),
          static_cast<T>(1),
          static_cast<T>(-1),
          L::min(),
          -L::min(),
          L::denorm_min(),
          L::max(),
          L::lowest(),
          L::epsilon(),
          L::infinity(),
          -L::infinity(),
          static_cast<T>(0.1L),
          static_cast<T>(273.15L),
          static_cast<T>(-459.67L),
          static_cast<T>(1.0e20L),
          static_cast<T>(1.0e-20L)};
}

template <typename U>
std::vector<U> AllUnits() {
  std::vector<U> units;
  for (const auto& entry : PhQ::Internal::Abbreviations<U>) {
    units.push_back(entry.first);
  }
  return units;
}

template <typename U, typename T>
void RunNumeric(const char* type_name, const char* numeric_name, const std::vector<U>& units) {
  const std::vector<T> edges = EdgeValues<T>();
  for (const U from : units) {
    for (const U to : units) {
      std::printf("%s %s %d->%d S", type_name, numeric_name, static_cast<int>(from),
                  static_cast<int>(to));
      // Scalars: Convert and ConvertInPlace.
      for (const T edge : edges) {
        Put(PhQ::Convert<U, T>(edge, from, to));
        T in_place = edge;
        PhQ::ConvertInPlace<U, T>(in_place, from, to);
        Put(in_place);
      }
      for (int i = 0; i < 4; ++i) {
        Put(PhQ::Convert<U, T>(NextValue<T>(), from, to));
      }
      // std::array of several sizes, including size zero.
      std::printf(" A");
      {
        std::array<T, 0> empty{};
        PhQ::ConvertInPlace<U, 0, T>(empty, from, to);
        const std::array<T, 1> one{NextValue<T>()};
        PutAll(PhQ::Convert<U, 1, T>(one, from, to));
        std::array<T, 4> four{NextValue<T>(), -static_cast<T>(0), NextValue<T>(), edges[7]};
        PutAll(PhQ::Convert<U, 4, T>(four, from, to));
        PhQ::ConvertInPlace<U, 4, T>(four, from, to);
        PutAll(four);
        std::array<T, 7> seven{};
        for (T& v : seven) {
          v = NextValue<T>();
        }
        PhQ::ConvertInPlace<U, 7, T>(seven, from, to);
        PutAll(seven);
      }
      // std::vector, including an empty one.
      std::printf(" V");
      {
        std::vector<T> none;
        PhQ::ConvertInPlace<U, T>(none, from, to);
        std::printf(" %zu", PhQ::Convert<U, T>(none, from, to).size());
        std::vector<T> some;
        for (int i = 0; i < 5; ++i) {
          some.push_back(NextValue<T>());
        }
        some.push_back(edges[4]);
        some.push_back(edges[1]);
        for (const T v : PhQ::Convert<U, T>(some, from, to)) {
          Put(v);
        }
        PhQ::ConvertInPlace<U, T>(some, from, to);
        for (const T v : some) {
          Put(v);
        }
      }
      // Planar vector, vector, symmetric dyad, dyad.
      std::printf(" P");
      {
        PhQ::PlanarVector<T> p{NextValue<T>(), NextValue<T>()};
        PutAll(PhQ::Convert<U, T>(p, from, to).x_y());
        PhQ::ConvertInPlace<U, T>(p, from, to);
        PutAll(p.x_y());
        PhQ::Vector<T> v{NextValue<T>(), NextValue<T>(), NextValue<T>()};
        PutAll(PhQ::Convert<U, T>(v, from, to).x_y_z());
        PhQ::ConvertInPlace<U, T>(v, from, to);
        PutAll(v.x_y_z());
        PhQ::SymmetricDyad<T> s{NextValue<T>(), NextValue<T>(), NextValue<T>(),
                                NextValue<T>(), NextValue<T>(), NextValue<T>()};
        PutAll(PhQ::Convert<U, T>(s, from, to).xx_xy_xz_yy_yz_zz());
        PhQ::ConvertInPlace<U, T>(s, from, to);
        PutAll(s.xx_xy_xz_yy_yz_zz());
        PhQ::Dyad<T> d{NextValue<T>(), NextValue<T>(), NextValue<T>(), NextValue<T>(),
                       NextValue<T>(), NextValue<T>(), NextValue<T>(), NextValue<T>(),
                       NextValue<T>()};
        PutAll(PhQ::Convert<U, T>(d, from, to).xx_xy_xz_yx_yy_yz_zx_zy_zz());
        PhQ::ConvertInPlace<U, T>(d, from, to);
        PutAll(d.xx_xy_xz_yx_yy_yz_zx_zy_zz());
      }
      std::printf("\n");
    }
  }
}

template <typename U>
void Run(const char* type_name) {
  const std::vector<U> units = AllUnits<U>();
  // Forward table: consistent unit of each system; and its SI magnitude (one unit in standard).
  for (const PhQ::UnitSystem system : kSystems) {
    const U unit = PhQ::ConsistentUnit<U>(system);
    std::printf("%s consistent %d = %d (%s) SI:", type_name, static_cast<int>(system),
                static_cast<int>(unit), std::string(PhQ::Abbreviation(unit)).c_str());
    Put(PhQ::Convert<U, float>(1.0F, unit, PhQ::Standard<U>));
    Put(PhQ::Convert<U, double>(1.0, unit, PhQ::Standard<U>));
    Put(PhQ::Convert<U, long double>(1.0L, unit, PhQ::Standard<U>));
    std::printf("\n");
  }
  std::printf("%s standard %d %d\n", type_name, static_cast<int>(PhQ::Standard<U>),
              static_cast<int>(PhQ::ConsistentUnit<U>(PhQ::Standard<PhQ::UnitSystem>)));
  // Reverse lookup for every unit.
  for (const U unit : units) {
    const std::optional<PhQ::UnitSystem> system = PhQ::RelatedUnitSystem(unit);
    const std::optional<PhQ::UnitSystem> system2 = PhQ::RelatedUnitSystem<U>(unit);
    std::printf("%s related %d (%s) = %d %d %d\n", type_name, static_cast<int>(unit),
                std::string(PhQ::Abbreviation(unit)).c_str(), system.has_value() ? 1 : 0,
                system.has_value() ? static_cast<int>(system.value()) : -1,
                system2 == system ? 1 : 0);
  }
  std::printf("%s dimensions %s\n", type_name, PhQ::RelatedDimensions<U>.Print().c_str());
  RunNumeric<U, float>(type_name, "f", units);
  RunNumeric<U, double>(type_name, "d", units);
  RunNumeric<U, long double>(type_name, "l", units);
}

// ConvertStatically over all pairs of the first Count enumerators of a unit type.
template <typename U, typename T, int From, int To>
void StaticPair(const char* type_name, const char* numeric_name) {
  constexpr U kFrom = static_cast<U>(From);
  constexpr U kTo = static_cast<U>(To);
  std::printf("%s %s static %d->%d", type_name, numeric_name, From, To);
  for (const T edge : EdgeValues<T>()) {
    Put(PhQ::ConvertStatically<U, kFrom, kTo, T>(edge));
  }
  const T a = NextValue<T>();
  const T b = NextValue<T>();
  const T c = NextValue<T>();
  Put(PhQ::ConvertStatically<U, kFrom, kTo, T>(a));
  PutAll(PhQ::ConvertStatically<U, kFrom, kTo, 0, T>(std::array<T, 0>{}));
  PutAll(PhQ::ConvertStatically<U, kFrom, kTo, 1, T>(std::array<T, 1>{a}));
  PutAll(PhQ::ConvertStatically<U, kFrom, kTo, 5, T>(
      std::array<T, 5>{a, b, -static_cast<T>(0), c, std::numeric_limits<T>::max()}));
  PutAll(PhQ::ConvertStatically<U, kFrom, kTo, T>(PhQ::PlanarVector<T>{a, b}).x_y());
  PutAll(PhQ::ConvertStatically<U, kFrom, kTo, T>(PhQ::Vector<T>{a, b, c}).x_y_z());
  PutAll(PhQ::ConvertStatically<U, kFrom, kTo, T>(PhQ::SymmetricDyad<T>{a, b, c, b, a, c})
             .xx_xy_xz_yy_yz_zz());
  PutAll(PhQ::ConvertStatically<U, kFrom, kTo, T>(PhQ::Dyad<T>{a, b, c, c, b, a, b, a, c})
             .xx_xy_xz_yx_yy_yz_zx_zy_zz());
  // Compile-time evaluation must still be possible and agree with the run-time result.
  constexpr std::array<T, 3> kStatic = PhQ::ConvertStatically<U, kFrom, kTo, 3, T>(
      std::array<T, 3>{static_cast<T>(1), static_cast<T>(-2.5L), static_cast<T>(1234.5L)});
  PutAll(kStatic);
  constexpr PhQ::Vector<T> kStaticVector = PhQ::ConvertStatically<U, kFrom, kTo, T>(
      PhQ::Vector<T>{static_cast<T>(1), static_cast<T>(-2.5L), static_cast<T>(1234.5L)});
  PutAll(kStaticVector.x_y_z());
  std::printf("\n");
}

template <typename U, typename T, int From, int... To>
void StaticRow(const char* type_name, const char* numeric_name,
               std::integer_sequence<int, To...> /*unused*/) {
  (StaticPair<U, T, From, To>(type_name, numeric_name), ...);
}

template <typename U, typename T, int... From>
void StaticAll(const char* type_name, const char* numeric_name,
               std::integer_sequence<int, From...> sequence) {
  (StaticRow<U, T, From>(type_name, numeric_name, sequence), ...);
}

template <typename U, int Count>
void RunStatic(const char* type_name) {
  StaticAll<U, float>(type_name, "f", std::make_integer_sequence<int, Count>{});
  StaticAll<U, double>(type_name, "d", std::make_integer_sequence<int, Count>{});
  StaticAll<U, long double>(type_name, "l", std::make_integer_sequence<int, Count>{});
}

}  // namespace

int main() {
  namespace U = PhQ::Unit;
  Run<U::Acceleration>("Acceleration");
  Run<U::Angle>("Angle");
  Run<U::AngularAcceleration>("AngularAcceleration");
  Run<U::AngularSpeed>("AngularSpeed");
  Run<U::Area>("Area");
  Run<U::Diffusivity>("Diffusivity");
  Run<U::DynamicViscosity>("DynamicViscosity");
  Run<U::ElectricCharge>("ElectricCharge");
  Run<U::ElectricCurrent>("ElectricCurrent");
  Run<U::Energy>("Energy");
  Run<U::EnergyFlux>("EnergyFlux");
  Run<U::Force>("Force");
  Run<U::Frequency>("Frequency");
  Run<U::HeatCapacity>("HeatCapacity");
  Run<U::Length>("Length");
  Run<U::Mass>("Mass");
  Run<U::MassDensity>("MassDensity");
  Run<U::MassRate>("MassRate");
  Run<U::Memory>("Memory");
  Run<U::MemoryRate>("MemoryRate");
  Run<U::Power>("Power");
  Run<U::Pressure>("Pressure");
  Run<U::ReciprocalTemperature>("ReciprocalTemperature");
  Run<U::SolidAngle>("SolidAngle");
  Run<U::SpecificEnergy>("SpecificEnergy");
  Run<U::SpecificHeatCapacity>("SpecificHeatCapacity");
  Run<U::SpecificPower>("SpecificPower");
  Run<U::Speed>("Speed");
  Run<U::SubstanceAmount>("SubstanceAmount");
  Run<U::Temperature>("Temperature");
  Run<U::TemperatureDifference>("TemperatureDifference");
  Run<U::TemperatureGradient>("TemperatureGradient");
  Run<U::ThermalConductivity>("ThermalConductivity");
  Run<U::Time>("Time");
  Run<U::TransportEnergyConsumption>("TransportEnergyConsumption");
  Run<U::Volume>("Volume");
  Run<U::VolumeRate>("VolumeRate");

  // Compile-time conversions: every pair of force units (9), temperature units (4, affine) and the
  // first 8 length units.
  RunStatic<U::Force, 9>("Force");
  RunStatic<U::Temperature, 4>("Temperature");
  RunStatic<U::Length, 8>("Length");
  return 0;
}
