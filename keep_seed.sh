#!/bin/bash
# usage: keep_seed.sh <seed dir> <id> <caught-by text> : copy a confirmed seeded change into /verif/seeded/<id>/
S="$1"; ID="$2"; CAUGHT="$3"
D=/verif/seeded/$ID; mkdir -p "$D"
cp "$S/patch.diff" "$S/demo.cc" "$D/"
python3 - "$S" "$D" "$CAUGHT" <<'PY'
import json,sys,re
s,d,caught=sys.argv[1:4]
m=json.load(open(s+'/meta.json'))
log=open(s+'/confirm.log').read()
last=[l for l in log.splitlines() if l.startswith('CONFIRM:')][-1]
m['confirmed_by_me']=last
m['what_i_ran']=["confirm_seed.sh: applied patch.diff in a scratch worktree, rebuilt the full suite (cmake+ninja), ctest, compiled demo.cc with and without the change",
                 "try_seed.sh: git -C /repo apply patch.diff; ./vf check <ids>; git -C /repo checkout -- ."]
m['caught_by']=caught
json.dump(m, open(d+'/meta.json','w'), indent=1)
PY
echo kept $ID
