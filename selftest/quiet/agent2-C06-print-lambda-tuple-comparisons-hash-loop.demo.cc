// Differential program for the Dimensions refactor (property C06).
#include <cstdint>
#include <cstdio>
#include <functional>
#include <iostream>
#include <random>
#include <sstream>
#include <string>
#include <vector>
#include <unordered_set>
#include <set>
#include <PhQ/Dimensions.hpp>
#include <PhQ/Unit/Acceleration.hpp>
#include <PhQ/Unit/Angle.hpp>
#include <PhQ/Unit/AngularAcceleration.hpp>
#include <PhQ/Unit/AngularSpeed.hpp>
#include <PhQ/Unit/Area.hpp>
#include <PhQ/Unit/Diffusivity.hpp>
#include <PhQ/Unit/DynamicViscosity.hpp>
#include <PhQ/Unit/ElectricCharge.hpp>
#include <PhQ/Unit/ElectricCurrent.hpp>
#include <PhQ/Unit/Energy.hpp>
#include <PhQ/Unit/EnergyFlux.hpp>
#include <PhQ/Unit/Force.hpp>
#include <PhQ/Unit/Frequency.hpp>
#include <PhQ/Unit/HeatCapacity.hpp>
#include <PhQ/Unit/Length.hpp>
#include <PhQ/Unit/Mass.hpp>
#include <PhQ/Unit/MassDensity.hpp>
#include <PhQ/Unit/MassRate.hpp>
#include <PhQ/Unit/Memory.hpp>
#include <PhQ/Unit/MemoryRate.hpp>
#include <PhQ/Unit/Power.hpp>
#include <PhQ/Unit/Pressure.hpp>
#include <PhQ/Unit/ReciprocalTemperature.hpp>
#include <PhQ/Unit/SolidAngle.hpp>
#include <PhQ/Unit/SpecificEnergy.hpp>
#include <PhQ/Unit/SpecificHeatCapacity.hpp>
#include <PhQ/Unit/SpecificPower.hpp>
#include <PhQ/Unit/Speed.hpp>
#include <PhQ/Unit/SubstanceAmount.hpp>
#include <PhQ/Unit/Temperature.hpp>
#include <PhQ/Unit/TemperatureDifference.hpp>
#include <PhQ/Unit/TemperatureGradient.hpp>
#include <PhQ/Unit/ThermalConductivity.hpp>
#include <PhQ/Unit/Time.hpp>
#include <PhQ/Unit/TransportEnergyConsumption.hpp>
#include <PhQ/Unit/Volume.hpp>
#include <PhQ/Unit/VolumeRate.hpp>
#include <PhQ/Acceleration.hpp>
#include <PhQ/Angle.hpp>
#include <PhQ/AngularSpeed.hpp>
#include <PhQ/Area.hpp>
#include <PhQ/BulkDynamicViscosity.hpp>
#include <PhQ/Direction.hpp>
#include <PhQ/Displacement.hpp>
#include <PhQ/DisplacementGradient.hpp>
#include <PhQ/DynamicKinematicPressure.hpp>
#include <PhQ/DynamicPressure.hpp>
#include <PhQ/DynamicViscosity.hpp>
#include <PhQ/ElectricCharge.hpp>
#include <PhQ/ElectricCurrent.hpp>
#include <PhQ/Energy.hpp>
#include <PhQ/Force.hpp>
#include <PhQ/Frequency.hpp>
#include <PhQ/GasConstant.hpp>
#include <PhQ/HeatCapacityRatio.hpp>
#include <PhQ/HeatFlux.hpp>
#include <PhQ/IsentropicBulkModulus.hpp>
#include <PhQ/IsobaricHeatCapacity.hpp>
#include <PhQ/IsochoricHeatCapacity.hpp>
#include <PhQ/IsothermalBulkModulus.hpp>
#include <PhQ/KinematicViscosity.hpp>
#include <PhQ/LameFirstModulus.hpp>
#include <PhQ/Length.hpp>
#include <PhQ/LinearThermalExpansionCoefficient.hpp>
#include <PhQ/MachNumber.hpp>
#include <PhQ/Mass.hpp>
#include <PhQ/MassDensity.hpp>
#include <PhQ/MassRate.hpp>
#include <PhQ/Memory.hpp>
#include <PhQ/MemoryRate.hpp>
#include <PhQ/PWaveModulus.hpp>
#include <PhQ/PlanarAcceleration.hpp>
#include <PhQ/PlanarDirection.hpp>
#include <PhQ/PlanarDisplacement.hpp>
#include <PhQ/PlanarForce.hpp>
#include <PhQ/PlanarHeatFlux.hpp>
#include <PhQ/PlanarPosition.hpp>
#include <PhQ/PlanarTemperatureGradient.hpp>
#include <PhQ/PlanarTraction.hpp>
#include <PhQ/PlanarVelocity.hpp>
#include <PhQ/PoissonRatio.hpp>
#include <PhQ/Position.hpp>
#include <PhQ/Power.hpp>
#include <PhQ/PrandtlNumber.hpp>
#include <PhQ/ReynoldsNumber.hpp>
#include <PhQ/ScalarAcceleration.hpp>
#include <PhQ/ScalarAngularAcceleration.hpp>
#include <PhQ/ScalarDisplacementGradient.hpp>
#include <PhQ/ScalarForce.hpp>
#include <PhQ/ScalarHeatFlux.hpp>
#include <PhQ/ScalarStrain.hpp>
#include <PhQ/ScalarStrainRate.hpp>
#include <PhQ/ScalarStress.hpp>
#include <PhQ/ScalarTemperatureGradient.hpp>
#include <PhQ/ScalarThermalConductivity.hpp>
#include <PhQ/ScalarTraction.hpp>
#include <PhQ/ScalarVelocityGradient.hpp>
#include <PhQ/ShearModulus.hpp>
#include <PhQ/SolidAngle.hpp>
#include <PhQ/SoundSpeed.hpp>
#include <PhQ/SpecificEnergy.hpp>
#include <PhQ/SpecificGasConstant.hpp>
#include <PhQ/SpecificIsobaricHeatCapacity.hpp>
#include <PhQ/SpecificIsochoricHeatCapacity.hpp>
#include <PhQ/SpecificPower.hpp>
#include <PhQ/Speed.hpp>
#include <PhQ/StaticKinematicPressure.hpp>
#include <PhQ/StaticPressure.hpp>
#include <PhQ/Strain.hpp>
#include <PhQ/StrainRate.hpp>
#include <PhQ/Stress.hpp>
#include <PhQ/SubstanceAmount.hpp>
#include <PhQ/Temperature.hpp>
#include <PhQ/TemperatureDifference.hpp>
#include <PhQ/TemperatureGradient.hpp>
#include <PhQ/ThermalConductivity.hpp>
#include <PhQ/ThermalDiffusivity.hpp>
#include <PhQ/Time.hpp>
#include <PhQ/TotalKinematicPressure.hpp>
#include <PhQ/TotalPressure.hpp>
#include <PhQ/Traction.hpp>
#include <PhQ/TransportEnergyConsumption.hpp>
#include <PhQ/VectorArea.hpp>
#include <PhQ/Velocity.hpp>
#include <PhQ/VelocityGradient.hpp>
#include <PhQ/Volume.hpp>
#include <PhQ/VolumeRate.hpp>
#include <PhQ/VolumetricThermalExpansionCoefficient.hpp>
#include <PhQ/YoungModulus.hpp>

namespace {

std::uint64_t digest = 1469598103934665603ULL;

void Mix(const std::string& text) {
  for (const unsigned char c : text) {
    digest ^= c;
    digest *= 1099511628211ULL;
  }
  digest ^= 0xffU;
  digest *= 1099511628211ULL;
}

void Mix(const std::uint64_t value) {
  for (int i = 0; i < 8; ++i) {
    digest ^= (value >> (8 * i)) & 0xffU;
    digest *= 1099511628211ULL;
  }
}

PhQ::Dimensions Make(const int t, const int l, const int m, const int i, const int th, const int n,
                     const int j) {
  return PhQ::Dimensions{
      PhQ::Dimension::Time{static_cast<int8_t>(t)},
      PhQ::Dimension::Length{static_cast<int8_t>(l)},
      PhQ::Dimension::Mass{static_cast<int8_t>(m)},
      PhQ::Dimension::ElectricCurrent{static_cast<int8_t>(i)},
      PhQ::Dimension::Temperature{static_cast<int8_t>(th)},
      PhQ::Dimension::SubstanceAmount{static_cast<int8_t>(n)},
      PhQ::Dimension::LuminousIntensity{static_cast<int8_t>(j)}};
}

std::string Describe(const PhQ::Dimensions& d) {
  std::ostringstream stream;
  stream << d;
  std::string out = "print=[" + d.Print() + "] stream=[" + stream.str() + "] json=" + d.JSON()
                    + " xml=" + d.XML() + " yaml=" + d.YAML()
                    + " hash=" + std::to_string(std::hash<PhQ::Dimensions>()(d)) + " tuple=("
                    + std::to_string(d.Time().Value()) + "," + std::to_string(d.Length().Value())
                    + "," + std::to_string(d.Mass().Value()) + ","
                    + std::to_string(d.ElectricCurrent().Value()) + ","
                    + std::to_string(d.Temperature().Value()) + ","
                    + std::to_string(d.SubstanceAmount().Value()) + ","
                    + std::to_string(d.LuminousIntensity().Value()) + ")";
  return out;
}

unsigned Compare(const PhQ::Dimensions& a, const PhQ::Dimensions& b) {
  unsigned bits = 0;
  bits |= (a == b) ? 1U : 0U;
  bits |= (a != b) ? 2U : 0U;
  bits |= (a < b) ? 4U : 0U;
  bits |= (a > b) ? 8U : 0U;
  bits |= (a <= b) ? 16U : 0U;
  bits |= (a >= b) ? 32U : 0U;
  return bits;
}

// Compile-time use of the comparison operators must keep working.
constexpr PhQ::Dimensions kFirst{
    PhQ::Dimension::Time{-2}, PhQ::Dimension::Length{1}, PhQ::Dimension::Mass{1},
    PhQ::Dimension::ElectricCurrent{0}, PhQ::Dimension::Temperature{0},
    PhQ::Dimension::SubstanceAmount{0}, PhQ::Dimension::LuminousIntensity{0}};
constexpr PhQ::Dimensions kSecond{
    PhQ::Dimension::Time{-2}, PhQ::Dimension::Length{1}, PhQ::Dimension::Mass{1},
    PhQ::Dimension::ElectricCurrent{0}, PhQ::Dimension::Temperature{0},
    PhQ::Dimension::SubstanceAmount{0}, PhQ::Dimension::LuminousIntensity{1}};
static_assert(kFirst == kFirst);
static_assert(kFirst != kSecond);
static_assert(kFirst < kSecond);
static_assert(kSecond > kFirst);
static_assert(kFirst <= kSecond);
static_assert(kSecond >= kFirst);
static_assert(PhQ::Dimensionless == PhQ::Dimensions{});

template <typename UnitType>
void UnitLine(const char* const name, std::vector<PhQ::Dimensions>& all) {
  const PhQ::Dimensions& d = PhQ::RelatedDimensions<UnitType>;
  std::cout << "unit " << name << ": " << Describe(d) << "\n";
  all.push_back(d);
}

template <typename Quantity>
void QuantityLine(const char* const name, const char* const numeric,
                  std::vector<PhQ::Dimensions>& all) {
  const PhQ::Dimensions d = Quantity::Dimensions();
  const Quantity quantity{};
  const PhQ::Dimensions e = quantity.Dimensions();
  std::cout << "quantity " << name << "<" << numeric << ">: " << Describe(d)
            << " same=" << Compare(d, e) << "\n";
  all.push_back(d);
}

}  // namespace

int main() {
  // 1. Units.
  std::vector<PhQ::Dimensions> units;
  UnitLine<PhQ::Unit::Acceleration>("Acceleration", units);
  UnitLine<PhQ::Unit::Angle>("Angle", units);
  UnitLine<PhQ::Unit::AngularAcceleration>("AngularAcceleration", units);
  UnitLine<PhQ::Unit::AngularSpeed>("AngularSpeed", units);
  UnitLine<PhQ::Unit::Area>("Area", units);
  UnitLine<PhQ::Unit::Diffusivity>("Diffusivity", units);
  UnitLine<PhQ::Unit::DynamicViscosity>("DynamicViscosity", units);
  UnitLine<PhQ::Unit::ElectricCharge>("ElectricCharge", units);
  UnitLine<PhQ::Unit::ElectricCurrent>("ElectricCurrent", units);
  UnitLine<PhQ::Unit::Energy>("Energy", units);
  UnitLine<PhQ::Unit::EnergyFlux>("EnergyFlux", units);
  UnitLine<PhQ::Unit::Force>("Force", units);
  UnitLine<PhQ::Unit::Frequency>("Frequency", units);
  UnitLine<PhQ::Unit::HeatCapacity>("HeatCapacity", units);
  UnitLine<PhQ::Unit::Length>("Length", units);
  UnitLine<PhQ::Unit::Mass>("Mass", units);
  UnitLine<PhQ::Unit::MassDensity>("MassDensity", units);
  UnitLine<PhQ::Unit::MassRate>("MassRate", units);
  UnitLine<PhQ::Unit::Memory>("Memory", units);
  UnitLine<PhQ::Unit::MemoryRate>("MemoryRate", units);
  UnitLine<PhQ::Unit::Power>("Power", units);
  UnitLine<PhQ::Unit::Pressure>("Pressure", units);
  UnitLine<PhQ::Unit::ReciprocalTemperature>("ReciprocalTemperature", units);
  UnitLine<PhQ::Unit::SolidAngle>("SolidAngle", units);
  UnitLine<PhQ::Unit::SpecificEnergy>("SpecificEnergy", units);
  UnitLine<PhQ::Unit::SpecificHeatCapacity>("SpecificHeatCapacity", units);
  UnitLine<PhQ::Unit::SpecificPower>("SpecificPower", units);
  UnitLine<PhQ::Unit::Speed>("Speed", units);
  UnitLine<PhQ::Unit::SubstanceAmount>("SubstanceAmount", units);
  UnitLine<PhQ::Unit::Temperature>("Temperature", units);
  UnitLine<PhQ::Unit::TemperatureDifference>("TemperatureDifference", units);
  UnitLine<PhQ::Unit::TemperatureGradient>("TemperatureGradient", units);
  UnitLine<PhQ::Unit::ThermalConductivity>("ThermalConductivity", units);
  UnitLine<PhQ::Unit::Time>("Time", units);
  UnitLine<PhQ::Unit::TransportEnergyConsumption>("TransportEnergyConsumption", units);
  UnitLine<PhQ::Unit::Volume>("Volume", units);
  UnitLine<PhQ::Unit::VolumeRate>("VolumeRate", units);
  for (const PhQ::Dimensions& a : units) {
    for (const PhQ::Dimensions& b : units) {
      std::cout << Compare(a, b) << " ";
    }
    std::cout << "\n";
  }

  // 2. Quantities, all three numeric types.
  std::vector<PhQ::Dimensions> quantities;
  QuantityLine<PhQ::Acceleration<float>>("Acceleration", "float", quantities);
  QuantityLine<PhQ::Acceleration<double>>("Acceleration", "double", quantities);
  QuantityLine<PhQ::Acceleration<long double>>("Acceleration", "long double", quantities);
  QuantityLine<PhQ::Angle<float>>("Angle", "float", quantities);
  QuantityLine<PhQ::Angle<double>>("Angle", "double", quantities);
  QuantityLine<PhQ::Angle<long double>>("Angle", "long double", quantities);
  QuantityLine<PhQ::AngularSpeed<float>>("AngularSpeed", "float", quantities);
  QuantityLine<PhQ::AngularSpeed<double>>("AngularSpeed", "double", quantities);
  QuantityLine<PhQ::AngularSpeed<long double>>("AngularSpeed", "long double", quantities);
  QuantityLine<PhQ::Area<float>>("Area", "float", quantities);
  QuantityLine<PhQ::Area<double>>("Area", "double", quantities);
  QuantityLine<PhQ::Area<long double>>("Area", "long double", quantities);
  QuantityLine<PhQ::BulkDynamicViscosity<float>>("BulkDynamicViscosity", "float", quantities);
  QuantityLine<PhQ::BulkDynamicViscosity<double>>("BulkDynamicViscosity", "double", quantities);
  QuantityLine<PhQ::BulkDynamicViscosity<long double>>("BulkDynamicViscosity", "long double", quantities);
  QuantityLine<PhQ::Direction<float>>("Direction", "float", quantities);
  QuantityLine<PhQ::Direction<double>>("Direction", "double", quantities);
  QuantityLine<PhQ::Direction<long double>>("Direction", "long double", quantities);
  QuantityLine<PhQ::Displacement<float>>("Displacement", "float", quantities);
  QuantityLine<PhQ::Displacement<double>>("Displacement", "double", quantities);
  QuantityLine<PhQ::Displacement<long double>>("Displacement", "long double", quantities);
  QuantityLine<PhQ::DisplacementGradient<float>>("DisplacementGradient", "float", quantities);
  QuantityLine<PhQ::DisplacementGradient<double>>("DisplacementGradient", "double", quantities);
  QuantityLine<PhQ::DisplacementGradient<long double>>("DisplacementGradient", "long double", quantities);
  QuantityLine<PhQ::DynamicKinematicPressure<float>>("DynamicKinematicPressure", "float", quantities);
  QuantityLine<PhQ::DynamicKinematicPressure<double>>("DynamicKinematicPressure", "double", quantities);
  QuantityLine<PhQ::DynamicKinematicPressure<long double>>("DynamicKinematicPressure", "long double", quantities);
  QuantityLine<PhQ::DynamicPressure<float>>("DynamicPressure", "float", quantities);
  QuantityLine<PhQ::DynamicPressure<double>>("DynamicPressure", "double", quantities);
  QuantityLine<PhQ::DynamicPressure<long double>>("DynamicPressure", "long double", quantities);
  QuantityLine<PhQ::DynamicViscosity<float>>("DynamicViscosity", "float", quantities);
  QuantityLine<PhQ::DynamicViscosity<double>>("DynamicViscosity", "double", quantities);
  QuantityLine<PhQ::DynamicViscosity<long double>>("DynamicViscosity", "long double", quantities);
  QuantityLine<PhQ::ElectricCharge<float>>("ElectricCharge", "float", quantities);
  QuantityLine<PhQ::ElectricCharge<double>>("ElectricCharge", "double", quantities);
  QuantityLine<PhQ::ElectricCharge<long double>>("ElectricCharge", "long double", quantities);
  QuantityLine<PhQ::ElectricCurrent<float>>("ElectricCurrent", "float", quantities);
  QuantityLine<PhQ::ElectricCurrent<double>>("ElectricCurrent", "double", quantities);
  QuantityLine<PhQ::ElectricCurrent<long double>>("ElectricCurrent", "long double", quantities);
  QuantityLine<PhQ::Energy<float>>("Energy", "float", quantities);
  QuantityLine<PhQ::Energy<double>>("Energy", "double", quantities);
  QuantityLine<PhQ::Energy<long double>>("Energy", "long double", quantities);
  QuantityLine<PhQ::Force<float>>("Force", "float", quantities);
  QuantityLine<PhQ::Force<double>>("Force", "double", quantities);
  QuantityLine<PhQ::Force<long double>>("Force", "long double", quantities);
  QuantityLine<PhQ::Frequency<float>>("Frequency", "float", quantities);
  QuantityLine<PhQ::Frequency<double>>("Frequency", "double", quantities);
  QuantityLine<PhQ::Frequency<long double>>("Frequency", "long double", quantities);
  QuantityLine<PhQ::GasConstant<float>>("GasConstant", "float", quantities);
  QuantityLine<PhQ::GasConstant<double>>("GasConstant", "double", quantities);
  QuantityLine<PhQ::GasConstant<long double>>("GasConstant", "long double", quantities);
  QuantityLine<PhQ::HeatCapacityRatio<float>>("HeatCapacityRatio", "float", quantities);
  QuantityLine<PhQ::HeatCapacityRatio<double>>("HeatCapacityRatio", "double", quantities);
  QuantityLine<PhQ::HeatCapacityRatio<long double>>("HeatCapacityRatio", "long double", quantities);
  QuantityLine<PhQ::HeatFlux<float>>("HeatFlux", "float", quantities);
  QuantityLine<PhQ::HeatFlux<double>>("HeatFlux", "double", quantities);
  QuantityLine<PhQ::HeatFlux<long double>>("HeatFlux", "long double", quantities);
  QuantityLine<PhQ::IsentropicBulkModulus<float>>("IsentropicBulkModulus", "float", quantities);
  QuantityLine<PhQ::IsentropicBulkModulus<double>>("IsentropicBulkModulus", "double", quantities);
  QuantityLine<PhQ::IsentropicBulkModulus<long double>>("IsentropicBulkModulus", "long double", quantities);
  QuantityLine<PhQ::IsobaricHeatCapacity<float>>("IsobaricHeatCapacity", "float", quantities);
  QuantityLine<PhQ::IsobaricHeatCapacity<double>>("IsobaricHeatCapacity", "double", quantities);
  QuantityLine<PhQ::IsobaricHeatCapacity<long double>>("IsobaricHeatCapacity", "long double", quantities);
  QuantityLine<PhQ::IsochoricHeatCapacity<float>>("IsochoricHeatCapacity", "float", quantities);
  QuantityLine<PhQ::IsochoricHeatCapacity<double>>("IsochoricHeatCapacity", "double", quantities);
  QuantityLine<PhQ::IsochoricHeatCapacity<long double>>("IsochoricHeatCapacity", "long double", quantities);
  QuantityLine<PhQ::IsothermalBulkModulus<float>>("IsothermalBulkModulus", "float", quantities);
  QuantityLine<PhQ::IsothermalBulkModulus<double>>("IsothermalBulkModulus", "double", quantities);
  QuantityLine<PhQ::IsothermalBulkModulus<long double>>("IsothermalBulkModulus", "long double", quantities);
  QuantityLine<PhQ::KinematicViscosity<float>>("KinematicViscosity", "float", quantities);
  QuantityLine<PhQ::KinematicViscosity<double>>("KinematicViscosity", "double", quantities);
  QuantityLine<PhQ::KinematicViscosity<long double>>("KinematicViscosity", "long double", quantities);
  QuantityLine<PhQ::LameFirstModulus<float>>("LameFirstModulus", "float", quantities);
  QuantityLine<PhQ::LameFirstModulus<double>>("LameFirstModulus", "double", quantities);
  QuantityLine<PhQ::LameFirstModulus<long double>>("LameFirstModulus", "long double", quantities);
  QuantityLine<PhQ::Length<float>>("Length", "float", quantities);
  QuantityLine<PhQ::Length<double>>("Length", "double", quantities);
  QuantityLine<PhQ::Length<long double>>("Length", "long double", quantities);
  QuantityLine<PhQ::LinearThermalExpansionCoefficient<float>>("LinearThermalExpansionCoefficient", "float", quantities);
  QuantityLine<PhQ::LinearThermalExpansionCoefficient<double>>("LinearThermalExpansionCoefficient", "double", quantities);
  QuantityLine<PhQ::LinearThermalExpansionCoefficient<long double>>("LinearThermalExpansionCoefficient", "long double", quantities);
  QuantityLine<PhQ::MachNumber<float>>("MachNumber", "float", quantities);
  QuantityLine<PhQ::MachNumber<double>>("MachNumber", "double", quantities);
  QuantityLine<PhQ::MachNumber<long double>>("MachNumber", "long double", quantities);
  QuantityLine<PhQ::Mass<float>>("Mass", "float", quantities);
  QuantityLine<PhQ::Mass<double>>("Mass", "double", quantities);
  QuantityLine<PhQ::Mass<long double>>("Mass", "long double", quantities);
  QuantityLine<PhQ::MassDensity<float>>("MassDensity", "float", quantities);
  QuantityLine<PhQ::MassDensity<double>>("MassDensity", "double", quantities);
  QuantityLine<PhQ::MassDensity<long double>>("MassDensity", "long double", quantities);
  QuantityLine<PhQ::MassRate<float>>("MassRate", "float", quantities);
  QuantityLine<PhQ::MassRate<double>>("MassRate", "double", quantities);
  QuantityLine<PhQ::MassRate<long double>>("MassRate", "long double", quantities);
  QuantityLine<PhQ::Memory<float>>("Memory", "float", quantities);
  QuantityLine<PhQ::Memory<double>>("Memory", "double", quantities);
  QuantityLine<PhQ::Memory<long double>>("Memory", "long double", quantities);
  QuantityLine<PhQ::MemoryRate<float>>("MemoryRate", "float", quantities);
  QuantityLine<PhQ::MemoryRate<double>>("MemoryRate", "double", quantities);
  QuantityLine<PhQ::MemoryRate<long double>>("MemoryRate", "long double", quantities);
  QuantityLine<PhQ::PWaveModulus<float>>("PWaveModulus", "float", quantities);
  QuantityLine<PhQ::PWaveModulus<double>>("PWaveModulus", "double", quantities);
  QuantityLine<PhQ::PWaveModulus<long double>>("PWaveModulus", "long double", quantities);
  QuantityLine<PhQ::PlanarAcceleration<float>>("PlanarAcceleration", "float", quantities);
  QuantityLine<PhQ::PlanarAcceleration<double>>("PlanarAcceleration", "double", quantities);
  QuantityLine<PhQ::PlanarAcceleration<long double>>("PlanarAcceleration", "long double", quantities);
  QuantityLine<PhQ::PlanarDirection<float>>("PlanarDirection", "float", quantities);
  QuantityLine<PhQ::PlanarDirection<double>>("PlanarDirection", "double", quantities);
  QuantityLine<PhQ::PlanarDirection<long double>>("PlanarDirection", "long double", quantities);
  QuantityLine<PhQ::PlanarDisplacement<float>>("PlanarDisplacement", "float", quantities);
  QuantityLine<PhQ::PlanarDisplacement<double>>("PlanarDisplacement", "double", quantities);
  QuantityLine<PhQ::PlanarDisplacement<long double>>("PlanarDisplacement", "long double", quantities);
  QuantityLine<PhQ::PlanarForce<float>>("PlanarForce", "float", quantities);
  QuantityLine<PhQ::PlanarForce<double>>("PlanarForce", "double", quantities);
  QuantityLine<PhQ::PlanarForce<long double>>("PlanarForce", "long double", quantities);
  QuantityLine<PhQ::PlanarHeatFlux<float>>("PlanarHeatFlux", "float", quantities);
  QuantityLine<PhQ::PlanarHeatFlux<double>>("PlanarHeatFlux", "double", quantities);
  QuantityLine<PhQ::PlanarHeatFlux<long double>>("PlanarHeatFlux", "long double", quantities);
  QuantityLine<PhQ::PlanarPosition<float>>("PlanarPosition", "float", quantities);
  QuantityLine<PhQ::PlanarPosition<double>>("PlanarPosition", "double", quantities);
  QuantityLine<PhQ::PlanarPosition<long double>>("PlanarPosition", "long double", quantities);
  QuantityLine<PhQ::PlanarTemperatureGradient<float>>("PlanarTemperatureGradient", "float", quantities);
  QuantityLine<PhQ::PlanarTemperatureGradient<double>>("PlanarTemperatureGradient", "double", quantities);
  QuantityLine<PhQ::PlanarTemperatureGradient<long double>>("PlanarTemperatureGradient", "long double", quantities);
  QuantityLine<PhQ::PlanarTraction<float>>("PlanarTraction", "float", quantities);
  QuantityLine<PhQ::PlanarTraction<double>>("PlanarTraction", "double", quantities);
  QuantityLine<PhQ::PlanarTraction<long double>>("PlanarTraction", "long double", quantities);
  QuantityLine<PhQ::PlanarVelocity<float>>("PlanarVelocity", "float", quantities);
  QuantityLine<PhQ::PlanarVelocity<double>>("PlanarVelocity", "double", quantities);
  QuantityLine<PhQ::PlanarVelocity<long double>>("PlanarVelocity", "long double", quantities);
  QuantityLine<PhQ::PoissonRatio<float>>("PoissonRatio", "float", quantities);
  QuantityLine<PhQ::PoissonRatio<double>>("PoissonRatio", "double", quantities);
  QuantityLine<PhQ::PoissonRatio<long double>>("PoissonRatio", "long double", quantities);
  QuantityLine<PhQ::Position<float>>("Position", "float", quantities);
  QuantityLine<PhQ::Position<double>>("Position", "double", quantities);
  QuantityLine<PhQ::Position<long double>>("Position", "long double", quantities);
  QuantityLine<PhQ::Power<float>>("Power", "float", quantities);
  QuantityLine<PhQ::Power<double>>("Power", "double", quantities);
  QuantityLine<PhQ::Power<long double>>("Power", "long double", quantities);
  QuantityLine<PhQ::PrandtlNumber<float>>("PrandtlNumber", "float", quantities);
  QuantityLine<PhQ::PrandtlNumber<double>>("PrandtlNumber", "double", quantities);
  QuantityLine<PhQ::PrandtlNumber<long double>>("PrandtlNumber", "long double", quantities);
  QuantityLine<PhQ::ReynoldsNumber<float>>("ReynoldsNumber", "float", quantities);
  QuantityLine<PhQ::ReynoldsNumber<double>>("ReynoldsNumber", "double", quantities);
  QuantityLine<PhQ::ReynoldsNumber<long double>>("ReynoldsNumber", "long double", quantities);
  QuantityLine<PhQ::ScalarAcceleration<float>>("ScalarAcceleration", "float", quantities);
  QuantityLine<PhQ::ScalarAcceleration<double>>("ScalarAcceleration", "double", quantities);
  QuantityLine<PhQ::ScalarAcceleration<long double>>("ScalarAcceleration", "long double", quantities);
  QuantityLine<PhQ::ScalarAngularAcceleration<float>>("ScalarAngularAcceleration", "float", quantities);
  QuantityLine<PhQ::ScalarAngularAcceleration<double>>("ScalarAngularAcceleration", "double", quantities);
  QuantityLine<PhQ::ScalarAngularAcceleration<long double>>("ScalarAngularAcceleration", "long double", quantities);
  QuantityLine<PhQ::ScalarDisplacementGradient<float>>("ScalarDisplacementGradient", "float", quantities);
  QuantityLine<PhQ::ScalarDisplacementGradient<double>>("ScalarDisplacementGradient", "double", quantities);
  QuantityLine<PhQ::ScalarDisplacementGradient<long double>>("ScalarDisplacementGradient", "long double", quantities);
  QuantityLine<PhQ::ScalarForce<float>>("ScalarForce", "float", quantities);
  QuantityLine<PhQ::ScalarForce<double>>("ScalarForce", "double", quantities);
  QuantityLine<PhQ::ScalarForce<long double>>("ScalarForce", "long double", quantities);
  QuantityLine<PhQ::ScalarHeatFlux<float>>("ScalarHeatFlux", "float", quantities);
  QuantityLine<PhQ::ScalarHeatFlux<double>>("ScalarHeatFlux", "double", quantities);
  QuantityLine<PhQ::ScalarHeatFlux<long double>>("ScalarHeatFlux", "long double", quantities);
  QuantityLine<PhQ::ScalarStrain<float>>("ScalarStrain", "float", quantities);
  QuantityLine<PhQ::ScalarStrain<double>>("ScalarStrain", "double", quantities);
  QuantityLine<PhQ::ScalarStrain<long double>>("ScalarStrain", "long double", quantities);
  QuantityLine<PhQ::ScalarStrainRate<float>>("ScalarStrainRate", "float", quantities);
  QuantityLine<PhQ::ScalarStrainRate<double>>("ScalarStrainRate", "double", quantities);
  QuantityLine<PhQ::ScalarStrainRate<long double>>("ScalarStrainRate", "long double", quantities);
  QuantityLine<PhQ::ScalarStress<float>>("ScalarStress", "float", quantities);
  QuantityLine<PhQ::ScalarStress<double>>("ScalarStress", "double", quantities);
  QuantityLine<PhQ::ScalarStress<long double>>("ScalarStress", "long double", quantities);
  QuantityLine<PhQ::ScalarTemperatureGradient<float>>("ScalarTemperatureGradient", "float", quantities);
  QuantityLine<PhQ::ScalarTemperatureGradient<double>>("ScalarTemperatureGradient", "double", quantities);
  QuantityLine<PhQ::ScalarTemperatureGradient<long double>>("ScalarTemperatureGradient", "long double", quantities);
  QuantityLine<PhQ::ScalarThermalConductivity<float>>("ScalarThermalConductivity", "float", quantities);
  QuantityLine<PhQ::ScalarThermalConductivity<double>>("ScalarThermalConductivity", "double", quantities);
  QuantityLine<PhQ::ScalarThermalConductivity<long double>>("ScalarThermalConductivity", "long double", quantities);
  QuantityLine<PhQ::ScalarTraction<float>>("ScalarTraction", "float", quantities);
  QuantityLine<PhQ::ScalarTraction<double>>("ScalarTraction", "double", quantities);
  QuantityLine<PhQ::ScalarTraction<long double>>("ScalarTraction", "long double", quantities);
  QuantityLine<PhQ::ScalarVelocityGradient<float>>("ScalarVelocityGradient", "float", quantities);
  QuantityLine<PhQ::ScalarVelocityGradient<double>>("ScalarVelocityGradient", "double", quantities);
  QuantityLine<PhQ::ScalarVelocityGradient<long double>>("ScalarVelocityGradient", "long double", quantities);
  QuantityLine<PhQ::ShearModulus<float>>("ShearModulus", "float", quantities);
  QuantityLine<PhQ::ShearModulus<double>>("ShearModulus", "double", quantities);
  QuantityLine<PhQ::ShearModulus<long double>>("ShearModulus", "long double", quantities);
  QuantityLine<PhQ::SolidAngle<float>>("SolidAngle", "float", quantities);
  QuantityLine<PhQ::SolidAngle<double>>("SolidAngle", "double", quantities);
  QuantityLine<PhQ::SolidAngle<long double>>("SolidAngle", "long double", quantities);
  QuantityLine<PhQ::SoundSpeed<float>>("SoundSpeed", "float", quantities);
  QuantityLine<PhQ::SoundSpeed<double>>("SoundSpeed", "double", quantities);
  QuantityLine<PhQ::SoundSpeed<long double>>("SoundSpeed", "long double", quantities);
  QuantityLine<PhQ::SpecificEnergy<float>>("SpecificEnergy", "float", quantities);
  QuantityLine<PhQ::SpecificEnergy<double>>("SpecificEnergy", "double", quantities);
  QuantityLine<PhQ::SpecificEnergy<long double>>("SpecificEnergy", "long double", quantities);
  QuantityLine<PhQ::SpecificGasConstant<float>>("SpecificGasConstant", "float", quantities);
  QuantityLine<PhQ::SpecificGasConstant<double>>("SpecificGasConstant", "double", quantities);
  QuantityLine<PhQ::SpecificGasConstant<long double>>("SpecificGasConstant", "long double", quantities);
  QuantityLine<PhQ::SpecificIsobaricHeatCapacity<float>>("SpecificIsobaricHeatCapacity", "float", quantities);
  QuantityLine<PhQ::SpecificIsobaricHeatCapacity<double>>("SpecificIsobaricHeatCapacity", "double", quantities);
  QuantityLine<PhQ::SpecificIsobaricHeatCapacity<long double>>("SpecificIsobaricHeatCapacity", "long double", quantities);
  QuantityLine<PhQ::SpecificIsochoricHeatCapacity<float>>("SpecificIsochoricHeatCapacity", "float", quantities);
  QuantityLine<PhQ::SpecificIsochoricHeatCapacity<double>>("SpecificIsochoricHeatCapacity", "double", quantities);
  QuantityLine<PhQ::SpecificIsochoricHeatCapacity<long double>>("SpecificIsochoricHeatCapacity", "long double", quantities);
  QuantityLine<PhQ::SpecificPower<float>>("SpecificPower", "float", quantities);
  QuantityLine<PhQ::SpecificPower<double>>("SpecificPower", "double", quantities);
  QuantityLine<PhQ::SpecificPower<long double>>("SpecificPower", "long double", quantities);
  QuantityLine<PhQ::Speed<float>>("Speed", "float", quantities);
  QuantityLine<PhQ::Speed<double>>("Speed", "double", quantities);
  QuantityLine<PhQ::Speed<long double>>("Speed", "long double", quantities);
  QuantityLine<PhQ::StaticKinematicPressure<float>>("StaticKinematicPressure", "float", quantities);
  QuantityLine<PhQ::StaticKinematicPressure<double>>("StaticKinematicPressure", "double", quantities);
  QuantityLine<PhQ::StaticKinematicPressure<long double>>("StaticKinematicPressure", "long double", quantities);
  QuantityLine<PhQ::StaticPressure<float>>("StaticPressure", "float", quantities);
  QuantityLine<PhQ::StaticPressure<double>>("StaticPressure", "double", quantities);
  QuantityLine<PhQ::StaticPressure<long double>>("StaticPressure", "long double", quantities);
  QuantityLine<PhQ::Strain<float>>("Strain", "float", quantities);
  QuantityLine<PhQ::Strain<double>>("Strain", "double", quantities);
  QuantityLine<PhQ::Strain<long double>>("Strain", "long double", quantities);
  QuantityLine<PhQ::StrainRate<float>>("StrainRate", "float", quantities);
  QuantityLine<PhQ::StrainRate<double>>("StrainRate", "double", quantities);
  QuantityLine<PhQ::StrainRate<long double>>("StrainRate", "long double", quantities);
  QuantityLine<PhQ::Stress<float>>("Stress", "float", quantities);
  QuantityLine<PhQ::Stress<double>>("Stress", "double", quantities);
  QuantityLine<PhQ::Stress<long double>>("Stress", "long double", quantities);
  QuantityLine<PhQ::SubstanceAmount<float>>("SubstanceAmount", "float", quantities);
  QuantityLine<PhQ::SubstanceAmount<double>>("SubstanceAmount", "double", quantities);
  QuantityLine<PhQ::SubstanceAmount<long double>>("SubstanceAmount", "long double", quantities);
  QuantityLine<PhQ::Temperature<float>>("Temperature", "float", quantities);
  QuantityLine<PhQ::Temperature<double>>("Temperature", "double", quantities);
  QuantityLine<PhQ::Temperature<long double>>("Temperature", "long double", quantities);
  QuantityLine<PhQ::TemperatureDifference<float>>("TemperatureDifference", "float", quantities);
  QuantityLine<PhQ::TemperatureDifference<double>>("TemperatureDifference", "double", quantities);
  QuantityLine<PhQ::TemperatureDifference<long double>>("TemperatureDifference", "long double", quantities);
  QuantityLine<PhQ::TemperatureGradient<float>>("TemperatureGradient", "float", quantities);
  QuantityLine<PhQ::TemperatureGradient<double>>("TemperatureGradient", "double", quantities);
  QuantityLine<PhQ::TemperatureGradient<long double>>("TemperatureGradient", "long double", quantities);
  QuantityLine<PhQ::ThermalConductivity<float>>("ThermalConductivity", "float", quantities);
  QuantityLine<PhQ::ThermalConductivity<double>>("ThermalConductivity", "double", quantities);
  QuantityLine<PhQ::ThermalConductivity<long double>>("ThermalConductivity", "long double", quantities);
  QuantityLine<PhQ::ThermalDiffusivity<float>>("ThermalDiffusivity", "float", quantities);
  QuantityLine<PhQ::ThermalDiffusivity<double>>("ThermalDiffusivity", "double", quantities);
  QuantityLine<PhQ::ThermalDiffusivity<long double>>("ThermalDiffusivity", "long double", quantities);
  QuantityLine<PhQ::Time<float>>("Time", "float", quantities);
  QuantityLine<PhQ::Time<double>>("Time", "double", quantities);
  QuantityLine<PhQ::Time<long double>>("Time", "long double", quantities);
  QuantityLine<PhQ::TotalKinematicPressure<float>>("TotalKinematicPressure", "float", quantities);
  QuantityLine<PhQ::TotalKinematicPressure<double>>("TotalKinematicPressure", "double", quantities);
  QuantityLine<PhQ::TotalKinematicPressure<long double>>("TotalKinematicPressure", "long double", quantities);
  QuantityLine<PhQ::TotalPressure<float>>("TotalPressure", "float", quantities);
  QuantityLine<PhQ::TotalPressure<double>>("TotalPressure", "double", quantities);
  QuantityLine<PhQ::TotalPressure<long double>>("TotalPressure", "long double", quantities);
  QuantityLine<PhQ::Traction<float>>("Traction", "float", quantities);
  QuantityLine<PhQ::Traction<double>>("Traction", "double", quantities);
  QuantityLine<PhQ::Traction<long double>>("Traction", "long double", quantities);
  QuantityLine<PhQ::TransportEnergyConsumption<float>>("TransportEnergyConsumption", "float", quantities);
  QuantityLine<PhQ::TransportEnergyConsumption<double>>("TransportEnergyConsumption", "double", quantities);
  QuantityLine<PhQ::TransportEnergyConsumption<long double>>("TransportEnergyConsumption", "long double", quantities);
  QuantityLine<PhQ::VectorArea<float>>("VectorArea", "float", quantities);
  QuantityLine<PhQ::VectorArea<double>>("VectorArea", "double", quantities);
  QuantityLine<PhQ::VectorArea<long double>>("VectorArea", "long double", quantities);
  QuantityLine<PhQ::Velocity<float>>("Velocity", "float", quantities);
  QuantityLine<PhQ::Velocity<double>>("Velocity", "double", quantities);
  QuantityLine<PhQ::Velocity<long double>>("Velocity", "long double", quantities);
  QuantityLine<PhQ::VelocityGradient<float>>("VelocityGradient", "float", quantities);
  QuantityLine<PhQ::VelocityGradient<double>>("VelocityGradient", "double", quantities);
  QuantityLine<PhQ::VelocityGradient<long double>>("VelocityGradient", "long double", quantities);
  QuantityLine<PhQ::Volume<float>>("Volume", "float", quantities);
  QuantityLine<PhQ::Volume<double>>("Volume", "double", quantities);
  QuantityLine<PhQ::Volume<long double>>("Volume", "long double", quantities);
  QuantityLine<PhQ::VolumeRate<float>>("VolumeRate", "float", quantities);
  QuantityLine<PhQ::VolumeRate<double>>("VolumeRate", "double", quantities);
  QuantityLine<PhQ::VolumeRate<long double>>("VolumeRate", "long double", quantities);
  QuantityLine<PhQ::VolumetricThermalExpansionCoefficient<float>>("VolumetricThermalExpansionCoefficient", "float", quantities);
  QuantityLine<PhQ::VolumetricThermalExpansionCoefficient<double>>("VolumetricThermalExpansionCoefficient", "double", quantities);
  QuantityLine<PhQ::VolumetricThermalExpansionCoefficient<long double>>("VolumetricThermalExpansionCoefficient", "long double", quantities);
  QuantityLine<PhQ::YoungModulus<float>>("YoungModulus", "float", quantities);
  QuantityLine<PhQ::YoungModulus<double>>("YoungModulus", "double", quantities);
  QuantityLine<PhQ::YoungModulus<long double>>("YoungModulus", "long double", quantities);
  for (const PhQ::Dimensions& a : quantities) {
    for (const PhQ::Dimensions& b : units) {
      Mix(Compare(a, b));
    }
  }
  std::cout << "quantity-vs-unit comparison digest " << digest << "\n";
  {
    std::set<PhQ::Dimensions> ordered(quantities.begin(), quantities.end());
    std::unordered_set<PhQ::Dimensions> hashed(quantities.begin(), quantities.end());
    std::cout << "distinct quantity dimension sets: set=" << ordered.size()
              << " unordered_set=" << hashed.size() << "\n";
    for (const PhQ::Dimensions& d : ordered) {
      std::cout << "  " << d << "\n";
    }
  }

  // 3. Box [-2, 2]^7: printing and hashing of every exponent 7-tuple.
  std::vector<PhQ::Dimensions> small_box;
  {
    std::size_t count = 0;
    for (int t = -2; t <= 2; ++t)
      for (int l = -2; l <= 2; ++l)
        for (int m = -2; m <= 2; ++m)
          for (int i = -2; i <= 2; ++i)
            for (int th = -2; th <= 2; ++th)
              for (int n = -2; n <= 2; ++n)
                for (int j = -2; j <= 2; ++j) {
                  const PhQ::Dimensions d = Make(t, l, m, i, th, n, j);
                  const std::string text = Describe(d);
                  Mix(text);
                  if (count % 1499 == 0) {
                    std::cout << "box " << text << "\n";
                  }
                  ++count;
                  if (t >= -1 && t <= 1 && l >= -1 && l <= 1 && m >= -1 && m <= 1 && i >= -1
                      && i <= 1 && th >= -1 && th <= 1 && n >= -1 && n <= 1 && j >= -1 && j <= 1) {
                    small_box.push_back(d);
                  }
                }
    std::cout << "box count " << count << " digest " << digest << "\n";
  }

  // 4. Box [-1, 1]^7: all six comparisons of every ordered pair.
  {
    std::uint64_t counts[64] = {};
    for (const PhQ::Dimensions& a : small_box) {
      for (const PhQ::Dimensions& b : small_box) {
        const unsigned bits = Compare(a, b);
        ++counts[bits];
        Mix(bits);
      }
    }
    std::cout << "pair digest " << digest << " counts";
    for (int k = 0; k < 64; ++k) {
      if (counts[k] != 0) {
        std::cout << " " << k << ":" << counts[k];
      }
    }
    std::cout << "\n";
  }

  // 5. Random and extreme exponents, including the limits of int8_t.
  {
    std::mt19937 generator(20240606U);
    std::uniform_int_distribution<int> wide(-128, 127);
    std::uniform_int_distribution<int> narrow(-3, 3);
    std::uniform_int_distribution<int> coin(0, 3);
    const int extremes[] = {-128, -127, -100, -10, -9, -2, -1, 0, 1, 2, 9, 10, 99, 100, 126, 127};
    std::uniform_int_distribution<int> pick(0, 15);
    std::vector<PhQ::Dimensions> sample;
    for (int k = 0; k < 20000; ++k) {
      int e[7];
      const int mode = coin(generator);
      for (int& x : e) {
        x = mode == 0 ? wide(generator) : mode == 1 ? extremes[pick(generator)] : narrow(generator);
      }
      const PhQ::Dimensions d = Make(e[0], e[1], e[2], e[3], e[4], e[5], e[6]);
      const std::string text = Describe(d);
      Mix(text);
      if (k % 500 == 0) {
        std::cout << "random " << text << "\n";
      }
      sample.push_back(d);
      // A neighbour that shares a random-length prefix with d, to exercise every tie-break depth.
      int f[7];
      const int prefix = pick(generator) % 8;
      for (int p = 0; p < 7; ++p) {
        f[p] = p < prefix ? e[p] : (mode == 0 ? wide(generator) : narrow(generator));
      }
      const PhQ::Dimensions g = Make(f[0], f[1], f[2], f[3], f[4], f[5], f[6]);
      const unsigned forward = Compare(d, g);
      const unsigned backward = Compare(g, d);
      Mix(forward);
      Mix(backward);
      Mix(Describe(g));
      if (k % 500 == 0) {
        std::cout << "  neighbour " << Describe(g) << " cmp=" << forward << "/" << backward << "\n";
      }
    }
    for (std::size_t a = 0; a < sample.size(); a += 7) {
      for (std::size_t b = 0; b < sample.size(); b += 11) {
        Mix(Compare(sample[a], sample[b]));
      }
    }
    std::set<PhQ::Dimensions> ordered(sample.begin(), sample.end());
    std::unordered_set<PhQ::Dimensions> hashed(sample.begin(), sample.end());
    std::cout << "random distinct set=" << ordered.size() << " unordered_set=" << hashed.size()
              << "\n";
    for (const PhQ::Dimensions& d : ordered) {
      Mix(d.Print());
    }
    std::cout << "random digest " << digest << "\n";
  }

  // 6. Every single-exponent set over the whole int8_t range, for each of the seven positions.
  for (int position = 0; position < 7; ++position) {
    for (int value = -128; value <= 127; ++value) {
      int e[7] = {0, 0, 0, 0, 0, 0, 0};
      e[position] = value;
      const PhQ::Dimensions d = Make(e[0], e[1], e[2], e[3], e[4], e[5], e[6]);
      Mix(Describe(d));
      Mix(Compare(d, PhQ::Dimensionless));
      Mix(Compare(PhQ::Dimensionless, d));
    }
  }
  std::cout << "dimensionless " << Describe(PhQ::Dimensionless) << "\n";
  std::cout << "final digest " << digest << "\n";
  return 0;
}
