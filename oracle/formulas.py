"""Textbook definitions for C18 (written from the physics, not from PhQ's source).

Each entry: (name, kind, class, parameter type names, oracle).  kind 'ctor' = constructor of `class`
from those parameter types; 'member' = member function (class, member name, parameter types).
The oracle receives, per parameter (and `self` first for members), a sympy symbol (scalar quantity),
a 3-vector Matrix, or a 3x3 Matrix, and returns a scalar / 3-vector / 3x3 Matrix.
"""
import sympy
from sympy import sqrt, Rational, Matrix, eye

half = Rational(1, 2)


def sym_part(G):
    return (G + G.T) / 2


def trace(A):
    return A[0, 0] + A[1, 1] + A[2, 2]


def von_mises(s):
    return sqrt(half * ((s[0, 0] - s[1, 1]) ** 2 + (s[1, 1] - s[2, 2]) ** 2 + (s[2, 2] - s[0, 0]) ** 2
                        + 6 * (s[0, 1] ** 2 + s[0, 2] ** 2 + s[1, 2] ** 2)))


FORMULAS = [
    # dynamic pressure q = 1/2 rho v^2 and its inverse forms
    ("dynamic pressure", "ctor", "DynamicPressure", ["MassDensity", "Speed"], lambda rho, v: half * rho * v ** 2),
    ("speed from dynamic pressure", "ctor", "Speed", ["DynamicPressure", "MassDensity"], lambda q, rho: sqrt(2 * q / rho)),
    ("density from dynamic pressure", "ctor", "MassDensity", ["DynamicPressure", "Speed"], lambda q, v: 2 * q / v ** 2),
    # dynamic kinematic pressure k = 1/2 v^2 = q / rho
    ("dynamic kinematic pressure", "ctor", "DynamicKinematicPressure", ["Speed"], lambda v: half * v ** 2),
    ("speed from dynamic kinematic pressure", "ctor", "Speed", ["DynamicKinematicPressure"], lambda k: sqrt(2 * k)),
    ("dynamic kinematic pressure from dynamic pressure", "ctor", "DynamicKinematicPressure", ["DynamicPressure", "MassDensity"], lambda q, rho: q / rho),
    ("dynamic pressure from kinematic", "ctor", "DynamicPressure", ["MassDensity", "DynamicKinematicPressure"], lambda rho, k: rho * k),
    # total = static + dynamic
    ("total pressure", "ctor", "TotalPressure", ["StaticPressure", "DynamicPressure"], lambda ps, q: ps + q),
    ("static from total", "ctor", "StaticPressure", ["TotalPressure", "DynamicPressure"], lambda pt, q: pt - q),
    ("dynamic from total", "ctor", "DynamicPressure", ["TotalPressure", "StaticPressure"], lambda pt, ps: pt - ps),
    ("total kinematic pressure", "ctor", "TotalKinematicPressure", ["StaticKinematicPressure", "DynamicKinematicPressure"], lambda a, b: a + b),
    ("static kinematic from total", "ctor", "StaticKinematicPressure", ["TotalKinematicPressure", "DynamicKinematicPressure"], lambda t, d: t - d),
    ("dynamic kinematic from total", "ctor", "DynamicKinematicPressure", ["TotalKinematicPressure", "StaticKinematicPressure"], lambda t, s: t - s),
    ("total pressure from kinematic", "ctor", "TotalPressure", ["MassDensity", "TotalKinematicPressure"], lambda rho, k: rho * k),
    ("total kinematic from total pressure", "ctor", "TotalKinematicPressure", ["TotalPressure", "MassDensity"], lambda p, rho: p / rho),
    ("static kinematic pressure", "ctor", "StaticKinematicPressure", ["StaticPressure", "MassDensity"], lambda p, rho: p / rho),
    ("static pressure from kinematic", "ctor", "StaticPressure", ["MassDensity", "StaticKinematicPressure"], lambda rho, k: rho * k),
    # sound speed
    ("sound speed from bulk modulus", "ctor", "SoundSpeed", ["IsentropicBulkModulus", "MassDensity"], lambda K, rho: sqrt(K / rho)),
    ("sound speed of a perfect gas (p, rho)", "ctor", "SoundSpeed", ["HeatCapacityRatio", "StaticPressure", "MassDensity"], lambda g, p, rho: sqrt(g * p / rho)),
    ("sound speed of a perfect gas (R, T)", "ctor", "SoundSpeed", ["HeatCapacityRatio", "SpecificGasConstant", "Temperature"], lambda g, R, T: sqrt(g * R * T)),
    ("density from bulk modulus and sound speed", "ctor", "MassDensity", ["IsentropicBulkModulus", "SoundSpeed"], lambda K, a: K / a ** 2),
    ("bulk modulus from density and sound speed", "ctor", "IsentropicBulkModulus", ["MassDensity", "SoundSpeed"], lambda rho, a: rho * a ** 2),
    # Mach number
    ("Mach number", "ctor", "MachNumber", ["Speed", "SoundSpeed"], lambda v, a: v / a),
    ("speed from Mach number", "ctor", "Speed", ["SoundSpeed", "MachNumber"], lambda a, M: a * M),
    ("sound speed from Mach number", "ctor", "SoundSpeed", ["Speed", "MachNumber"], lambda v, M: v / M),
    # Reynolds number
    ("Reynolds number (dynamic viscosity)", "ctor", "ReynoldsNumber", ["MassDensity", "Speed", "Length", "DynamicViscosity"], lambda rho, v, L, mu: rho * v * L / mu),
    ("Reynolds number (kinematic viscosity)", "ctor", "ReynoldsNumber", ["Speed", "Length", "KinematicViscosity"], lambda v, L, nu: v * L / nu),
    ("speed from Reynolds number (mu)", "ctor", "Speed", ["ReynoldsNumber", "DynamicViscosity", "MassDensity", "Length"], lambda Re, mu, rho, L: Re * mu / (rho * L)),
    ("speed from Reynolds number (nu)", "ctor", "Speed", ["ReynoldsNumber", "KinematicViscosity", "Length"], lambda Re, nu, L: Re * nu / L),
    ("density from Reynolds number", "ctor", "MassDensity", ["ReynoldsNumber", "DynamicViscosity", "Speed", "Length"], lambda Re, mu, v, L: Re * mu / (v * L)),
    ("kinematic viscosity from Reynolds number", "ctor", "KinematicViscosity", ["Speed", "Length", "ReynoldsNumber"], lambda v, L, Re: v * L / Re),
    # Prandtl number
    ("Prandtl number (diffusivities)", "ctor", "PrandtlNumber", ["KinematicViscosity", "ThermalDiffusivity"], lambda nu, al: nu / al),
    ("Prandtl number (cp mu / k)", "ctor", "PrandtlNumber", ["SpecificIsobaricHeatCapacity", "DynamicViscosity", "ScalarThermalConductivity"], lambda cp, mu, k: cp * mu / k),
    ("thermal diffusivity from Prandtl number", "ctor", "ThermalDiffusivity", ["KinematicViscosity", "PrandtlNumber"], lambda nu, Pr: nu / Pr),
    ("kinematic viscosity from Prandtl number", "ctor", "KinematicViscosity", ["PrandtlNumber", "ThermalDiffusivity"], lambda Pr, al: Pr * al),
    # heat capacity ratio and gas constant
    ("heat capacity ratio", "ctor", "HeatCapacityRatio", ["IsobaricHeatCapacity", "IsochoricHeatCapacity"], lambda cp, cv: cp / cv),
    ("specific heat capacity ratio", "ctor", "HeatCapacityRatio", ["SpecificIsobaricHeatCapacity", "SpecificIsochoricHeatCapacity"], lambda cp, cv: cp / cv),
    ("heat capacity ratio from cp and R", "ctor", "HeatCapacityRatio", ["IsobaricHeatCapacity", "GasConstant"], lambda cp, R: cp / (cp - R)),
    ("heat capacity ratio from R and cv", "ctor", "HeatCapacityRatio", ["GasConstant", "IsochoricHeatCapacity"], lambda R, cv: (cv + R) / cv),
    ("specific heat capacity ratio from cp and R", "ctor", "HeatCapacityRatio", ["SpecificIsobaricHeatCapacity", "SpecificGasConstant"], lambda cp, R: cp / (cp - R)),
    ("specific heat capacity ratio from R and cv", "ctor", "HeatCapacityRatio", ["SpecificGasConstant", "SpecificIsochoricHeatCapacity"], lambda R, cv: (cv + R) / cv),
    ("gas constant", "ctor", "GasConstant", ["IsobaricHeatCapacity", "IsochoricHeatCapacity"], lambda cp, cv: cp - cv),
    ("gas constant from gamma and cp", "ctor", "GasConstant", ["HeatCapacityRatio", "IsobaricHeatCapacity"], lambda g, cp: (1 - 1 / g) * cp),
    ("gas constant from gamma and cv", "ctor", "GasConstant", ["HeatCapacityRatio", "IsochoricHeatCapacity"], lambda g, cv: (g - 1) * cv),
    ("gas constant from specific", "ctor", "GasConstant", ["SpecificGasConstant", "Mass"], lambda R, m: R * m),
    ("specific gas constant", "ctor", "SpecificGasConstant", ["SpecificIsobaricHeatCapacity", "SpecificIsochoricHeatCapacity"], lambda cp, cv: cp - cv),
    ("specific gas constant from gamma and cp", "ctor", "SpecificGasConstant", ["HeatCapacityRatio", "SpecificIsobaricHeatCapacity"], lambda g, cp: (1 - 1 / g) * cp),
    ("specific gas constant from gamma and cv", "ctor", "SpecificGasConstant", ["HeatCapacityRatio", "SpecificIsochoricHeatCapacity"], lambda g, cv: (g - 1) * cv),
    ("specific gas constant from extensive", "ctor", "SpecificGasConstant", ["GasConstant", "Mass"], lambda R, m: R / m),
    # diffusivities
    ("thermal diffusivity", "ctor", "ThermalDiffusivity", ["ScalarThermalConductivity", "MassDensity", "SpecificIsobaricHeatCapacity"], lambda k, rho, cp: k / (rho * cp)),
    ("kinematic viscosity", "ctor", "KinematicViscosity", ["DynamicViscosity", "MassDensity"], lambda mu, rho: mu / rho),
    ("density from viscosities", "ctor", "MassDensity", ["DynamicViscosity", "KinematicViscosity"], lambda mu, nu: mu / nu),
    ("density from thermal diffusivity", "ctor", "MassDensity", ["ScalarThermalConductivity", "ThermalDiffusivity", "SpecificIsobaricHeatCapacity"], lambda k, al, cp: k / (al * cp)),
    # period and frequency
    ("period from frequency", "ctor", "Time", ["Frequency"], lambda f: 1 / f),
    ("frequency from period", "ctor", "Frequency", ["Time"], lambda t: 1 / t),
    ("Frequency::Period()", "member", "Frequency", "Period", [], lambda f: 1 / f),
    ("Time::Frequency()", "member", "Time", "Frequency", [], lambda t: 1 / t),
    # strain and strain rate as symmetric parts of gradients
    ("strain from displacement gradient", "ctor", "Strain", ["DisplacementGradient"], lambda G: sym_part(G)),
    ("strain rate from velocity gradient", "ctor", "StrainRate", ["VelocityGradient"], lambda G: sym_part(G)),
    # thermal strain
    ("linear thermal strain", "ctor", "ScalarStrain", ["LinearThermalExpansionCoefficient", "TemperatureDifference"], lambda a, dT: a * dT),
    ("volumetric thermal strain", "ctor", "Strain", ["VolumetricThermalExpansionCoefficient", "TemperatureDifference"], lambda b, dT: (b * dT / 3) * eye(3)),
    # stress
    ("von Mises stress", "member", "Stress", "VonMises", [], lambda s: von_mises(s)),
    ("traction", "ctor", "Traction", ["Stress", "Direction"], lambda s, n: s * n),
    ("Stress::Traction", "member", "Stress", "Traction", ["Direction"], lambda s, n: s * n),
    ("planar traction", "ctor", "PlanarTraction", ["Stress", "PlanarDirection"], lambda s, n: Matrix([(s * n)[0], (s * n)[1], 0])),
    ("Stress::PlanarTraction", "member", "Stress", "PlanarTraction", ["PlanarDirection"], lambda s, n: Matrix([(s * n)[0], (s * n)[1], 0])),
    ("pressure as isotropic stress", "ctor", "Stress", ["StaticPressure"], lambda p: -p * eye(3)),
    ("StaticPressure::Stress()", "member", "StaticPressure", "Stress", [], lambda p: -p * eye(3)),
]

# derived forms of the definitions above (same physics solved for another symbol)
FORMULAS += [
    # heat capacities: gamma = cp/cv, R = cp - cv  (extensive)
    ("cv from cp and R", "ctor", "IsochoricHeatCapacity", ["IsobaricHeatCapacity", "GasConstant"], lambda cp, R: cp - R),
    ("cv from R and gamma", "ctor", "IsochoricHeatCapacity", ["GasConstant", "HeatCapacityRatio"], lambda R, g: R / (g - 1)),
    ("cv from cp and gamma", "ctor", "IsochoricHeatCapacity", ["IsobaricHeatCapacity", "HeatCapacityRatio"], lambda cp, g: cp / g),
    ("cp from cv and R", "ctor", "IsobaricHeatCapacity", ["IsochoricHeatCapacity", "GasConstant"], lambda cv, R: cv + R),
    ("cp from gamma and R", "ctor", "IsobaricHeatCapacity", ["HeatCapacityRatio", "GasConstant"], lambda g, R: g * R / (g - 1)),
    ("cp from gamma and cv", "ctor", "IsobaricHeatCapacity", ["HeatCapacityRatio", "IsochoricHeatCapacity"], lambda g, cv: g * cv),
    # ... specific (per unit mass)
    ("specific cv from cp and R", "ctor", "SpecificIsochoricHeatCapacity", ["SpecificIsobaricHeatCapacity", "SpecificGasConstant"], lambda cp, R: cp - R),
    ("specific cv from R and gamma", "ctor", "SpecificIsochoricHeatCapacity", ["SpecificGasConstant", "HeatCapacityRatio"], lambda R, g: R / (g - 1)),
    ("specific cv from cp and gamma", "ctor", "SpecificIsochoricHeatCapacity", ["SpecificIsobaricHeatCapacity", "HeatCapacityRatio"], lambda cp, g: cp / g),
    ("specific cp from cv and R", "ctor", "SpecificIsobaricHeatCapacity", ["SpecificIsochoricHeatCapacity", "SpecificGasConstant"], lambda cv, R: cv + R),
    ("specific cp from gamma and R", "ctor", "SpecificIsobaricHeatCapacity", ["HeatCapacityRatio", "SpecificGasConstant"], lambda g, R: g * R / (g - 1)),
    ("specific cp from gamma and cv", "ctor", "SpecificIsobaricHeatCapacity", ["HeatCapacityRatio", "SpecificIsochoricHeatCapacity"], lambda g, cv: g * cv),
    # extensive <-> specific
    ("cv extensive from specific", "ctor", "IsochoricHeatCapacity", ["SpecificIsochoricHeatCapacity", "Mass"], lambda c, m: c * m),
    ("cp extensive from specific", "ctor", "IsobaricHeatCapacity", ["SpecificIsobaricHeatCapacity", "Mass"], lambda c, m: c * m),
    ("cv specific from extensive", "ctor", "SpecificIsochoricHeatCapacity", ["IsochoricHeatCapacity", "Mass"], lambda C, m: C / m),
    ("cp specific from extensive", "ctor", "SpecificIsobaricHeatCapacity", ["IsobaricHeatCapacity", "Mass"], lambda C, m: C / m),
    ("mass from gas constants", "ctor", "Mass", ["GasConstant", "SpecificGasConstant"], lambda R, r: R / r),
    ("mass from cp", "ctor", "Mass", ["IsobaricHeatCapacity", "SpecificIsobaricHeatCapacity"], lambda C, c: C / c),
    ("mass from cv", "ctor", "Mass", ["IsochoricHeatCapacity", "SpecificIsochoricHeatCapacity"], lambda C, c: C / c),
    # thermal diffusivity alpha = k/(rho cp), Prandtl Pr = cp mu / k = nu / alpha
    ("conductivity from diffusivity", "ctor", "ScalarThermalConductivity", ["MassDensity", "SpecificIsobaricHeatCapacity", "ThermalDiffusivity"], lambda rho, cp, al: rho * cp * al),
    ("conductivity from Prandtl number", "ctor", "ScalarThermalConductivity", ["SpecificIsobaricHeatCapacity", "DynamicViscosity", "PrandtlNumber"], lambda cp, mu, Pr: cp * mu / Pr),
    ("cp from diffusivity", "ctor", "SpecificIsobaricHeatCapacity", ["ScalarThermalConductivity", "MassDensity", "ThermalDiffusivity"], lambda k, rho, al: k / (rho * al)),
    ("cp from Prandtl number", "ctor", "SpecificIsobaricHeatCapacity", ["PrandtlNumber", "ScalarThermalConductivity", "DynamicViscosity"], lambda Pr, k, mu: Pr * k / mu),
    ("viscosity from Prandtl number", "ctor", "DynamicViscosity", ["PrandtlNumber", "ScalarThermalConductivity", "SpecificIsobaricHeatCapacity"], lambda Pr, k, cp: Pr * k / cp),
    # viscosities and Reynolds number
    ("dynamic viscosity", "ctor", "DynamicViscosity", ["MassDensity", "KinematicViscosity"], lambda rho, nu: rho * nu),
    ("dynamic viscosity from Reynolds number", "ctor", "DynamicViscosity", ["MassDensity", "Speed", "Length", "ReynoldsNumber"], lambda rho, v, L, Re: rho * v * L / Re),
    ("length from Reynolds number (mu)", "ctor", "Length", ["ReynoldsNumber", "DynamicViscosity", "MassDensity", "Speed"], lambda Re, mu, rho, v: Re * mu / (rho * v)),
    ("length from Reynolds number (nu)", "ctor", "Length", ["ReynoldsNumber", "KinematicViscosity", "Speed"], lambda Re, nu, v: Re * nu / v),
    # strain / strain rate and time
    ("strain from strain rate", "ctor", "Strain", ["StrainRate", "Time"], lambda D, t: D * t),
    ("strain rate from strain", "ctor", "StrainRate", ["Strain", "Time"], lambda e, t: e / t),
    ("strain from strain rate and frequency", "ctor", "Strain", ["StrainRate", "Frequency"], lambda D, f: D / f),
    ("strain rate from strain and frequency", "ctor", "StrainRate", ["Strain", "Frequency"], lambda e, f: e * f),
    ("scalar strain from scalar strain rate", "ctor", "ScalarStrain", ["ScalarStrainRate", "Time"], lambda d, t: d * t),
    # pressure, force and traction over an area
    ("pressure from force and area", "ctor", "StaticPressure", ["ScalarForce", "Area"], lambda f, a: f / a),
    ("traction from force and area", "ctor", "Traction", ["Force", "Area"], lambda f, a: f / a),
    ("planar traction from planar force and area", "ctor", "PlanarTraction", ["PlanarForce", "Area"], lambda f, a: f / a),
]
