// Differential program for the C16 refactor: converting (cross-precision) constructors and
// assignment operators of the value classes, directions and Dimensional*/Dimensionless* bases.
#include <PhQ/Dyad.hpp>
#include <PhQ/Direction.hpp>
#include <PhQ/PlanarDirection.hpp>
#include <PhQ/PlanarVector.hpp>
#include <PhQ/SymmetricDyad.hpp>
#include <PhQ/Vector.hpp>
#include <PhQ/DimensionalScalar.hpp>
#include <PhQ/DimensionalVector.hpp>
#include <PhQ/DimensionalPlanarVector.hpp>
#include <PhQ/DimensionalSymmetricDyad.hpp>
#include <PhQ/DimensionalDyad.hpp>
#include <PhQ/DimensionlessScalar.hpp>
#include <PhQ/DimensionlessVector.hpp>
#include <PhQ/DimensionlessPlanarVector.hpp>
#include <PhQ/DimensionlessSymmetricDyad.hpp>
#include <PhQ/DimensionlessDyad.hpp>
#include <PhQ/Force.hpp>
#include <PhQ/PlanarForce.hpp>
#include <PhQ/Length.hpp>
#include <PhQ/Stress.hpp>
#include <PhQ/Strain.hpp>
#include <PhQ/VelocityGradient.hpp>
#include <PhQ/DisplacementGradient.hpp>
#include <PhQ/Velocity.hpp>
#include <PhQ/PlanarVelocity.hpp>
#include <PhQ/Position.hpp>
#include <PhQ/MachNumber.hpp>
#include <PhQ/Time.hpp>
#include <PhQ/Unit/Force.hpp>
#include <PhQ/Unit/Length.hpp>
#include <PhQ/Unit/Pressure.hpp>
#include <PhQ/Unit/Frequency.hpp>

#include <array>
#include <cmath>
#include <cstdint>
#include <cstdio>
#include <cstring>
#include <limits>
#include <random>
#include <string>
#include <type_traits>
#include <vector>

using namespace PhQ;

// ---------------------------------------------------------------- digest / printing
static std::uint64_t g_digest = 1469598103934665603ULL;
static std::uint64_t g_count = 0;
static bool g_verbose = false;

template <typename T>
static void Emit(const T v) {
  unsigned char bytes[sizeof(long double)] = {0};
  constexpr std::size_t n = std::is_same<T, long double>::value ? 10 : sizeof(T);
  std::memcpy(bytes, &v, n);
  for (std::size_t i = 0; i < n; ++i) {
    g_digest ^= bytes[i];
    g_digest *= 1099511628211ULL;
  }
  g_digest ^= static_cast<unsigned char>(n);
  g_digest *= 1099511628211ULL;
  ++g_count;
  if (g_verbose) {
    std::printf(" %La", static_cast<long double>(v));
  }
}

template <typename T>
static void Emit(const PlanarVector<T>& v) {
  Emit(v.x());
  Emit(v.y());
}
template <typename T>
static void Emit(const Vector<T>& v) {
  Emit(v.x());
  Emit(v.y());
  Emit(v.z());
}
template <typename T>
static void Emit(const SymmetricDyad<T>& v) {
  Emit(v.xx());
  Emit(v.xy());
  Emit(v.xz());
  Emit(v.yy());
  Emit(v.yz());
  Emit(v.zz());
  Emit(v.yx());
  Emit(v.zx());
  Emit(v.zy());
}
template <typename T>
static void Emit(const Dyad<T>& v) {
  Emit(v.xx());
  Emit(v.xy());
  Emit(v.xz());
  Emit(v.yx());
  Emit(v.yy());
  Emit(v.yz());
  Emit(v.zx());
  Emit(v.zy());
  Emit(v.zz());
}

static void Section(const char* name) {
  std::printf("%s%s:", g_verbose ? "\n" : "", name);
}
static void EndSection() {
  std::printf(" | n=%llu digest=%016llx\n", static_cast<unsigned long long>(g_count),
              static_cast<unsigned long long>(g_digest));
}

// ---------------------------------------------------------------- probes for the protected bases
#define DIMENSIONAL_PROBE(NAME, BASE, VALUE)                                           \
  template <typename U, typename N>                                                    \
  struct NAME : public BASE<U, N> {                                                    \
    explicit NAME(const VALUE& v) : BASE<U, N>(v) {}                                   \
    template <typename O>                                                              \
    explicit NAME(const NAME<U, O>& o) : BASE<U, N>(static_cast<const BASE<U, O>&>(o)) {} \
    template <typename O>                                                              \
    NAME& operator=(const NAME<U, O>& o) {                                             \
      BASE<U, N>::operator=(static_cast<const BASE<U, O>&>(o));                        \
      return *this;                                                                    \
    }                                                                                  \
  };
#define DIMENSIONLESS_PROBE(NAME, BASE, VALUE)                                   \
  template <typename N>                                                          \
  struct NAME : public BASE<N> {                                                 \
    explicit NAME(const VALUE& v) : BASE<N>(v) {}                                \
    template <typename O>                                                        \
    explicit NAME(const NAME<O>& o) : BASE<N>(static_cast<const BASE<O>&>(o)) {} \
    template <typename O>                                                        \
    NAME& operator=(const NAME<O>& o) {                                          \
      BASE<N>::operator=(static_cast<const BASE<O>&>(o));                        \
      return *this;                                                              \
    }                                                                            \
  };

DIMENSIONAL_PROBE(ProbeDS, DimensionalScalar, N)
DIMENSIONAL_PROBE(ProbeDV, DimensionalVector, Vector<N>)
DIMENSIONAL_PROBE(ProbeDP, DimensionalPlanarVector, PlanarVector<N>)
DIMENSIONAL_PROBE(ProbeDY, DimensionalSymmetricDyad, SymmetricDyad<N>)
DIMENSIONAL_PROBE(ProbeDD, DimensionalDyad, Dyad<N>)
DIMENSIONLESS_PROBE(ProbeLS, DimensionlessScalar, N)
DIMENSIONLESS_PROBE(ProbeLV, DimensionlessVector, Vector<N>)
DIMENSIONLESS_PROBE(ProbeLP, DimensionlessPlanarVector, PlanarVector<N>)
DIMENSIONLESS_PROBE(ProbeLY, DimensionlessSymmetricDyad, SymmetricDyad<N>)
DIMENSIONLESS_PROBE(ProbeLD, DimensionlessDyad, Dyad<N>)

// ---------------------------------------------------------------- input generation
static std::mt19937_64 g_rng(20260927ULL);

static long double RandomValue(const int mode) {
  std::uniform_real_distribution<long double> mantissa(-2.0L, 2.0L);
  const long double m = mantissa(g_rng) + static_cast<long double>(g_rng() & 0xFFFFu) * 0x1p-70L;
  switch (mode) {
    case 0:
      return m;  // order one
    case 1: {
      std::uniform_int_distribution<int> e(-20, 20);
      return std::ldexp(m, e(g_rng));
    }
    case 2: {
      std::uniform_int_distribution<int> e(-160, 130);  // float subnormals / overflow
      return std::ldexp(m, e(g_rng));
    }
    case 3: {
      std::uniform_int_distribution<int> e(-1080, 1030);  // double subnormals / overflow
      return std::ldexp(m, e(g_rng));
    }
    default: {
      std::uniform_int_distribution<int> e(-16400, 16380);
      return std::ldexp(m, e(g_rng));
    }
  }
}

static std::vector<long double> EdgeValues() {
  std::vector<long double> e{
      0.0L,
      -0.0L,
      1.0L,
      -1.0L,
      0.1L,
      -0.1L,
      1.0L / 3.0L,
      2.0L / 3.0L,
      static_cast<long double>(std::numeric_limits<float>::min()),
      static_cast<long double>(std::numeric_limits<float>::denorm_min()),
      static_cast<long double>(std::numeric_limits<float>::max()),
      static_cast<long double>(std::numeric_limits<float>::epsilon()),
      static_cast<long double>(std::numeric_limits<double>::min()),
      static_cast<long double>(std::numeric_limits<double>::denorm_min()),
      static_cast<long double>(std::numeric_limits<double>::max()),
      static_cast<long double>(std::numeric_limits<double>::epsilon()),
      std::numeric_limits<long double>::min(),
      std::numeric_limits<long double>::denorm_min(),
      std::numeric_limits<long double>::max(),
      std::numeric_limits<long double>::epsilon(),
      1.0L + 0x1p-24L,             // float halfway case
      1.0L + 0x1p-24L + 0x1p-60L,  // just above halfway
      1.0L + 0x1p-53L,             // double halfway case
      1.0L + 0x1p-53L + 0x1p-63L,
      -(1.0L + 0x1p-23L + 0x1p-24L),
      16777217.0L,
      9007199254740993.0L,
      3.0e38L,
      3.5e38L,
      -3.5e38L,
      1.0e-46L,
      1.0e308L,
      1.9e308L,
      -1.0e-324L,
      1.0e4000L,
      -1.0e-4940L,
      std::numeric_limits<long double>::infinity(),
      -std::numeric_limits<long double>::infinity(),
      std::numeric_limits<long double>::quiet_NaN(),
      3.14159265358979323846264338327950288L,
      -2.71828182845904523536028747135266250L,
      123456.789012345678901234L,
      -1.0e-10L,
      65504.0L,
      1.0e20L};
  return e;
}

// Fills an array of N components of type T from long double sources (values are first rounded to
// the source precision T, as a user of that precision would hold them).
template <typename T, std::size_t N>
static std::array<T, N> MakeArray(const std::vector<long double>& pool, const std::size_t offset) {
  std::array<T, N> a{};
  for (std::size_t i = 0; i < N; ++i) {
    a[i] = static_cast<T>(pool[(offset + i * 7 + i * i) % pool.size()]);
  }
  return a;
}

template <typename T>
static SymmetricDyad<T> MakeSymmetric(const std::array<T, 9>& a) {
  return SymmetricDyad<T>(a[0], a[1], a[2], a[3], a[4], a[5]);
}

// ---------------------------------------------------------------- one ordered pair From -> To
template <typename From, typename To>
static void ValueClasses(const std::array<From, 9>& a) {
  // Vector
  {
    const Vector<From> src(a[0], a[1], a[2]);
    const Vector<To> constructed(src);
    Emit(constructed);
    Vector<To> assigned(static_cast<To>(7), static_cast<To>(8), static_cast<To>(9));
    assigned = src;
    Emit(assigned);
    Vector<To> uninit;
    Emit((uninit = src));
    Emit(static_cast<Vector<To>>(src));
    // round trip
    Emit(Vector<From>(Vector<To>(src)));
    Vector<From> back;
    back = assigned;
    Emit(back);
  }
  // PlanarVector
  {
    const PlanarVector<From> src(a[3], a[4]);
    const PlanarVector<To> constructed(src);
    Emit(constructed);
    PlanarVector<To> assigned(static_cast<To>(7), static_cast<To>(8));
    assigned = src;
    Emit(assigned);
    PlanarVector<To> uninit;
    Emit((uninit = src));
    Emit(static_cast<PlanarVector<To>>(src));
    Emit(PlanarVector<From>(PlanarVector<To>(src)));
    PlanarVector<From> back;
    back = assigned;
    Emit(back);
  }
  // SymmetricDyad
  {
    const SymmetricDyad<From> src = MakeSymmetric(a);
    const SymmetricDyad<To> constructed(src);
    Emit(constructed);
    SymmetricDyad<To> assigned = SymmetricDyad<To>::Zero();
    assigned = src;
    Emit(assigned);
    SymmetricDyad<To> uninit;
    Emit((uninit = src));
    Emit(static_cast<SymmetricDyad<To>>(src));
    Emit(SymmetricDyad<From>(SymmetricDyad<To>(src)));
    SymmetricDyad<From> back;
    back = assigned;
    Emit(back);
  }
  // Dyad
  {
    const Dyad<From> src(a);
    const Dyad<To> constructed(src);
    Emit(constructed);
    Dyad<To> assigned = Dyad<To>::Zero();
    assigned = src;
    Emit(assigned);
    Dyad<To> uninit;
    Emit((uninit = src));
    Emit(static_cast<Dyad<To>>(src));
    Emit(Dyad<From>(Dyad<To>(src)));
    Dyad<From> back;
    back = assigned;
    Emit(back);
  }
}

template <typename From, typename To>
static void Directions(const std::array<From, 9>& a) {
  {
    const Direction<From> src(a[0], a[1], a[2]);
    Emit(src.Value());
    const Direction<To> constructed(src);
    Emit(constructed.Value());
    Direction<To> assigned(static_cast<To>(1), static_cast<To>(2), static_cast<To>(-3));
    assigned = src;
    Emit(assigned.Value());
    Direction<To> fresh;
    Emit((fresh = src).Value());
    Emit(static_cast<Direction<To>>(src).Value());
    Emit(assigned.MagnitudeSquared());
    Emit(Direction<From>(constructed).Value());
    Direction<From> back;
    back = assigned;
    Emit(back.Value());
  }
  {
    const PlanarDirection<From> src(a[3], a[4]);
    Emit(src.Value());
    const PlanarDirection<To> constructed(src);
    Emit(constructed.Value());
    PlanarDirection<To> assigned(static_cast<To>(1), static_cast<To>(-2));
    assigned = src;
    Emit(assigned.Value());
    PlanarDirection<To> fresh;
    Emit((fresh = src).Value());
    Emit(static_cast<PlanarDirection<To>>(src).Value());
    Emit(assigned.MagnitudeSquared());
    Emit(PlanarDirection<From>(constructed).Value());
    PlanarDirection<From> back;
    back = assigned;
    Emit(back.Value());
  }
}

template <typename From, typename To>
static void Bases(const std::array<From, 9>& a) {
  const std::array<To, 9> filler{{static_cast<To>(1), static_cast<To>(2), static_cast<To>(3),
                                  static_cast<To>(4), static_cast<To>(5), static_cast<To>(6),
                                  static_cast<To>(7), static_cast<To>(8), static_cast<To>(9)}};
  {
    const ProbeDS<Unit::Length, From> src(a[0]);
    const ProbeDS<Unit::Length, To> constructed(src);
    Emit(constructed.Value());
    ProbeDS<Unit::Length, To> assigned(filler[0]);
    assigned = src;
    Emit(assigned.Value());
    const ProbeLS<From> lsrc(a[1]);
    const ProbeLS<To> lconstructed(lsrc);
    Emit(lconstructed.Value());
    ProbeLS<To> lassigned(filler[1]);
    lassigned = lsrc;
    Emit(lassigned.Value());
  }
  {
    const Vector<From> v(a[0], a[1], a[2]);
    const ProbeDV<Unit::Force, From> src(v);
    const ProbeDV<Unit::Force, To> constructed(src);
    Emit(constructed.Value());
    ProbeDV<Unit::Force, To> assigned(Vector<To>(filler[0], filler[1], filler[2]));
    assigned = src;
    Emit(assigned.Value());
    const ProbeLV<From> lsrc(v);
    const ProbeLV<To> lconstructed(lsrc);
    Emit(lconstructed.Value());
    ProbeLV<To> lassigned(Vector<To>(filler[0], filler[1], filler[2]));
    lassigned = lsrc;
    Emit(lassigned.Value());
  }
  {
    const PlanarVector<From> v(a[3], a[4]);
    const ProbeDP<Unit::Force, From> src(v);
    const ProbeDP<Unit::Force, To> constructed(src);
    Emit(constructed.Value());
    ProbeDP<Unit::Force, To> assigned(PlanarVector<To>(filler[0], filler[1]));
    assigned = src;
    Emit(assigned.Value());
    const ProbeLP<From> lsrc(v);
    const ProbeLP<To> lconstructed(lsrc);
    Emit(lconstructed.Value());
    ProbeLP<To> lassigned(PlanarVector<To>(filler[0], filler[1]));
    lassigned = lsrc;
    Emit(lassigned.Value());
  }
  {
    const SymmetricDyad<From> v = MakeSymmetric(a);
    const ProbeDY<Unit::Pressure, From> src(v);
    const ProbeDY<Unit::Pressure, To> constructed(src);
    Emit(constructed.Value());
    ProbeDY<Unit::Pressure, To> assigned(MakeSymmetric(filler));
    assigned = src;
    Emit(assigned.Value());
    const ProbeLY<From> lsrc(v);
    const ProbeLY<To> lconstructed(lsrc);
    Emit(lconstructed.Value());
    ProbeLY<To> lassigned(MakeSymmetric(filler));
    lassigned = lsrc;
    Emit(lassigned.Value());
  }
  {
    const Dyad<From> v(a);
    const ProbeDD<Unit::Frequency, From> src(v);
    const ProbeDD<Unit::Frequency, To> constructed(src);
    Emit(constructed.Value());
    ProbeDD<Unit::Frequency, To> assigned{Dyad<To>(filler)};
    assigned = src;
    Emit(assigned.Value());
    const ProbeLD<From> lsrc(v);
    const ProbeLD<To> lconstructed(lsrc);
    Emit(lconstructed.Value());
    ProbeLD<To> lassigned{Dyad<To>(filler)};
    lassigned = lsrc;
    Emit(lassigned.Value());
  }
}

template <typename From, typename To>
static void Quantities(const std::array<From, 9>& a) {
  {
    const Length<From> src(a[0], Unit::Length::Foot);
    const Length<To> c(src);
    Emit(c.Value());
    Length<To> t = Length<To>::Zero();
    t = src;
    Emit(t.Value());
  }
  {
    const MachNumber<From> src(a[1]);
    const MachNumber<To> c(src);
    Emit(c.Value());
    MachNumber<To> t = MachNumber<To>::Zero();
    t = src;
    Emit(t.Value());
  }
  {
    const Force<From> src(Vector<From>(a[0], a[1], a[2]), Unit::Force::Pound);
    const Force<To> c(src);
    Emit(c.Value());
    Force<To> t = Force<To>::Zero();
    t = src;
    Emit(t.Value());
    Emit(Direction<To>(c).Value());
  }
  {
    const PlanarForce<From> src(PlanarVector<From>(a[3], a[4]), Unit::Force::Newton);
    const PlanarForce<To> c(src);
    Emit(c.Value());
    PlanarForce<To> t = PlanarForce<To>::Zero();
    t = src;
    Emit(t.Value());
    Emit(PlanarDirection<To>(c).Value());
  }
  {
    const Stress<From> src(MakeSymmetric(a), Unit::Pressure::Pascal);
    const Stress<To> c(src);
    Emit(c.Value());
    Stress<To> t = Stress<To>::Zero();
    t = src;
    Emit(t.Value());
  }
  {
    const Strain<From> src(MakeSymmetric(a));
    const Strain<To> c(src);
    Emit(c.Value());
    Strain<To> t = Strain<To>::Zero();
    t = src;
    Emit(t.Value());
  }
  {
    const VelocityGradient<From> src(Dyad<From>(a), Unit::Frequency::Hertz);
    const VelocityGradient<To> c(src);
    Emit(c.Value());
    VelocityGradient<To> t = VelocityGradient<To>::Zero();
    t = src;
    Emit(t.Value());
  }
  {
    const DisplacementGradient<From> src{Dyad<From>(a)};
    const DisplacementGradient<To> c(src);
    Emit(c.Value());
    DisplacementGradient<To> t = DisplacementGradient<To>::Zero();
    t = src;
    Emit(t.Value());
  }
}

template <typename From, typename To>
static void Pair(const std::vector<long double>& pool, const std::size_t offset) {
  const std::array<From, 9> a = MakeArray<From, 9>(pool, offset);
  ValueClasses<From, To>(a);
  Directions<From, To>(a);
  Bases<From, To>(a);
  Quantities<From, To>(a);
}

static void AllPairs(const std::vector<long double>& pool, const std::size_t offset) {
  Pair<float, double>(pool, offset);
  Pair<float, long double>(pool, offset);
  Pair<double, float>(pool, offset);
  Pair<double, long double>(pool, offset);
  Pair<long double, float>(pool, offset);
  Pair<long double, double>(pool, offset);
}

// Users of the converting members elsewhere in the library: Direction::Set and
// PlanarDirection::Set assign Vector<>::Zero() (double) to a value of any numeric type.
template <typename T>
static void ZeroDirections() {
  Direction<T> d(static_cast<T>(1), static_cast<T>(2), static_cast<T>(3));
  Emit(d.Value());
  d.Set(static_cast<T>(0), static_cast<T>(-0.0), static_cast<T>(0));
  Emit(d.Value());
  d.Set(std::array<T, 3>{{static_cast<T>(0.5), static_cast<T>(0), static_cast<T>(-0.25)}});
  Emit(d.Value());
  d.Set(Vector<T>::Zero());
  Emit(d.Value());
  PlanarDirection<T> p(static_cast<T>(-3), static_cast<T>(4));
  Emit(p.Value());
  p.Set(static_cast<T>(-0.0), static_cast<T>(0));
  Emit(p.Value());
  p.Set(PlanarVector<T>(static_cast<T>(1.0e-30), static_cast<T>(-1.0e-30)));
  Emit(p.Value());
  p.Set(std::array<T, 2>{{static_cast<T>(0), static_cast<T>(0)}});
  Emit(p.Value());
  const Direction<T> from_planar(p);
  Emit(from_planar.Value());
  const Direction<float> zf(Direction<T>::Zero());
  const Direction<double> zd(Direction<T>::Zero());
  const Direction<long double> zl(Direction<T>::Zero());
  Emit(zf.Value());
  Emit(zd.Value());
  Emit(zl.Value());
  const PlanarDirection<float> pf(PlanarDirection<T>::Zero());
  const PlanarDirection<double> pd(PlanarDirection<T>::Zero());
  const PlanarDirection<long double> pl(PlanarDirection<T>::Zero());
  Emit(pf.Value());
  Emit(pd.Value());
  Emit(pl.Value());
}

// Constant-evaluation of the converting members must remain possible.
static constexpr Vector<float> kVectorF(Vector<double>(1.25, -2.5, 0.1));
static constexpr PlanarVector<long double> kPlanarL(PlanarVector<float>(1.25F, 0.1F));
static constexpr SymmetricDyad<float> kSymF(SymmetricDyad<long double>(0.1L, 0.2L, 0.3L, 0.4L, 0.5L,
                                                                       0.6L));
static constexpr Dyad<double> kDyadD(Dyad<long double>(0.1L, 0.2L, 0.3L, 0.4L, 0.5L, 0.6L, 0.7L,
                                                       0.8L, 0.9L));
static constexpr Vector<double> AssignConstexpr() {
  Vector<double> v(0.0, 0.0, 0.0);
  v = Vector<long double>(0.1L, 0.2L, 0.3L);
  return v;
}
static constexpr Dyad<float> AssignConstexprDyad() {
  Dyad<float> v(0.0F, 0.0F, 0.0F, 0.0F, 0.0F, 0.0F, 0.0F, 0.0F, 0.0F);
  v = Dyad<double>(0.1, 0.2, 0.3, 0.4, 0.5, 0.6, 0.7, 0.8, 0.9);
  return v;
}
static constexpr SymmetricDyad<double> AssignConstexprSym() {
  SymmetricDyad<double> v(0.0, 0.0, 0.0, 0.0, 0.0, 0.0);
  v = SymmetricDyad<float>(0.1F, 0.2F, 0.3F, 0.4F, 0.5F, 0.6F);
  return v;
}
static constexpr PlanarVector<float> AssignConstexprPlanar() {
  PlanarVector<float> v(0.0F, 0.0F);
  v = PlanarVector<long double>(0.1L, 0.2L);
  return v;
}
static constexpr Vector<double> kAssigned = AssignConstexpr();
static constexpr Dyad<float> kAssignedDyad = AssignConstexprDyad();
static constexpr SymmetricDyad<double> kAssignedSym = AssignConstexprSym();
static constexpr PlanarVector<float> kAssignedPlanar = AssignConstexprPlanar();

int main() {
  // Layout and triviality of the value classes are observable.
  std::printf("traits:");
  std::printf(" %zu %zu %zu %zu", sizeof(Vector<float>), sizeof(PlanarVector<double>),
              sizeof(SymmetricDyad<long double>), sizeof(Dyad<float>));
  std::printf(" %d%d%d%d", std::is_trivially_copyable<Vector<float>>::value ? 1 : 0,
              std::is_trivially_copyable<PlanarVector<double>>::value ? 1 : 0,
              std::is_trivially_copyable<SymmetricDyad<long double>>::value ? 1 : 0,
              std::is_trivially_copyable<Dyad<double>>::value ? 1 : 0);
  std::printf(" %d%d%d%d", std::is_standard_layout<Vector<float>>::value ? 1 : 0,
              std::is_trivially_default_constructible<Dyad<double>>::value ? 1 : 0,
              std::is_convertible<Vector<float>, Vector<double>>::value ? 1 : 0,
              std::is_constructible<Vector<float>, Vector<double>>::value ? 1 : 0);
  std::printf(" %d%d%d%d", std::is_assignable<Vector<float>&, Vector<double>>::value ? 1 : 0,
              std::is_assignable<Direction<float>&, Direction<long double>>::value ? 1 : 0,
              std::is_constructible<PlanarDirection<float>, PlanarDirection<double>>::value ? 1 : 0,
              std::is_convertible<Direction<float>, Direction<double>>::value ? 1 : 0);
  std::printf(" %zu %zu %zu\n", sizeof(Direction<float>), sizeof(PlanarDirection<long double>),
              sizeof(Force<double>));

  g_verbose = true;
  Section("constexpr");
  Emit(kVectorF);
  Emit(kPlanarL);
  Emit(kSymF);
  Emit(kDyadD);
  Emit(kAssigned);
  Emit(kAssignedDyad);
  Emit(kAssignedSym);
  Emit(kAssignedPlanar);
  EndSection();

  Section("zero-directions");
  ZeroDirections<float>();
  ZeroDirections<double>();
  ZeroDirections<long double>();
  EndSection();

  // Edge values, printed in full for a handful of offsets, digested for the rest.
  const std::vector<long double> edges = EdgeValues();
  for (std::size_t offset = 0; offset < 6; ++offset) {
    Section(("edge-verbose-" + std::to_string(offset)).c_str());
    AllPairs(edges, offset * 5);
    EndSection();
  }
  g_verbose = false;
  Section("edge-all-offsets");
  for (std::size_t offset = 0; offset < edges.size() * 3; ++offset) {
    AllPairs(edges, offset);
  }
  EndSection();

  // Random values of several magnitudes.
  for (int mode = 0; mode < 5; ++mode) {
    Section(("random-mode-" + std::to_string(mode)).c_str());
    for (int trial = 0; trial < 4000; ++trial) {
      std::vector<long double> pool(16);
      for (long double& value : pool) {
        value = RandomValue(mode);
      }
      if (trial % 11 == 0) {
        pool[trial % 16] = (trial % 2 == 0) ? 0.0L : -0.0L;
      }
      AllPairs(pool, static_cast<std::size_t>(trial));
      if (trial % 500 == 0) {
        std::printf(" [%d:%016llx]", trial, static_cast<unsigned long long>(g_digest));
      }
    }
    EndSection();
  }
  std::printf("final n=%llu digest=%016llx\n", static_cast<unsigned long long>(g_count),
              static_cast<unsigned long long>(g_digest));
  return 0;
}
