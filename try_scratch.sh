#!/bin/sh
# usage: try_scratch.sh <patch.diff> <prop> [<prop>...]  -- like try_seed.sh but on a scratch copy of /repo/include (never touches /repo)
P="$1"; shift
D=$(mktemp -d /var/tmp/phq-try-XXXXXX)
cp -r /repo/include "$D/include"
patch -p1 -s -d "$D" -i "$P" || { echo "patch does not apply"; rm -rf "$D"; exit 3; }
cd /verif
for c in "$@"; do
  PHQ_REPO="$D" VF_NO_EVIDENCE=1 VF_REPLAY_DIR="$D/replay" ./vf check "$c" > "$D/$c.log" 2>&1; rc=$?
  echo "== $c rc=$rc: $(grep -c '^VIOLATION' "$D/$c.log") violation line(s); $(tail -1 "$D/$c.log")"
  grep -A4 '^VIOLATION' "$D/$c.log" | head -12 | cut -c1-400
  grep '^INCONCLUSIVE\|^ANALYSIS' "$D/$c.log" | head -3 | cut -c1-400
done
rm -rf "$D"
