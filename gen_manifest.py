#!/usr/bin/env python3
"""Writes MANIFEST.json from the per-property table below (run after adding a check)."""
import json
import os

HERE = os.path.dirname(os.path.abspath(__file__))

CHECKS = {
    "C01": dict(level="other", technique="abstract interpretation (affine domain over Q(pi) + rounding counter) of every conversion body; unit-symbol oracle; dispatch-table rules; composition order of the plain-number entry points",
                text="Decides, for all 514 units x 3 numeric types and all inputs, that ToStandard denotes exactly the affine map implied by the unit's own symbol, that FromStandard is its inverse, that the dispatch tables route each enumerator to its own routine, and decides the few-ulp clause for the 512 multiplicative units by a rigorous per-direction bound (constants evaluated exactly as IEEE round-to-nearest arithmetic in T would: <= 4.3 ulp on this tree, threshold 8) plus a coarse rounding-count bound. The affine units (degC, degF) near cancellation and the subnormal range are not decided.",
                note="trusted: clang front end, oracle/units.py (SI/legal definitions), standard model of FP arithmetic without overflow/underflow", ref="3/C01"),
    "C07": dict(level="proof", technique="table rules over ConsistentUnits/RelatedUnitSystems initialisers + conversion factors from the affine interpretation vs products of system base units",
                text="Every (system, unit type) entry and every reverse lookup is an obligation discharged exactly: coherent magnitude, total forward tables, reverse table = uniquely-consistent units, lookup idioms.",
                note="trusted: clang front end, unit-symbol oracle, std::map semantics", ref="3/C07"),
    "C08": dict(level="proof", technique="table rules (totality, uniqueness, round trip) against the EnumDecls; every spelling parsed by an independent unit grammar and compared in magnitude; term evaluation of the lookup idioms; structural rule that table texts are string literals",
                text="One obligation per enumeration, enumerator, spelling and lookup function; all discharged exactly. 'Other strings parse to nothing' follows from the checked-find idiom.",
                note="trusted: clang front end, oracle/units.py lexicon, unordered_map first-key-wins semantics", ref="3/C08"),
    "C17": dict(level="proof", technique="record-layout facts (clang ASTRecordLayout: size, single member, no vptr, trivially copyable, standard layout) for every instantiated class x 3 numeric types; term evaluation of Zero/Value/SetValue/MutableValue; g++/clang static_assert batch in the thorough tier",
                text="One obligation per class and numeric type and per accessor; all are compile-time facts read from the type-checked program, so the decided part is the whole statement.",
                note="trusted: clang's record layout = Itanium ABI layout used by g++ (cross-checked by the g++ static_assert batch in the thorough tier)", ref="3/C17"),
    "C19": dict(level="proof", technique="initialisation-order classification of every namespace-scope variable per [basic.start.dynamic] + who-reads walk over all instantiated bodies; known-findings file for the triaged defect; path-sensitive evaluation of every function without a run-time unit parameter that can reach a table reader",
                text="Every PhQ namespace-scope variable is classified constant / partially-ordered / ordered / unordered; any library function reading an unordered one is reported. On the pinned tree this reports the conversion dispatch tables (genuine defect, replayed: crash before main with g++), recorded as two known findings; every other table family is proved ordered before user objects.",
                note="trusted: clang's TemplateSpecializationKind/isInline/hasConstantInitialization; the C++17 standard's ordering rules", ref="3/C19, 4.3"),
    "C06": dict(level="proof", technique="unit-symbol grammar -> exponent vectors vs RelatedDimensions initialisers; term evaluation of Dimensions(); case-complete evaluation of the Print decision trees; 3^7 ordering enumeration",
                text="Obligations: 514 unit symbols, every quantity class x 3 numeric types, 7+1 print routines (4 exponent classes each; all 128 emptiness patterns), 6 operators x 3^7 slot-relation assignments, the hash read-set. All discharged exactly.",
                note="trusted: clang front end, oracle/units.py dimension table, std::string/to_string models in the evaluator", ref="3/C06"),
    "C14": dict(level="proof", technique="term evaluation of each comparison operator to a boolean formula over same-slot comparisons + exhaustive 3^n slot-relation enumeration against the lexicographic specification; hash read-set/shape analysis",
                text="For every quantity, tensor, Dimensions, Dimension and model type and every numeric type: six operators exist and each equals the lexicographic order on all 3^n abstract cases (complete on non-NaN values because only same-slot comparisons occur, which the check enforces); every std::hash reads the value only through std::hash of its components.",
                note="trusted: clang front end; libstdc++ std::hash<floating> contract (+0/-0 hash equally)", ref="3/C14"),
    "C03": dict(level="proof", technique="units-of-measure type checking: every relation body evaluated to terms and interpreted in a dimension domain (Q^7 exponent vectors, polymorphic zero); operator signatures checked from resolved types; clang diagnostics for well-formedness",
                text="Dimensional homogeneity is exactly what the dimension domain computes, so the decided part is the whole statement: one obligation per relation body and per operator signature, for all three numeric types, all inputs.",
                note="trusted: clang front end; RelatedDimensions tables (checked against unit symbols by C06); the evaluator", ref="3/C03"),
    "C04": dict(level="proof", technique="exact-tree abstract interpretation: each operator / compound assignment / twin constructor evaluated interprocedurally to the operation tree of every result slot, compared with one IEEE operation on the corresponding operand slots in written order; aliasing analysis of every mutating member with a reference parameter",
                text="A single IEEE-754 operation is correctly rounded by definition, so showing each result slot is exactly one +,-,*,/ node on the right operands (in order) decides the statement for IEEE evaluation; compound assignments and twins are compared tree-for-tree.",
                note="trusted: clang front end, evaluator; excludes -ffast-math builds (stated)", ref="3/C04"),
    "C16": dict(level="proof", technique="exact-tree abstract interpretation of every converting constructor/assignment for each ordered pair of numeric types: slot i = one cast of source slot i (directions: then the normalisation formula, decided algebraically)",
                text="1152 obligations (96 classes x 6 ordered pairs x {construct, assign}); 'one cast, same slot, nothing else' is a shape property and is decided exactly.",
                note="trusted: clang front end, evaluator, sympy for the direction normalisation identity", ref="3/C16"),
    "C05": dict(level="other", technique="inverse pairs enumerated from resolved signatures; symbolic composition of algebraic normal forms (sympy, positive symbols) compared with the identity",
                text="Decides the algebraic inverse law G(F(a,b..),b..) = a for every declared pair (about 1170 per numeric type), a necessary condition of the property; the few-ulp clause is decided by an a-priori forward error bound (relative-error domain, standard model) for the round trips without subtraction of rounded values (about 60 %: <= 8 u), and not decided where cancellation can occur.",
                note="trusted: clang front end, evaluator, sympy normalisation; pairing rule documented in DESIGN 3/C05", ref="3/C05"),
    "C09": dict(level="other", technique="polynomial normal forms of every tensor kernel and product overload compared with index-notation definitions (oracle/tensor_algebra.py) on 3x3/3-vector embeddings; inverse guard shape; per-member component-access rules (accessors, setters, array forms, embeddings); aliasing analysis",
                text="Decides the formula clause for all inputs (polynomial identity => exact on integer-valued inputs) and the absent-iff-singular clause; the few-ulp clause on non-integer inputs is decided by an a-priori forward error bound for the kernels without cancellation (258 of 342 instances: <= 3 u) and not decided for dot/cross/determinant/products.",
                note="trusted: clang front end, evaluator, sympy; oracle written from index notation", ref="3/C09"),
    "C18": dict(level="other", technique="definitional functions located by parameter types; algebraic normal form compared with a table of textbook formulas (oracle/formulas.py, 104 entries); forward relative-error domain for the few-ulp clause; narrowing scan; conditioning compared with the definition as written (forward relative-error domain on both forms)",
                text="Decides which real function each definitional relation computes, constants included, for all positive inputs and the three numeric types (104 formulas); the few-ulp clause is decided by an a-priori forward error bound for the 98 formulas without subtraction of rounded intermediates (<= 5 u) and not decided for the remaining 6.",
                note="trusted: clang front end, evaluator, sympy, the formula table", ref="3/C18, Appendix B"),
    "C10": dict(level="other", technique="typestate / who-may-write analysis of the stored vector of Direction and PlanarDirection (every constructor, mutator and producer evaluated and classified), syntactic write scan over all bodies, algebraic rules for Magnitude / accessors / scalar x direction constructors",
                text="Decides the structure of the unit-vector invariant (no path bypasses normalisation; the normalisation formula with its zero branch) and the typed magnitude / component / recomposition rules for all vector quantities; the four-ulp clause is decided by an a-priori bound on the normalisation step (<= 3.5 u per component); the few-ulp recomposition bound is not separately derived.",
                note="trusted: clang front end, evaluator, sympy", ref="3/C10"),
    "C11": dict(level="other", technique="shape/interval rule on every std::acos reachable from the angle kernels (argument dominated by a clamp into [-1,1] in floating point), algebraic comparison of the clamped cosine with dot/(|a||b|), delegation of the quantity-level angle functions",
                text="Decides never-NaN and range [0, pi] for all non-zero, non-overflowing inputs (given libm's acos contract), symmetry, scale-freeness and the values at (anti)parallel inputs algebraically, and that all quantity-level angle functions delegate to the kernels. Agreement with atan2 to 1e-7 rad is not decided.",
                note="trusted: clang front end, evaluator, sympy; libm acos returns a value in [0, pi] for arguments in [-1, 1]", ref="3/C11, 4.2"),
    "C12": dict(level="other", technique="term evaluation of the 20 constructors / 7 accessors / all Stress-Strain overloads; elasticity identities decided by polynomial normalisation modulo the radicals, root selection by exact evaluation of the terms at rational admissible materials; override table",
                text="Decides that every constructor stores the (mu, lambda) of the material its inputs denote, that accessors report the identities, that stress = 2 mu eps + lam tr(eps) I with the exact inverse for all three overloads, argument-independence of the stubs, and override completeness. Per-precision accuracy is not decided.",
                note="trusted: clang front end, evaluator, sympy, oracle/elasticity.py", ref="3/C12"),
    "C13": dict(level="other", technique="term evaluation of every Stress/StrainRate/Strain overload of both Newtonian fluid classes; slot-wise algebraic comparison with 2 mu D (+ mu_b tr(D) I) and its inverse; leaf-set independence; override table; case analysis on conditionals over model parameters",
                text="Decides the linear viscous law and its exact inverse for all three overloads of both classes and all numeric types, the zero stubs, the ignored strain argument and the zero bulk viscosity default. Per-precision accuracy is not decided.",
                note="trusted: clang front end, evaluator, sympy, oracle/elasticity.py", ref="3/C13"),
    "C02": dict(level="other", technique="data-flow / term evaluation of every conversion entry point with concrete unit enumerators; each result slot's affine map over Q(pi) compared with the composition of the Conversion kernels of C01, and its term with the kernels' own sequence of rounded operations; copying forms shown not to modify their argument",
                text="Decides that construction converts once, that Value/StaticValue/Create/Print/JSON/XML/YAML(unit) and all 20 free convert overloads for every container shape apply exactly From_Y o To_X slot by slot (hence agree with the scalar conversion), that unit-to-itself is the identity map and that copying forms leave the argument unchanged. The size of the read-back rounding error is bounded only through C01.R4.",
                note="trusted: clang front end, evaluator; quick tier: 3 units per unit type for member entry points, thorough tier: all units", ref="3/C02"),
    "C15": dict(level="other", technique="interval analysis of the decision tree of PhQ::Print<T>; string-template evaluation of all Print/JSON/XML/YAML members (JSON parsed, XML/YAML matched); operator<< = Print(); which Print<T> prints each number and through which types the value passed",
                text="Decides notation, precision (max_digits10+1 significant digits per decade), zero handling, component order, labels, unit abbreviation and JSON well-formedness for all values and types, and that parsing uses the matching strto*. Bit-exact parse-back then follows from the IEEE round-trip theorem given a correctly rounding libc, which is trusted, not checked.",
                note="trusted: clang front end, evaluator, libc printf/strto* correct rounding", ref="3/C15"),
    "C20": dict(level="other", technique="structural rules over all instantiated bodies: external callees classified by resolved declaration (noexcept / allocation-only / may-throw), may-throw calls discharged by table totality or an enclosing catch(...), unchecked lookups tied to total tables, definite initialisation via the term evaluator, scans for casts to enum types and signed arithmetic, positive controls in every run; member-initialisation order in every class with state; dangling references and string views; tables through aliases and parameters; cycle detection in the resolved call graph with path-sensitive termination of every entry point",
                text="Decides the clauses the statement names: every lookup hits, no exception other than bad_alloc can escape, the parsers are total, no uninitialised local or member reaches a result, no invalid enumerator or signed overflow can be produced. General memory safety beyond these clauses is not decided (static analysis cannot prove absence of all UB).",
                note="trusted: clang front end; the callee classification table in vf_lib/props/c20.py (unclassified callees make the check inconclusive); libstdc++ default stream exception mask", ref="3/C20"),
}

NOT_YET = {
}


def main():
    props = [json.loads(l) for l in open(os.path.join(HERE, "properties.jsonl"))]
    checks = []
    na = []
    for p in props:
        pid = p["id"]
        c = CHECKS.get(pid)
        if c is None:
            na.append({"property_id": pid, "reason": NOT_YET.get(pid, "check under construction in this session (design: DESIGN.md section 3)")})
            continue
        checks.append({
            "property_id": pid,
            "quick_cmd": "./vf check %s --tier quick" % pid,
            "thorough_cmd": "./vf check %s --tier thorough" % pid,
            "evidence_file": "/verif/evidence/%s.json" % pid,
            "replay_cmd_template": "./vf replay {path}",
            "engine": "vf",
            "level_claimed": {"category": c["level"], "text": c["text"], "design_ref": "DESIGN.md section " + c["ref"]},
            "level_note": c["note"],
            "technique": c["technique"],
        })
    m = {
        "version": 1,
        "setup_cmd": "./vf setup",
        "hooks": {
            "guard": "PHQ_VERIF",
            "enable": "no hooks are needed: every check analyses /repo's headers as they are (clang 14 libTooling, -fsyntax-only semantics)",
            "baseline_off_cmd": "cmake --build /repo/_build -j16 && ctest --test-dir /repo/_build -j8 --timeout 900",
            "source_commits": [],
            "add_only": True,
        },
        "engines": [{"name": "vf", "path": "/verif/vf", "serves_properties": sorted(CHECKS),
                     "kind_free_text": "libTooling fact extractor (tool/phqx.cc) + repo-specific rules and abstract interpreters over the instantiated AST (vf_lib/)"}],
        "checks": checks,
        "not_applicable": na,
        "notes": "Static analysis only: no PhQ code is executed by any check. Exit 2 = analysis broken/inconclusive (never a pass, never a violation).",
    }
    json.dump(m, open(os.path.join(HERE, "MANIFEST.json"), "w"), indent=1)
    print("MANIFEST.json: %d checks, %d not claimed" % (len(checks), len(na)))


if __name__ == "__main__":
    main()
