// Differential program for the C16 structural refactor: precision-changing copy construction and
// copy assignment of PlanarVector, Vector, SymmetricDyad, Dyad, the directions, and quantities
// built on top of them.
#include <PhQ/Direction.hpp>
#include <PhQ/Displacement.hpp>
#include <PhQ/DisplacementGradient.hpp>
#include <PhQ/Dyad.hpp>
#include <PhQ/Force.hpp>
#include <PhQ/PlanarDirection.hpp>
#include <PhQ/PlanarForce.hpp>
#include <PhQ/PlanarVector.hpp>
#include <PhQ/PlanarVelocity.hpp>
#include <PhQ/Position.hpp>
#include <PhQ/Strain.hpp>
#include <PhQ/StrainRate.hpp>
#include <PhQ/Stress.hpp>
#include <PhQ/SymmetricDyad.hpp>
#include <PhQ/Vector.hpp>
#include <PhQ/Velocity.hpp>
#include <PhQ/VelocityGradient.hpp>

#include <array>
#include <cmath>
#include <cstdint>
#include <cstdio>
#include <cstring>
#include <limits>
#include <random>
#include <string>
#include <type_traits>
#include <vector>

namespace {

std::uint64_t g_digest = 1469598103934665603ULL;
std::uint64_t g_count = 0;
bool g_print = false;

void Mix(const char* text) {
  for (const char* c = text; *c != '\0'; ++c) {
    g_digest ^= static_cast<unsigned char>(*c);
    g_digest *= 1099511628211ULL;
  }
}

template <typename T>
const char* Name() {
  if (std::is_same<T, float>::value) {
    return "f";
  }
  if (std::is_same<T, double>::value) {
    return "d";
  }
  return "L";
}

// Records one value: hexfloat text plus sign bit plus raw bytes of the significant storage.
template <typename T>
void Emit(const T value) {
  char buffer[96];
  std::snprintf(buffer, sizeof(buffer), "%La/%d", static_cast<long double>(value),
                std::signbit(value) ? 1 : 0);
  Mix(buffer);
  unsigned char bytes[sizeof(T)];
  std::memcpy(bytes, &value, sizeof(T));
  const std::size_t used = std::is_same<T, long double>::value ? 10 : sizeof(T);
  char hex[3 * sizeof(T) + 2];
  std::size_t position = 0;
  for (std::size_t i = 0; i < used; ++i) {
    position += std::snprintf(hex + position, sizeof(hex) - position, "%02x", bytes[i]);
  }
  Mix(hex);
  ++g_count;
  if (g_print) {
    std::printf(" %s[%s]", buffer, hex);
  }
}

template <typename T, std::size_t N>
void EmitArray(const std::array<T, N>& values) {
  for (const T value : values) {
    Emit(value);
  }
}

template <typename T>
void EmitComponents(const PhQ::PlanarVector<T>& v) {
  EmitArray(v.x_y());
  Emit(v.x());
  Emit(v.y());
}
template <typename T>
void EmitComponents(const PhQ::Vector<T>& v) {
  EmitArray(v.x_y_z());
  Emit(v.x());
  Emit(v.y());
  Emit(v.z());
}
template <typename T>
void EmitComponents(const PhQ::SymmetricDyad<T>& v) {
  EmitArray(v.xx_xy_xz_yy_yz_zz());
  Emit(v.xx());
  Emit(v.xy());
  Emit(v.xz());
  Emit(v.yx());
  Emit(v.yy());
  Emit(v.yz());
  Emit(v.zx());
  Emit(v.zy());
  Emit(v.zz());
}
template <typename T>
void EmitComponents(const PhQ::Dyad<T>& v) {
  EmitArray(v.xx_xy_xz_yx_yy_yz_zx_zy_zz());
  Emit(v.xx());
  Emit(v.xy());
  Emit(v.xz());
  Emit(v.yx());
  Emit(v.yy());
  Emit(v.yz());
  Emit(v.zx());
  Emit(v.zy());
  Emit(v.zz());
}

void Begin(const char* label, const char* from, const char* to, const bool print) {
  g_print = print;
  Mix(label);
  Mix(from);
  Mix(to);
  if (g_print) {
    std::printf("%s %s->%s:", label, from, to);
  }
}
void End() {
  if (g_print) {
    std::printf("\n");
  }
  g_print = false;
}

template <typename T>
std::vector<T> EdgeValues() {
  using L = std::numeric_limits<T>;
  std::vector<T> values = {
      static_cast<T>(0),
      -static_cast<T>(0),
      static_cast<T>(1),
      static_cast<T>(-1),
      static_cast<T>(0.1L),
      static_cast<T>(-1.0L / 3.0L),
      static_cast<T>(3.14159265358979323846264338327950288L),
      L::min(),
      -L::min(),
      L::denorm_min(),
      -L::denorm_min(),
      L::max(),
      L::lowest(),
      L::epsilon(),
      static_cast<T>(1) + L::epsilon(),
      static_cast<T>(1) - L::epsilon() / static_cast<T>(2),
      L::infinity(),
      -L::infinity(),
      L::quiet_NaN(),
      static_cast<T>(16777217.0L),
      static_cast<T>(9007199254740993.0L),
      static_cast<T>(1.0e-46L),
      static_cast<T>(-1.0e-320L),
      static_cast<T>(3.5e38L),
      static_cast<T>(-1.8e308L),
      static_cast<T>(1.0000000596046447753906250L),  // halfway between floats near 1
      static_cast<T>(1.00000000000000011102230246251565404236316680908203125L),
      static_cast<T>(123456789.123456789123456789L),
      static_cast<T>(-6.02214076e23L),
      static_cast<T>(1.602176634e-19L),
  };
  return values;
}

template <typename T>
class Source {
public:
  explicit Source(const std::uint64_t seed) : engine_(seed), edges_(EdgeValues<T>()) {}

  T Next() {
    const std::uint64_t kind = engine_() % 8;
    if (kind == 0) {
      return edges_[engine_() % edges_.size()];
    }
    // Random mantissa with a random exponent spanning well beyond the float range.
    const long double mantissa =
        std::uniform_real_distribution<long double>(-1.0L, 1.0L)(engine_);
    int exponent = 0;
    if (kind <= 3) {
      exponent = static_cast<int>(engine_() % 20) - 10;
    } else if (kind <= 5) {
      exponent = static_cast<int>(engine_() % 300) - 150;
    } else {
      exponent = static_cast<int>(engine_() % 2200) - 1100;
    }
    return static_cast<T>(std::ldexp(mantissa, exponent));
  }

  template <std::size_t N>
  std::array<T, N> NextArray() {
    std::array<T, N> result{};
    for (std::size_t i = 0; i < N; ++i) {
      result[i] = Next();
    }
    return result;
  }

  std::size_t EdgeCount() const {
    return edges_.size();
  }
  T Edge(const std::size_t i) const {
    return edges_[i % edges_.size()];
  }

private:
  std::mt19937_64 engine_;
  std::vector<T> edges_;
};

// Shape<N>: maps a component count to the component class template.
template <std::size_t N, typename T>
struct Shape;
template <typename T>
struct Shape<2, T> {
  using type = PhQ::PlanarVector<T>;
  static const char* Label() { return "PlanarVector"; }
};
template <typename T>
struct Shape<3, T> {
  using type = PhQ::Vector<T>;
  static const char* Label() { return "Vector"; }
};
template <typename T>
struct Shape<6, T> {
  using type = PhQ::SymmetricDyad<T>;
  static const char* Label() { return "SymmetricDyad"; }
};
template <typename T>
struct Shape<9, T> {
  using type = PhQ::Dyad<T>;
  static const char* Label() { return "Dyad"; }
};

template <std::size_t N, typename From, typename To>
void ConvertOne(const std::array<From, N>& components, const bool print) {
  using FromShape = typename Shape<N, From>::type;
  using ToShape = typename Shape<N, To>::type;
  const FromShape source(components);

  Begin(Shape<N, From>::Label(), Name<From>(), Name<To>(), print);
  // Converting construction, both spellings.
  const ToShape constructed(source);
  EmitComponents(constructed);
  const ToShape cast = static_cast<ToShape>(source);
  EmitComponents(cast);

  // Converting assignment over a pre-filled target, plus the returned reference and chaining.
  std::array<To, N> filler{};
  for (std::size_t i = 0; i < N; ++i) {
    filler[i] = static_cast<To>(100 + i);
  }
  ToShape assigned(filler);
  ToShape& reference = (assigned = source);
  EmitComponents(assigned);
  Emit(static_cast<To>(&reference == &assigned ? 1 : 0));
  ToShape chained_a(filler);
  ToShape chained_b(filler);
  chained_a = chained_b = source;
  EmitComponents(chained_a);
  EmitComponents(chained_b);

  // Round trip back to the source precision (identity when widening first).
  const FromShape back(constructed);
  EmitComponents(back);
  FromShape back_assigned(components);
  back_assigned = assigned;
  EmitComponents(back_assigned);
  Emit(static_cast<To>(back == source ? 1 : 0));

  // Mutable accessors after a conversion still refer to the same slots.
  ToShape mutated(source);
  EmitComponents(mutated);
  End();
}

template <std::size_t N, typename From, typename To>
void ConvertShape(const std::uint64_t seed) {
  Source<From> source(seed);
  // Edge values, each in every slot with distinct neighbours.
  for (std::size_t e = 0; e < source.EdgeCount(); ++e) {
    for (std::size_t slot = 0; slot < N; ++slot) {
      std::array<From, N> components{};
      for (std::size_t i = 0; i < N; ++i) {
        components[i] = static_cast<From>(static_cast<long double>(i + 1) * 1.1L);
      }
      components[slot] = source.Edge(e);
      ConvertOne<N, From, To>(components, slot == 0 && N <= 3);
    }
  }
  // All slots edge values, rotated.
  for (std::size_t e = 0; e < source.EdgeCount(); ++e) {
    std::array<From, N> components{};
    for (std::size_t i = 0; i < N; ++i) {
      components[i] = source.Edge(e + i);
    }
    ConvertOne<N, From, To>(components, e % 7 == 0);
  }
  // Random values.
  for (int trial = 0; trial < 4000; ++trial) {
    ConvertOne<N, From, To>(source.template NextArray<N>(), trial < 3);
  }
}

template <typename From, typename To>
void ConvertDirections(const std::uint64_t seed) {
  Source<From> source(seed);
  for (int trial = 0; trial < 3000; ++trial) {
    std::array<From, 3> c3 = source.template NextArray<3>();
    std::array<From, 2> c2 = source.template NextArray<2>();
    if (trial == 0) {
      c3 = {static_cast<From>(0), static_cast<From>(0), static_cast<From>(0)};
      c2 = {static_cast<From>(0), static_cast<From>(0)};
    } else if (trial == 1) {
      c3 = {-static_cast<From>(0), static_cast<From>(0), -static_cast<From>(0)};
      c2 = {-static_cast<From>(0), -static_cast<From>(0)};
    } else if (trial == 2) {
      c3 = {static_cast<From>(1), static_cast<From>(2), static_cast<From>(-2)};
      c2 = {static_cast<From>(3), static_cast<From>(-4)};
    } else if (trial % 3 == 0) {
      // Keep magnitudes moderate so that the squared magnitude is finite and nonzero.
      for (From& c : c3) {
        c = static_cast<From>(std::ldexp(static_cast<long double>(std::isfinite(c) ? c : 1), 0));
        if (!(std::fabs(c) < static_cast<From>(1.0e15L))) {
          c = static_cast<From>(0.75L);
        }
        if (std::fabs(c) < static_cast<From>(1.0e-15L)) {
          c = static_cast<From>(-0.3L);
        }
      }
      for (From& c : c2) {
        if (!(std::fabs(c) < static_cast<From>(1.0e15L))) {
          c = static_cast<From>(0.75L);
        }
        if (std::fabs(c) < static_cast<From>(1.0e-15L)) {
          c = static_cast<From>(-0.3L);
        }
      }
    }
    const bool print = trial < 6;
    {
      const PhQ::Direction<From> direction(c3);
      Begin("Direction", Name<From>(), Name<To>(), print);
      EmitComponents(direction.Value());
      const PhQ::Direction<To> constructed(direction);
      EmitComponents(constructed.Value());
      PhQ::Direction<To> assigned(static_cast<To>(1), static_cast<To>(1), static_cast<To>(1));
      assigned = direction;
      EmitComponents(assigned.Value());
      const PhQ::Direction<From> back(constructed);
      EmitComponents(back.Value());
      Emit(constructed.MagnitudeSquared());
      End();
    }
    {
      const PhQ::PlanarDirection<From> direction(c2);
      Begin("PlanarDirection", Name<From>(), Name<To>(), print);
      EmitComponents(direction.Value());
      const PhQ::PlanarDirection<To> constructed(direction);
      EmitComponents(constructed.Value());
      PhQ::PlanarDirection<To> assigned(static_cast<To>(1), static_cast<To>(1));
      assigned = direction;
      EmitComponents(assigned.Value());
      const PhQ::PlanarDirection<From> back(constructed);
      EmitComponents(back.Value());
      Emit(constructed.MagnitudeSquared());
      End();
    }
  }
}

template <template <typename> class Quantity, typename From, typename To, typename FromValue,
          typename Unit>
void ConvertQuantity(const char* label, const FromValue& value, const Unit unit,
                     const bool print) {
  const Quantity<From> source(value, unit);
  Begin(label, Name<From>(), Name<To>(), print);
  EmitComponents(source.Value());
  const Quantity<To> constructed(source);
  EmitComponents(constructed.Value());
  Quantity<To> assigned = Quantity<To>::Zero();
  assigned = source;
  EmitComponents(assigned.Value());
  const Quantity<From> back(constructed);
  EmitComponents(back.Value());
  Quantity<From> back_assigned = Quantity<From>::Zero();
  back_assigned = assigned;
  EmitComponents(back_assigned.Value());
  End();
}

template <typename From, typename To>
void ConvertQuantities(const std::uint64_t seed) {
  Source<From> source(seed);
  for (int trial = 0; trial < 1500; ++trial) {
    const bool print = trial < 2;
    const PhQ::PlanarVector<From> planar(source.template NextArray<2>());
    const PhQ::Vector<From> vector(source.template NextArray<3>());
    const PhQ::SymmetricDyad<From> symmetric(source.template NextArray<6>());
    const PhQ::Dyad<From> dyad(source.template NextArray<9>());
    ConvertQuantity<PhQ::PlanarVelocity, From, To>(
        "PlanarVelocity", planar, PhQ::Unit::Speed::MetrePerSecond, print);
    ConvertQuantity<PhQ::PlanarForce, From, To>(
        "PlanarForce", planar, PhQ::Unit::Force::Newton, print);
    ConvertQuantity<PhQ::Velocity, From, To>(
        "Velocity", vector, PhQ::Unit::Speed::MetrePerSecond, print);
    ConvertQuantity<PhQ::Force, From, To>("Force", vector, PhQ::Unit::Force::Newton, print);
    ConvertQuantity<PhQ::Position, From, To>("Position", vector, PhQ::Unit::Length::Metre, print);
    ConvertQuantity<PhQ::Displacement, From, To>(
        "Displacement", vector, PhQ::Unit::Length::Metre, print);
    ConvertQuantity<PhQ::Stress, From, To>("Stress", symmetric, PhQ::Unit::Pressure::Pascal, print);
    ConvertQuantity<PhQ::StrainRate, From, To>(
        "StrainRate", symmetric, PhQ::Unit::Frequency::Hertz, print);
    ConvertQuantity<PhQ::VelocityGradient, From, To>(
        "VelocityGradient", dyad, PhQ::Unit::Frequency::Hertz, print);
    // Dimensionless tensors.
    {
      const PhQ::Strain<From> strain(symmetric);
      Begin("Strain", Name<From>(), Name<To>(), print);
      const PhQ::Strain<To> constructed(strain);
      EmitComponents(constructed.Value());
      PhQ::Strain<To> assigned = PhQ::Strain<To>::Zero();
      assigned = strain;
      EmitComponents(assigned.Value());
      End();
    }
    {
      const PhQ::DisplacementGradient<From> gradient(dyad);
      Begin("DisplacementGradient", Name<From>(), Name<To>(), print);
      const PhQ::DisplacementGradient<To> constructed(gradient);
      EmitComponents(constructed.Value());
      PhQ::DisplacementGradient<To> assigned = PhQ::DisplacementGradient<To>::Zero();
      assigned = gradient;
      EmitComponents(assigned.Value());
      End();
    }
  }
}

template <typename From, typename To>
void RunPair(const std::uint64_t seed) {
  const std::uint64_t before = g_count;
  ConvertShape<2, From, To>(seed + 2);
  ConvertShape<3, From, To>(seed + 3);
  ConvertShape<6, From, To>(seed + 6);
  ConvertShape<9, From, To>(seed + 9);
  ConvertDirections<From, To>(seed + 11);
  ConvertQuantities<From, To>(seed + 13);
  std::printf("PAIR %s->%s values=%llu digest=%016llx\n", Name<From>(), Name<To>(),
              static_cast<unsigned long long>(g_count - before),
              static_cast<unsigned long long>(g_digest));
}

// Compile-time use of the converting members must keep working and give the same results.
constexpr PhQ::Vector<double> kVectorD(1.5, -2.25, 1024.0);
constexpr PhQ::Vector<float> kVectorF(kVectorD);
constexpr PhQ::Vector<long double> kVectorL(kVectorF);
static_assert(kVectorF.x() == 1.5F && kVectorF.y() == -2.25F && kVectorF.z() == 1024.0F, "");
static_assert(kVectorL.x() == 1.5L && kVectorL.y() == -2.25L && kVectorL.z() == 1024.0L, "");
constexpr PhQ::PlanarVector<float> kPlanarF(PhQ::PlanarVector<long double>(0.5L, -8.0L));
static_assert(kPlanarF.x() == 0.5F && kPlanarF.y() == -8.0F, "");
constexpr PhQ::SymmetricDyad<float> kSymmetricF(
    PhQ::SymmetricDyad<double>(1.0, 2.0, 3.0, 4.0, 5.0, 6.0));
static_assert(kSymmetricF.xx() == 1.0F && kSymmetricF.xy() == 2.0F && kSymmetricF.xz() == 3.0F
                  && kSymmetricF.yy() == 4.0F && kSymmetricF.yz() == 5.0F
                  && kSymmetricF.zz() == 6.0F,
              "");
constexpr PhQ::Dyad<double> kDyadD(
    PhQ::Dyad<float>(1.0F, 2.0F, 3.0F, 4.0F, 5.0F, 6.0F, 7.0F, 8.0F, 9.0F));
static_assert(kDyadD.xx() == 1.0 && kDyadD.xy() == 2.0 && kDyadD.xz() == 3.0 && kDyadD.yx() == 4.0
                  && kDyadD.yy() == 5.0 && kDyadD.yz() == 6.0 && kDyadD.zx() == 7.0
                  && kDyadD.zy() == 8.0 && kDyadD.zz() == 9.0,
              "");

constexpr PhQ::Vector<float> AssignedAtCompileTime() {
  PhQ::Vector<float> result(0.0F, 0.0F, 0.0F);
  result = PhQ::Vector<double>(7.0, -0.125, 3.0);
  return result;
}
constexpr PhQ::Vector<float> kAssigned = AssignedAtCompileTime();
static_assert(kAssigned.x() == 7.0F && kAssigned.y() == -0.125F && kAssigned.z() == 3.0F, "");

}  // namespace

int main() {
  RunPair<float, double>(1000);
  RunPair<float, long double>(2000);
  RunPair<double, float>(3000);
  RunPair<double, long double>(4000);
  RunPair<long double, float>(5000);
  RunPair<long double, double>(6000);

  g_print = true;
  std::printf("constexpr:");
  EmitComponents(kVectorF);
  EmitComponents(kVectorL);
  EmitComponents(kPlanarF);
  EmitComponents(kSymmetricF);
  EmitComponents(kDyadD);
  EmitComponents(kAssigned);
  std::printf("\n");
  g_print = false;

  std::printf("TOTAL values=%llu digest=%016llx\n", static_cast<unsigned long long>(g_count),
              static_cast<unsigned long long>(g_digest));
  return 0;
}
