// Differential program for the C04r refactor: exercises every arithmetic operator and compound
// assignment of PhQ::Vector and PhQ::Dyad, plus the vector- and dyad-valued physical quantities
// built on them, for float, double and long double. Prints the raw bytes of every result.

#include <PhQ/Acceleration.hpp>
#include <PhQ/Direction.hpp>
#include <PhQ/Displacement.hpp>
#include <PhQ/DisplacementGradient.hpp>
#include <PhQ/Dyad.hpp>
#include <PhQ/Force.hpp>
#include <PhQ/Frequency.hpp>
#include <PhQ/ScalarForce.hpp>
#include <PhQ/SymmetricDyad.hpp>
#include <PhQ/Time.hpp>
#include <PhQ/Vector.hpp>
#include <PhQ/Velocity.hpp>
#include <PhQ/VelocityGradient.hpp>

#include <array>
#include <cstdint>
#include <cstdio>
#include <cstring>
#include <limits>
#include <random>
#include <string>
#include <vector>

namespace {

std::uint64_t digest = 1469598103934665603ULL;

template <typename T>
constexpr std::size_t SignificantBytes() {
  return sizeof(T) == 16 ? 10 : sizeof(T);  // x87 long double: 10 value bytes + padding
}

template <typename T>
void Emit(const T value, std::string& line) {
  unsigned char bytes[sizeof(T)];
  std::memcpy(bytes, &value, sizeof(T));
  char buffer[4];
  for (std::size_t i = SignificantBytes<T>(); i-- > 0;) {
    std::snprintf(buffer, sizeof(buffer), "%02x", bytes[i]);
    line += buffer;
    digest = (digest ^ bytes[i]) * 1099511628211ULL;
  }
  line += ' ';
}

template <typename T>
void Show(const char* tag, const PhQ::Vector<T>& v, const bool print) {
  std::string line;
  Emit(v.x(), line);
  Emit(v.y(), line);
  Emit(v.z(), line);
  if (print) {
    std::printf("%s %s\n", tag, line.c_str());
  }
}

template <typename T>
void Show(const char* tag, const PhQ::Dyad<T>& d, const bool print) {
  std::string line;
  for (const T c : d.xx_xy_xz_yx_yy_yz_zx_zy_zz()) {
    Emit(c, line);
  }
  if (print) {
    std::printf("%s %s\n", tag, line.c_str());
  }
}

template <typename T>
struct Source {
  std::mt19937_64 engine;
  std::vector<T> edges;

  explicit Source(const std::uint64_t seed) : engine(seed) {
    using L = std::numeric_limits<T>;
    edges = {static_cast<T>(0),
             -static_cast<T>(0),
             static_cast<T>(1),
             static_cast<T>(-1),
             static_cast<T>(2),
             static_cast<T>(-0.5),
             static_cast<T>(3),
             static_cast<T>(0.1L),
             static_cast<T>(-1.0L / 3.0L),
             L::min(),
             -L::min(),
             L::denorm_min(),
             -L::denorm_min(),
             L::max(),
             -L::max(),
             L::epsilon(),
             static_cast<T>(1) + L::epsilon(),
             L::infinity(),
             -L::infinity(),
             L::quiet_NaN(),
             static_cast<T>(1.0e-20L),
             static_cast<T>(-7.0e18L)};
  }

  T Next() {
    const std::uint64_t r = engine();
    const unsigned kind = static_cast<unsigned>(r % 16);
    if (kind < 3) {
      return edges[(r >> 8) % edges.size()];
    }
    const long double mantissa =
        static_cast<long double>(engine() >> 1) / 9223372036854775808.0L + 0.5L;
    int exponent;
    if (kind < 10) {
      exponent = static_cast<int>((r >> 8) % 21) - 10;
    } else if (kind < 13) {
      exponent = static_cast<int>((r >> 8) % 121) - 60;
    } else {
      const int range = std::numeric_limits<T>::max_exponent - 2;
      exponent = static_cast<int>((r >> 8) % static_cast<std::uint64_t>(2 * range)) - range;
    }
    const long double magnitude = std::ldexp(mantissa, exponent);
    return static_cast<T>(((r >> 40) & 1U) != 0 ? -magnitude : magnitude);
  }

  T NextFinite() {
    for (;;) {
      const T value = Next();
      if (std::isfinite(value)) {
        return value;
      }
    }
  }

  PhQ::Vector<T> NextVector() {
    const T x = Next();
    const T y = Next();
    const T z = Next();
    return PhQ::Vector<T>{x, y, z};
  }

  PhQ::Dyad<T> NextDyad() {
    std::array<T, 9> c{};
    for (T& component : c) {
      component = Next();
    }
    return PhQ::Dyad<T>{c};
  }
};

// Compile-time checks: the refactored operators must still be usable in constant expressions.
constexpr PhQ::Vector<double> kVectorA{1.0, -2.0, 3.0};
constexpr PhQ::Vector<double> kVectorB = kVectorA * 2.0;
constexpr PhQ::Vector<double> kVectorC = kVectorA / 2;
constexpr PhQ::Vector<double> kVectorD = 3 * kVectorA;
static_assert(kVectorB.y() == -4.0 && kVectorC.z() == 1.5 && kVectorD.x() == 3.0, "");
constexpr PhQ::Dyad<double> kDyadA{1.0, -2.0, 3.0, -4.0, 5.0, -6.0, 7.0, -8.0, 9.0};
constexpr PhQ::Dyad<double> kDyadB = kDyadA * 2.0;
constexpr PhQ::Dyad<double> kDyadC = kDyadA / 2;
constexpr PhQ::Dyad<double> kDyadD = 3.0F * kDyadA;
static_assert(kDyadB.zy() == -16.0 && kDyadC.yx() == -2.0 && kDyadD.zz() == 27.0, "");

constexpr PhQ::Vector<double> CompoundVector() {
  PhQ::Vector<double> v{1.0, 2.0, 3.0};
  v += PhQ::Vector<double>{1.0, 1.0, 1.0};
  v *= 4;
  v -= PhQ::Vector<double>{0.0, 2.0, 0.0};
  v /= 2.0;
  return v;
}
static_assert(CompoundVector().x() == 4.0 && CompoundVector().y() == 5.0
                  && CompoundVector().z() == 8.0,
              "");

constexpr PhQ::Dyad<double> CompoundDyad() {
  PhQ::Dyad<double> d{1.0, 2.0, 3.0, 4.0, 5.0, 6.0, 7.0, 8.0, 9.0};
  d += d;
  d *= 2;
  d -= PhQ::Dyad<double>{0.0, 0.0, 0.0, 0.0, 0.0, 0.0, 0.0, 0.0, 4.0};
  d /= 4.0;
  return d;
}
static_assert(CompoundDyad().xx() == 1.0 && CompoundDyad().zz() == 8.0, "");

template <typename T, typename Other>
void RunShapes(const char* name, const std::uint64_t seed, const int iterations,
               const int printed) {
  Source<T> source(seed);
  std::mt19937_64 chooser(seed ^ 0x9e3779b97f4a7c15ULL);
  for (int i = 0; i < iterations; ++i) {
    const bool print = i < printed;
    if (print) {
      std::printf("== %s shapes #%d\n", name, i);
    }
    const PhQ::Vector<T> a = source.NextVector();
    const PhQ::Vector<T> b = source.NextVector();
    const T s = source.Next();
    const T t = source.Next();
    const Other o = static_cast<Other>(source.Next());
    const int k = static_cast<int>(chooser() % 19) - 9;
    const long n = static_cast<long>(chooser() % 2000001) - 1000000;

    Show("V a+b", a + b, print);
    Show("V b+a", b + a, print);
    Show("V a-b", a - b, print);
    Show("V b-a", b - a, print);
    Show("V a*s", a * s, print);
    Show("V s*a", s * a, print);
    Show("V a/s", a / s, print);
    Show("V a*o", a * o, print);
    Show("V o*a", o * a, print);
    Show("V a/o", a / o, print);
    Show("V a*k", a * k, print);
    Show("V k*a", k * a, print);
    Show("V a/k", a / k, print);
    Show("V a*n", a * n, print);
    Show("V a/n", a / n, print);
    Show("V a+a", a + a, print);
    Show("V a-a", a - a, print);
    {
      PhQ::Vector<T> c = a;
      c += b;
      Show("V c+=b", c, print);
      c -= a;
      Show("V c-=a", c, print);
      c *= s;
      Show("V c*=s", c, print);
      c /= t;
      Show("V c/=t", c, print);
      c *= o;
      Show("V c*=o", c, print);
      c /= k;
      Show("V c/=k", c, print);
      c += c;
      Show("V c+=c", c, print);
      c *= n;
      Show("V c*=n", c, print);
      c /= o;
      Show("V c/=o", c, print);
      c -= c;
      Show("V c-=c", c, print);
    }
    {
      // Random history of compound assignments next to the same chain of pure operators.
      PhQ::Vector<T> c = a;
      PhQ::Vector<T> p = a;
      for (int step = 0; step < 12; ++step) {
        const PhQ::Vector<T> w = source.NextVector();
        const T f = source.Next();
        switch (chooser() % 4) {
          case 0:
            c += w;
            p = p + w;
            break;
          case 1:
            c -= w;
            p = p - w;
            break;
          case 2:
            c *= f;
            p = p * f;
            break;
          default:
            c /= f;
            p = p / f;
            break;
        }
        Show("V chain=", c, print);
        Show("V chain ", p, print);
      }
    }

    const PhQ::Dyad<T> d = source.NextDyad();
    const PhQ::Dyad<T> e = source.NextDyad();
    Show("D d+e", d + e, print);
    Show("D e+d", e + d, print);
    Show("D d-e", d - e, print);
    Show("D e-d", e - d, print);
    Show("D d*s", d * s, print);
    Show("D s*d", s * d, print);
    Show("D d/s", d / s, print);
    Show("D d*o", d * o, print);
    Show("D o*d", o * d, print);
    Show("D d/o", d / o, print);
    Show("D d*k", d * k, print);
    Show("D k*d", k * d, print);
    Show("D d/k", d / k, print);
    Show("D d*n", d * n, print);
    Show("D d/n", d / n, print);
    Show("D d*e", d * e, print);
    Show("V d*a", d * a, print);
    Show("D a(x)b", a.Dyadic(b), print);
    Show("D adj", d.Adjugate(), print);
    {
      const auto inverse = d.Inverse();
      if (inverse.has_value()) {
        Show("D inv", inverse.value(), print);
      } else if (print) {
        std::printf("D inv none\n");
      }
    }
    {
      PhQ::Dyad<T> c = d;
      c += e;
      Show("D c+=e", c, print);
      c -= d;
      Show("D c-=d", c, print);
      c *= s;
      Show("D c*=s", c, print);
      c /= t;
      Show("D c/=t", c, print);
      c *= o;
      Show("D c*=o", c, print);
      c /= k;
      Show("D c/=k", c, print);
      c += c;
      Show("D c+=c", c, print);
      c *= n;
      Show("D c*=n", c, print);
      c /= o;
      Show("D c/=o", c, print);
      c -= c;
      Show("D c-=c", c, print);
    }
    {
      PhQ::Dyad<T> c = d;
      PhQ::Dyad<T> p = d;
      for (int step = 0; step < 12; ++step) {
        const PhQ::Dyad<T> w = source.NextDyad();
        const T f = source.Next();
        switch (chooser() % 4) {
          case 0:
            c += w;
            p = p + w;
            break;
          case 1:
            c -= w;
            p = p - w;
            break;
          case 2:
            c *= f;
            p = p * f;
            break;
          default:
            c /= f;
            p = p / f;
            break;
        }
        Show("D chain=", c, print);
        Show("D chain ", p, print);
      }
    }
  }
}

template <typename T>
void RunQuantities(const char* name, const std::uint64_t seed, const int iterations,
                   const int printed) {
  Source<T> source(seed);
  std::mt19937_64 chooser(seed ^ 0x5851f42d4c957f2dULL);
  const std::array<PhQ::Unit::Force, 3> force_units{
      PhQ::Unit::Force::Newton, PhQ::Unit::Force::Kilonewton, PhQ::Unit::Force::Pound};
  for (int i = 0; i < iterations; ++i) {
    const bool print = i < printed;
    if (print) {
      std::printf("== %s quantities #%d\n", name, i);
    }
    const T s = source.Next();
    const T u = source.Next();

    // Force: vector quantity with number operators and compound assignments.
    const PhQ::Unit::Force force_unit = force_units[chooser() % force_units.size()];
    const PhQ::Force<T> f1(source.NextVector(), force_unit);
    const PhQ::Force<T> f2(source.NextVector(), PhQ::Unit::Force::Newton);
    Show("F f1+f2", (f1 + f2).Value(), print);
    Show("F f2+f1", (f2 + f1).Value(), print);
    Show("F f1-f2", (f1 - f2).Value(), print);
    Show("F f1*s", (f1 * s).Value(), print);
    Show("F s*f1", (s * f1).Value(), print);
    Show("F f1/s", (f1 / s).Value(), print);
    {
      PhQ::Force<T> c = f1;
      PhQ::Force<T> p = f1;
      for (int step = 0; step < 10; ++step) {
        const PhQ::Force<T> w(source.NextVector(), PhQ::Unit::Force::Newton);
        const T f = source.Next();
        switch (chooser() % 4) {
          case 0:
            c += w;
            p = p + w;
            break;
          case 1:
            c -= w;
            p = p - w;
            break;
          case 2:
            c *= f;
            p = p * f;
            break;
          default:
            c /= f;
            p = p / f;
            break;
        }
        Show("F chain=", c.Value(), print);
        Show("F chain ", p.Value(), print);
      }
    }
    {
      // Constructor and operator twins: scalar force times direction.
      const PhQ::ScalarForce<T> magnitude(source.NextFinite(), PhQ::Unit::Force::Newton);
      const PhQ::Direction<T> direction(
          source.NextFinite(), source.NextFinite(), source.NextFinite());
      Show("F ctor(sf,dir)", PhQ::Force<T>(magnitude, direction).Value(), print);
      Show("F sf*dir", (magnitude * direction).Value(), print);
      Show("F dir*sf", (direction * magnitude).Value(), print);
    }

    // Displacement, velocity, acceleration with time and frequency.
    const PhQ::Time<T> time(source.Next(), PhQ::Unit::Time::Second);
    const PhQ::Frequency<T> frequency(source.Next(), PhQ::Unit::Frequency::Hertz);
    const PhQ::Displacement<T> x1(source.NextVector(), PhQ::Unit::Length::Metre);
    const PhQ::Displacement<T> x2(source.NextVector(), PhQ::Unit::Length::Metre);
    const PhQ::Velocity<T> v1(source.NextVector(), PhQ::Unit::Speed::MetrePerSecond);
    const PhQ::Velocity<T> v2(source.NextVector(), PhQ::Unit::Speed::MetrePerSecond);
    const PhQ::Acceleration<T> a1(
        source.NextVector(), PhQ::Unit::Acceleration::MetrePerSquareSecond);
    Show("X x1+x2", (x1 + x2).Value(), print);
    Show("X x1-x2", (x1 - x2).Value(), print);
    Show("X x1*s", (x1 * s).Value(), print);
    Show("X s*x1", (s * x1).Value(), print);
    Show("X x1/s", (x1 / s).Value(), print);
    Show("V x1/time", (x1 / time).Value(), print);
    Show("V ctor(x1,time)", PhQ::Velocity<T>(x1, time).Value(), print);
    Show("V x1*freq", (x1 * frequency).Value(), print);
    Show("V freq*x1", (frequency * x1).Value(), print);
    Show("V ctor(x1,freq)", PhQ::Velocity<T>(x1, frequency).Value(), print);
    Show("V v1+v2", (v1 + v2).Value(), print);
    Show("V v1-v2", (v1 - v2).Value(), print);
    Show("V v1*s", (v1 * s).Value(), print);
    Show("V s*v1", (s * v1).Value(), print);
    Show("V v1/s", (v1 / s).Value(), print);
    Show("X v1*time", (v1 * time).Value(), print);
    Show("X time*v1", (time * v1).Value(), print);
    Show("X ctor(v1,time)", PhQ::Displacement<T>(v1, time).Value(), print);
    Show("X v1/freq", (v1 / frequency).Value(), print);
    Show("X ctor(v1,freq)", PhQ::Displacement<T>(v1, frequency).Value(), print);
    Show("A v1/time", (v1 / time).Value(), print);
    Show("A ctor(v1,time)", PhQ::Acceleration<T>(v1, time).Value(), print);
    Show("A v1*freq", (v1 * frequency).Value(), print);
    Show("A freq*v1", (frequency * v1).Value(), print);
    Show("A ctor(v1,freq)", PhQ::Acceleration<T>(v1, frequency).Value(), print);
    Show("A a1*s", (a1 * s).Value(), print);
    Show("A a1/s", (a1 / s).Value(), print);
    Show("V a1*time", (a1 * time).Value(), print);
    Show("V time*a1", (time * a1).Value(), print);
    Show("V a1/freq", (a1 / frequency).Value(), print);
    {
      PhQ::Velocity<T> c = v1;
      c += v2;
      Show("V c+=v2", c.Value(), print);
      c *= s;
      Show("V c*=s", c.Value(), print);
      c -= v1;
      Show("V c-=v1", c.Value(), print);
      c /= u;
      Show("V c/=u", c.Value(), print);
      PhQ::Displacement<T> x = x1;
      x -= x2;
      x /= s;
      x += x1;
      x *= u;
      Show("X compound", x.Value(), print);
      PhQ::Acceleration<T> a = a1;
      a *= s;
      a += a1;
      a /= u;
      a -= a1;
      Show("A compound", a.Value(), print);
    }

    // Dyadic quantities: velocity gradient and displacement gradient.
    const PhQ::VelocityGradient<T> g1(source.NextDyad(), PhQ::Unit::Frequency::Hertz);
    const PhQ::VelocityGradient<T> g2(source.NextDyad(), PhQ::Unit::Frequency::Kilohertz);
    const PhQ::DisplacementGradient<T> h1(source.NextDyad());
    const PhQ::DisplacementGradient<T> h2(source.NextDyad());
    Show("G g1+g2", (g1 + g2).Value(), print);
    Show("G g2+g1", (g2 + g1).Value(), print);
    Show("G g1-g2", (g1 - g2).Value(), print);
    Show("G g1*s", (g1 * s).Value(), print);
    Show("G s*g1", (s * g1).Value(), print);
    Show("G g1/s", (g1 / s).Value(), print);
    Show("H g1*time", (g1 * time).Value(), print);
    Show("H time*g1", (time * g1).Value(), print);
    Show("H ctor(g1,time)", PhQ::DisplacementGradient<T>(g1, time).Value(), print);
    Show("H g1/freq", (g1 / frequency).Value(), print);
    Show("H ctor(g1,freq)", PhQ::DisplacementGradient<T>(g1, frequency).Value(), print);
    Show("H h1+h2", (h1 + h2).Value(), print);
    Show("H h1-h2", (h1 - h2).Value(), print);
    Show("H h1*s", (h1 * s).Value(), print);
    Show("H s*h1", (s * h1).Value(), print);
    Show("H h1/s", (h1 / s).Value(), print);
    Show("G h1/time", (h1 / time).Value(), print);
    Show("G ctor(h1,time)", PhQ::VelocityGradient<T>(h1, time).Value(), print);
    Show("G h1*freq", (h1 * frequency).Value(), print);
    Show("G freq*h1", (frequency * h1).Value(), print);
    Show("G ctor(h1,freq)", PhQ::VelocityGradient<T>(h1, frequency).Value(), print);
    {
      PhQ::VelocityGradient<T> c = g1;
      PhQ::VelocityGradient<T> p = g1;
      PhQ::DisplacementGradient<T> hc = h1;
      PhQ::DisplacementGradient<T> hp = h1;
      for (int step = 0; step < 10; ++step) {
        const PhQ::VelocityGradient<T> w(source.NextDyad(), PhQ::Unit::Frequency::Hertz);
        const PhQ::DisplacementGradient<T> hw(source.NextDyad());
        const T f = source.Next();
        switch (chooser() % 4) {
          case 0:
            c += w;
            p = p + w;
            hc += hw;
            hp = hp + hw;
            break;
          case 1:
            c -= w;
            p = p - w;
            hc -= hw;
            hp = hp - hw;
            break;
          case 2:
            c *= f;
            p = p * f;
            hc *= f;
            hp = hp * f;
            break;
          default:
            c /= f;
            p = p / f;
            hc /= f;
            hp = hp / f;
            break;
        }
        Show("G chain=", c.Value(), print);
        Show("G chain ", p.Value(), print);
        Show("H chain=", hc.Value(), print);
        Show("H chain ", hp.Value(), print);
      }
    }
  }
}

}  // namespace

int main() {
  constexpr int kIterations = 20000;
  constexpr int kPrinted = 150;
  RunShapes<float, double>("float/double", 101, kIterations, kPrinted);
  std::printf("digest float shapes %016llx\n", static_cast<unsigned long long>(digest));
  RunShapes<double, float>("double/float", 202, kIterations, kPrinted);
  std::printf("digest double shapes %016llx\n", static_cast<unsigned long long>(digest));
  RunShapes<long double, double>("long double/double", 303, kIterations, kPrinted);
  std::printf("digest long double shapes %016llx\n", static_cast<unsigned long long>(digest));
  RunShapes<double, long double>("double/long double", 404, kIterations, kPrinted);
  std::printf("digest double/long double shapes %016llx\n",
              static_cast<unsigned long long>(digest));
  RunQuantities<float>("float", 505, kIterations, kPrinted);
  std::printf("digest float quantities %016llx\n", static_cast<unsigned long long>(digest));
  RunQuantities<double>("double", 606, kIterations, kPrinted);
  std::printf("digest double quantities %016llx\n", static_cast<unsigned long long>(digest));
  RunQuantities<long double>("long double", 707, kIterations, kPrinted);
  std::printf("digest long double quantities %016llx\n", static_cast<unsigned long long>(digest));
  return 0;
}
