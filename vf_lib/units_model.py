"""Per-unit-type model: code side (tables, conversion bodies as affine maps) and oracle side."""
import os
import sys
from fractions import Fraction

from . import ev, tables, affine, facts
from .ev import Inconclusive
from .frontend import VERIF, AnalysisBroken

sys.path.insert(0, VERIF)
from oracle import units as U  # noqa: E402


class UnitModel:
    def __init__(self, F):
        self.F = F
        self.T = tables.Tables(F)
        self.numeric = F.numeric
        self._conv = {}

    def unit_types(self):
        return self.T.unit_types()

    def short(self, ut):
        return ut.split("::")[-1]

    def abbreviations(self, ut):
        rows = self.T.rows("abbr", ut) or []
        return {k[2]: v for k, v in rows if isinstance(k, tuple) and isinstance(v, str)}

    def dims_vector(self, ut):
        d = self.T.dimensions(ut)
        if d is None:
            return None
        return tuple(d[k] for k in U.DIMS)

    def conversion_fn(self, ut, name, direction):
        """The instantiated Conversion<ut, ut::name>::{To,From}Standard<T> function."""
        qn = "PhQ::Internal::Conversion<%s, %s::%s>::%s<%s>" % (ut, ut, name, direction, self.numeric)
        fs = self.F.by_name.get(qn, [])
        if len(fs) != 1:
            return None
        return fs[0]

    def conversion_affine(self, ut, name, direction):
        key = (ut, name, direction)
        if key in self._conv:
            return self._conv[key]
        f = self.conversion_fn(ut, name, direction)
        if f is None:
            self._conv[key] = (None, None, "no instantiated %s body for %s::%s" % (direction, ut, name))
            return self._conv[key]
        E = ev.Evaluator(self.F)
        try:
            lv = E.new_loc(("leaf", "v"), "arg")
            E.call(f["id"], None, [lv])
            term = E.load(lv)
            a = affine.affine_of(term, "v", self.numeric)
            a.term = term
            self._conv[key] = (a, f, ev.show(term))
        except Inconclusive as x:
            self._conv[key] = (None, f, "inconclusive: %s" % x)
        return self._conv[key]

    def oracle_mag(self, ut, symbol, primary_only=True):
        """Oracle readings of a symbol whose dimension equals the declared dimension of ut.
        Returns (list of Mag, error string or None)."""
        try:
            rs = U.parse(symbol, primary_only=primary_only)
        except U.ParseError as x:
            return None, str(x)
        dv = self.dims_vector(ut)
        ok = [m for m in rs if tuple(m.d) == dv]
        return (ok, None) if ok else ([], "no reading of %r has the dimension %s of %s (readings: %s)" % (symbol, dv, self.short(ut), rs))

    def oracle_affine(self, ut, name, abbr):
        """(A, B) as Q[pi] numbers such that standard = A*value + B, from the symbol alone."""
        std = self.T.standard.get(ut)
        abbrs = self.abbreviations(ut)
        ms, err = self.oracle_mag(ut, abbr)
        if err or not ms:
            return None, err or "no reading"
        m0s, err0 = self.oracle_mag(ut, abbrs.get(std, ""))
        if err0 or not m0s:
            return None, "standard unit symbol: %s" % (err0 or "no reading")
        m, m0 = ms[0], m0s[0]
        A = affine.num(m.q / m0.q, m.k - m0.k)
        B = {}
        if self.short(ut) == "Temperature":
            off = U.TEMPERATURE_OFFSETS.get(abbr)
            off0 = U.TEMPERATURE_OFFSETS.get(abbrs.get(std, ""))
            if off is None or off0 is None:
                return None, "no offset known for %r" % abbr
            # K = m.q*v + off ; standard = (K - off0)/m0.q
            B = affine.num((off - off0) / m0.q)
        return (A, B), None


def close(a, b, tol=Fraction(1, 2 ** 66)):
    """Exact equality of two Q[pi] numbers, or relative difference below tol (long decimal approximations)."""
    if a == b:
        return True
    if set(a.keys()) != set(b.keys()):
        return False
    for k in a:
        if b[k] == 0 or abs(a[k] / b[k] - 1) > tol:
            return False
    return True
