// Differential program for the C12 structural refactor of ElasticIsotropicSolid.
#include <PhQ/ConstitutiveModel/ElasticIsotropicSolid.hpp>

#include <algorithm>
#include <cinttypes>
#include <cstdint>
#include <cstdio>
#include <cstring>
#include <functional>
#include <limits>
#include <memory>
#include <random>
#include <set>
#include <sstream>
#include <string>
#include <type_traits>
#include <unordered_set>
#include <vector>

using namespace PhQ;

namespace {

uint64_t g_digest = 1469598103934665603ULL;
uint64_t g_lines = 0;
uint64_t g_verbose_budget = 0;

void Emit(const std::string& line) {
  for (const unsigned char c : line) {
    g_digest ^= c;
    g_digest *= 1099511628211ULL;
  }
  g_digest ^= '\n';
  g_digest *= 1099511628211ULL;
  ++g_lines;
  if (g_verbose_budget > 0) {
    --g_verbose_budget;
    std::printf("%s\n", line.c_str());
  }
}

template <typename T>
std::string Hex(const T value) {
  // Exact bit pattern, so that NaN payloads and signed zeros are distinguished.
  char buffer[96];
  if constexpr (std::is_same_v<T, long double>) {
    unsigned char bytes[16] = {};
    std::memcpy(bytes, &value, 10);
    std::string s;
    for (int i = 9; i >= 0; --i) {
      std::snprintf(buffer, sizeof buffer, "%02x", bytes[i]);
      s += buffer;
    }
    std::snprintf(buffer, sizeof buffer, "(%La)", value);
    return s + buffer;
  } else if constexpr (std::is_same_v<T, double>) {
    uint64_t bits;
    std::memcpy(&bits, &value, 8);
    std::snprintf(buffer, sizeof buffer, "%016" PRIx64 "(%a)", bits, value);
    return buffer;
  } else {
    uint32_t bits;
    std::memcpy(&bits, &value, 4);
    std::snprintf(buffer, sizeof buffer, "%08" PRIx32 "(%a)", bits, static_cast<double>(value));
    return buffer;
  }
}

template <typename T>
std::string HexDyad(const SymmetricDyad<T>& d) {
  return Hex(d.xx()) + " " + Hex(d.xy()) + " " + Hex(d.xz()) + " " + Hex(d.yy()) + " "
         + Hex(d.yz()) + " " + Hex(d.zz());
}

template <typename T>
using Model = ConstitutiveModel::ElasticIsotropicSolid<T>;

template <typename T>
std::string Describe(const Model<T>& m) {
  return "mu=" + Hex(m.ShearModulus().Value()) + " la=" + Hex(m.LameFirstModulus().Value());
}

template <typename T>
std::string Moduli(const Model<T>& m) {
  return "E=" + Hex(m.YoungModulus().Value()) + " Ks=" + Hex(m.IsentropicBulkModulus().Value())
         + " Kt=" + Hex(m.IsothermalBulkModulus().Value()) + " M=" + Hex(m.PWaveModulus().Value())
         + " nu=" + Hex(m.PoissonRatio().Value());
}

constexpr Unit::Pressure Pa = Unit::Pressure::Pascal;

// Builds the model from every one of the 20 supported pairs.
template <typename T>
std::vector<Model<T>> AllConstructors(const T E, const T G, const T Ks, const T Kt, const T la,
                                      const T M, const T nu) {
  const YoungModulus<T> e(E, Pa);
  const ShearModulus<T> g(G, Pa);
  const IsentropicBulkModulus<T> ks(Ks, Pa);
  const IsothermalBulkModulus<T> kt(Kt, Pa);
  const LameFirstModulus<T> l(la, Pa);
  const PWaveModulus<T> m(M, Pa);
  const PoissonRatio<T> n(nu);
  std::vector<Model<T>> r;
  r.emplace_back(e, n);
  r.emplace_back(e, g);
  r.emplace_back(e, ks);
  r.emplace_back(e, kt);
  r.emplace_back(e, l);
  r.emplace_back(e, m);
  r.emplace_back(g, n);
  r.emplace_back(g, ks);
  r.emplace_back(g, kt);
  r.emplace_back(g, l);
  r.emplace_back(g, m);
  r.emplace_back(ks, l);
  r.emplace_back(kt, l);
  r.emplace_back(ks, m);
  r.emplace_back(kt, m);
  r.emplace_back(ks, n);
  r.emplace_back(kt, n);
  r.emplace_back(l, m);
  r.emplace_back(l, n);
  r.emplace_back(m, n);
  return r;
}

template <typename U>
void StressStrain(const char* tag, const ConstitutiveModel& base, const std::array<double, 6>& c) {
  const Strain<U> strain{static_cast<U>(c[0]), static_cast<U>(c[1]), static_cast<U>(c[2]),
                         static_cast<U>(c[3]), static_cast<U>(c[4]), static_cast<U>(c[5])};
  const StrainRate<U> rate{
    SymmetricDyad<U>{static_cast<U>(c[5]), static_cast<U>(c[4]), static_cast<U>(c[3]),
                     static_cast<U>(c[2]), static_cast<U>(c[1]), static_cast<U>(c[0])},
    Unit::Frequency::Hertz
  };
  const Stress<U> s1 = base.Stress(strain);
  const Stress<U> s2 = base.Stress(strain, rate);
  const Stress<U> s3 = base.Stress(rate);
  const Strain<U> back = base.Strain(s1);
  // Interpret the same components (scaled) directly as a stress, to drive Strain() independently.
  const Stress<U> direct{
    SymmetricDyad<U>{static_cast<U>(c[0] * 1.0e9), static_cast<U>(c[1] * 1.0e9),
                     static_cast<U>(c[2] * 1.0e9), static_cast<U>(c[3] * 1.0e9),
                     static_cast<U>(c[4] * 1.0e9), static_cast<U>(c[5] * 1.0e9)},
    Unit::Pressure::Pascal
  };
  const Strain<U> e2 = base.Strain(direct);
  const StrainRate<U> r2 = base.StrainRate(s1);
  Emit(std::string(tag) + " S1 " + HexDyad(s1.Value()));
  Emit(std::string(tag) + " S2 " + HexDyad(s2.Value()));
  Emit(std::string(tag) + " S3 " + HexDyad(s3.Value()));
  Emit(std::string(tag) + " E1 " + HexDyad(back.Value()));
  Emit(std::string(tag) + " E2 " + HexDyad(e2.Value()));
  Emit(std::string(tag) + " R2 " + HexDyad(r2.Value()));
}

template <typename T>
void ExerciseModel(const Model<T>& m, const std::vector<std::array<double, 6>>& tensors) {
  Emit(Describe(m) + " " + Moduli(m));
  const ConstitutiveModel& base = m;
  Emit(std::string("type ") + std::to_string(static_cast<int>(base.GetType())));
  Emit(base.Print());
  Emit(base.JSON());
  Emit(base.XML());
  Emit(base.YAML());
  {
    std::ostringstream a;
    a << m;
    std::ostringstream b;
    b << base;
    Emit("stream " + a.str() + " | " + b.str());
  }
  Emit("hash " + std::to_string(std::hash<Model<T>>()(m)));
  for (const auto& c : tensors) {
    StressStrain<float>("f", base, c);
    StressStrain<double>("d", base, c);
    StressStrain<long double>("l", base, c);
    // Also through the concrete (non-virtual dispatch) interface.
    const Strain<T> strain{static_cast<T>(c[0]), static_cast<T>(c[1]), static_cast<T>(c[2]),
                           static_cast<T>(c[3]), static_cast<T>(c[4]), static_cast<T>(c[5])};
    const Stress<T> s = m.Stress(strain);
    Emit("c S " + HexDyad(s.Value()));
    Emit("c E " + HexDyad(m.Strain(s).Value()));
  }
}

template <typename T>
void Compare(const Model<T>& a, const Model<T>& b) {
  std::string s = "cmp ";
  s += (a == b) ? '1' : '0';
  s += (a != b) ? '1' : '0';
  s += (a < b) ? '1' : '0';
  s += (a > b) ? '1' : '0';
  s += (a <= b) ? '1' : '0';
  s += (a >= b) ? '1' : '0';
  s += (b == a) ? '1' : '0';
  s += (b < a) ? '1' : '0';
  s += (b >= a) ? '1' : '0';
  Emit(s);
}

template <typename T>
void Run(const char* name, const uint64_t seed, const int materials) {
  Emit(std::string("==== ") + name);
  std::mt19937_64 rng(seed);
  std::uniform_real_distribution<double> exponent(-6.0, 12.0);
  std::uniform_real_distribution<double> poisson(0.0, 0.5);
  std::uniform_real_distribution<double> component(-1.0, 1.0);
  std::uniform_real_distribution<double> wide(-30.0, 30.0);

  std::vector<std::array<double, 6>> tensors;
  tensors.push_back({0.0, 0.0, 0.0, 0.0, 0.0, 0.0});
  tensors.push_back({-0.0, -0.0, -0.0, -0.0, -0.0, -0.0});
  tensors.push_back({32.0, -4.0, -2.0, 16.0, -1.0, 8.0});
  tensors.push_back({1.0e-30, -2.0e-30, 3.0e-30, -4.0e-30, 5.0e-30, -6.0e-30});
  tensors.push_back({1.0e25, -2.0e25, 3.0e25, -4.0e25, 5.0e25, -6.0e25});
  tensors.push_back({1.0, 0.0, 0.0, -1.0, 0.0, 0.0});
  for (int i = 0; i < 4; ++i) {
    std::array<double, 6> c{};
    for (auto& v : c) {
      v = component(rng) * std::pow(10.0, -1.0 - 3.0 * i);
    }
    tensors.push_back(c);
  }

  std::vector<Model<T>> collected;

  for (int i = 0; i < materials; ++i) {
    g_verbose_budget = (i < 3) ? 400 : 0;
    T G;
    T nu;
    if (i == 0) {
      G = static_cast<T>(4.0);
      nu = static_cast<T>(0.1);
    } else if (i == 1) {
      G = static_cast<T>(79.3e9);
      nu = static_cast<T>(0.0);
    } else if (i == 2) {
      G = static_cast<T>(26.0e9);
      nu = static_cast<T>(0.499999);
    } else if (i == 3) {
      G = static_cast<T>(1.0e-6);
      nu = static_cast<T>(0.25);
    } else if (i == 4) {
      G = static_cast<T>(1.0e12);
      nu = static_cast<T>(1.0) / static_cast<T>(3.0);
    } else {
      G = static_cast<T>(std::pow(10.0, exponent(rng)));
      nu = static_cast<T>(poisson(rng));
    }
    const T la = static_cast<T>(2) * G * nu / (static_cast<T>(1) - static_cast<T>(2) * nu);
    const Model<T> reference{ShearModulus<T>(G, Pa), LameFirstModulus<T>(la, Pa)};
    const T E = reference.YoungModulus().Value();
    const T Ks = reference.IsentropicBulkModulus().Value();
    const T Kt = reference.IsothermalBulkModulus().Value();
    const T M = reference.PWaveModulus().Value();
    const T n2 = reference.PoissonRatio().Value();
    Emit("material " + std::to_string(i) + " " + Describe(reference) + " " + Moduli(reference));
    const std::vector<Model<T>> models = AllConstructors<T>(E, G, Ks, Kt, la, M, n2);
    for (std::size_t k = 0; k < models.size(); ++k) {
      Emit("ctor " + std::to_string(k) + " " + Describe(models[k]) + " " + Moduli(models[k]));
      Compare(models[k], reference);
      // Rebuild from reported pairs (second generation).
      const Model<T>& mk = models[k];
      const std::vector<Model<T>> again = AllConstructors<T>(
          mk.YoungModulus().Value(), mk.ShearModulus().Value(), mk.IsentropicBulkModulus().Value(),
          mk.IsothermalBulkModulus().Value(), mk.LameFirstModulus().Value(),
          mk.PWaveModulus().Value(), mk.PoissonRatio().Value());
      for (std::size_t j = 0; j < again.size(); ++j) {
        Emit("re " + std::to_string(j) + " " + Describe(again[j]));
      }
    }
    // Full exercise on the reference and on a few constructed ones (bulk modulus based).
    ExerciseModel(reference, tensors);
    for (const std::size_t k : {2U, 3U, 7U, 8U, 11U, 12U, 13U, 14U, 15U, 16U}) {
      ExerciseModel(models[k], (i < 8) ? tensors
                                       : std::vector<std::array<double, 6>>{tensors[2], tensors[6]});
    }
    if (collected.size() < 60) {
      collected.push_back(reference);
      collected.push_back(models[15]);
      collected.push_back(models[7]);
    }
  }

  // Raw (not necessarily admissible) inputs for every constructor: zeros, negative zero, negative
  // values, tiny, huge, infinities and NaN, plus log-uniform random values of either sign.
  g_verbose_budget = 300;
  const T inf = std::numeric_limits<T>::infinity();
  const T nan = std::numeric_limits<T>::quiet_NaN();
  const std::vector<T> specials{static_cast<T>(0),
                                -static_cast<T>(0),
                                static_cast<T>(1),
                                static_cast<T>(-1),
                                static_cast<T>(0.5),
                                static_cast<T>(0.25),
                                static_cast<T>(3),
                                std::numeric_limits<T>::min(),
                                std::numeric_limits<T>::denorm_min(),
                                std::numeric_limits<T>::max(),
                                -std::numeric_limits<T>::max(),
                                std::numeric_limits<T>::epsilon(),
                                inf,
                                -inf,
                                nan};
  for (std::size_t a = 0; a < specials.size(); ++a) {
    for (std::size_t b = 0; b < specials.size(); ++b) {
      const T x = specials[a];
      const T y = specials[b];
      // The two values are fed to every slot pair in turn.
      const std::vector<Model<T>> models = AllConstructors<T>(x, y, y, y, x, y, x);
      const std::vector<Model<T>> models2 = AllConstructors<T>(y, x, x, x, y, x, y);
      std::string line = "raw " + std::to_string(a) + " " + std::to_string(b);
      for (const auto& m : models) {
        line += " " + Describe(m) + " " + Moduli(m);
      }
      for (const auto& m : models2) {
        line += " " + Describe(m) + " " + Moduli(m);
      }
      Emit(line);
      if (g_verbose_budget > 10) {
        g_verbose_budget = 0;  // only the digest for the bulk of these
      }
      if ((a * specials.size() + b) % 23 == 0) {
        ExerciseModel(models[7], {tensors[2], tensors[0], tensors[1]});
        ExerciseModel(models2[15], {tensors[2], tensors[6]});
        Compare(models[7], models2[7]);
        Compare(models[12], models[12]);
      }
    }
  }
  g_verbose_budget = 0;
  for (int i = 0; i < 3000; ++i) {
    const auto draw = [&]() {
      const double magnitude = std::pow(10.0, wide(rng));
      return static_cast<T>((rng() & 1U) ? magnitude : -magnitude);
    };
    const T E = draw();
    const T G = draw();
    const T Ks = draw();
    const T Kt = draw();
    const T la = draw();
    const T M = draw();
    const T nu = static_cast<T>(component(rng));
    const std::vector<Model<T>> models = AllConstructors<T>(E, G, Ks, Kt, la, M, nu);
    std::string line = "rnd";
    for (const auto& m : models) {
      line += " " + Describe(m) + " " + Moduli(m);
    }
    Emit(line);
    if (i % 100 == 0) {
      ExerciseModel(models[2], {tensors[2], tensors[7]});
      ExerciseModel(models[16], {tensors[2], tensors[8]});
    }
    if (i % 10 == 0 && collected.size() < 400) {
      collected.push_back(models[3]);
      collected.push_back(models[14]);
    }
  }

  // Comparison operators, ordering containers and hashing over the collected models.
  g_verbose_budget = 40;
  for (std::size_t i = 0; i < collected.size(); i += 7) {
    for (std::size_t j = 0; j < collected.size(); j += 5) {
      Compare(collected[i], collected[j]);
    }
  }
  {
    // Only models without NaN can be sorted (strict weak ordering).
    std::vector<Model<T>> sortable;
    for (const auto& m : collected) {
      if (m.ShearModulus().Value() == m.ShearModulus().Value()
          && m.LameFirstModulus().Value() == m.LameFirstModulus().Value()) {
        sortable.push_back(m);
      }
    }
    std::sort(sortable.begin(), sortable.end());
    std::string line = "sorted";
    for (const auto& m : sortable) {
      line += " " + Hex(m.ShearModulus().Value());
    }
    Emit(line);
    std::sort(sortable.begin(), sortable.end(), std::greater<Model<T>>());
    Emit("greatest " + Describe(sortable.front()));
    const std::set<Model<T>> ordered(sortable.begin(), sortable.end());
    const std::unordered_set<Model<T>> unordered(sortable.begin(), sortable.end());
    Emit("set sizes " + std::to_string(ordered.size()) + " " + std::to_string(unordered.size()));
    Emit("adjacent " + std::to_string(std::adjacent_find(sortable.begin(), sortable.end())
                                      - sortable.begin()));
  }
  g_verbose_budget = 0;
  std::printf("%s: lines=%" PRIu64 " digest=%016" PRIx64 "\n", name, g_lines, g_digest);
}

}  // namespace

int main() {
  // Copy/move/assignment and default construction keep working.
  {
    Model<double> a{ShearModulus<double>(4.0, Pa), LameFirstModulus<double>(1.0, Pa)};
    Model<double> b;
    b = a;
    Model<double> c{std::move(a)};
    g_verbose_budget = 10;
    Compare(b, c);
    Emit(c.Print());
    std::unique_ptr<ConstitutiveModel> p = std::make_unique<Model<float>>(
        YoungModulus<float>(200.0F, Unit::Pressure::Gigapascal), PoissonRatio<float>(0.3F));
    std::ostringstream s;
    s << *p << " / " << c;
    Emit(s.str());
  }
  Run<float>("float", 0xC12F, 120);
  Run<double>("double", 0xC12D, 120);
  Run<long double>("long double", 0xC12E, 120);
  std::printf("total lines=%" PRIu64 " digest=%016" PRIx64 "\n", g_lines, g_digest);
  return 0;
}
