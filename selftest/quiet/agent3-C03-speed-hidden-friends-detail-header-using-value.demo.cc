// Differential program for the structural refactor of PhQ::Speed (property C03).
// Prints every result in hexfloat so that the two builds can be compared byte for byte.
#if defined(__has_include)
#if __has_include(<PhQ/Detail/SpeedRelations.hpp>)
// After the refactor: check that the new header also works when it is included first, on its own.
#include <PhQ/Detail/SpeedRelations.hpp>
#endif
#endif

#include <PhQ/Direction.hpp>
#include <PhQ/Frequency.hpp>
#include <PhQ/Length.hpp>
#include <PhQ/MachNumber.hpp>
#include <PhQ/PlanarDirection.hpp>
#include <PhQ/PlanarVelocity.hpp>
#include <PhQ/Power.hpp>
#include <PhQ/ScalarAcceleration.hpp>
#include <PhQ/SoundSpeed.hpp>
#include <PhQ/Speed.hpp>
#include <PhQ/Time.hpp>
#include <PhQ/TransportEnergyConsumption.hpp>
#include <PhQ/Velocity.hpp>

#include <cstdint>
#include <cstdio>
#include <functional>
#include <iostream>
#include <limits>
#include <sstream>
#include <string>
#include <type_traits>
#include <vector>

namespace {

void Put(const char* label, const float x) {
  std::printf("%s=%a\n", label, static_cast<double>(x));
}
void Put(const char* label, const double x) {
  std::printf("%s=%a\n", label, x);
}
void Put(const char* label, const long double x) {
  std::printf("%s=%La\n", label, x);
}
void Put(const char* label, const bool x) {
  std::printf("%s=%d\n", label, x ? 1 : 0);
}
void Put(const char* label, const std::string& x) {
  std::printf("%s=%s\n", label, x.c_str());
}
void Put(const char* label, const std::size_t x) {
  std::printf("%s=%zu\n", label, x);
}

struct Rng {
  std::uint64_t state;
  std::uint64_t Next() {
    state ^= state << 13;
    state ^= state >> 7;
    state ^= state << 17;
    return state;
  }
  // Uniform in [0, 1).
  long double Unit() {
    return static_cast<long double>(Next() >> 11) / 9007199254740992.0L;
  }
};

template <typename T>
std::vector<T> Samples(const std::uint64_t seed) {
  std::vector<T> v{static_cast<T>(0),
                   -static_cast<T>(0),
                   static_cast<T>(1),
                   static_cast<T>(-1),
                   static_cast<T>(8),
                   static_cast<T>(0.1L),
                   static_cast<T>(-3.3L),
                   std::numeric_limits<T>::min(),
                   -std::numeric_limits<T>::min(),
                   std::numeric_limits<T>::denorm_min(),
                   std::numeric_limits<T>::max(),
                   -std::numeric_limits<T>::max(),
                   std::numeric_limits<T>::epsilon(),
                   std::numeric_limits<T>::infinity(),
                   static_cast<T>(1.0e-20L),
                   static_cast<T>(1.0e20L)};
  Rng rng{seed};
  for (int i = 0; i < 40; ++i) {
    const long double mantissa = rng.Unit() * 2.0L - 1.0L;
    const int exponent = static_cast<int>(rng.Next() % 41U) - 20;
    long double scale = 1.0L;
    for (int k = 0; k < (exponent < 0 ? -exponent : exponent); ++k) {
      scale = exponent < 0 ? scale / 7.0L : scale * 7.0L;
    }
    v.push_back(static_cast<T>(mantissa * scale));
  }
  return v;
}

constexpr PhQ::Unit::Speed kSpeedUnits[] = {
    PhQ::Unit::Speed::MetrePerSecond,        PhQ::Unit::Speed::MetrePerMinute,
    PhQ::Unit::Speed::MetrePerHour,          PhQ::Unit::Speed::NauticalMilePerSecond,
    PhQ::Unit::Speed::NauticalMilePerMinute, PhQ::Unit::Speed::Knot,
    PhQ::Unit::Speed::MilePerSecond,         PhQ::Unit::Speed::MilePerMinute,
    PhQ::Unit::Speed::MilePerHour,           PhQ::Unit::Speed::KilometrePerSecond,
    PhQ::Unit::Speed::KilometrePerMinute,    PhQ::Unit::Speed::KilometrePerHour,
    PhQ::Unit::Speed::YardPerSecond,         PhQ::Unit::Speed::YardPerMinute,
    PhQ::Unit::Speed::YardPerHour,           PhQ::Unit::Speed::FootPerSecond,
    PhQ::Unit::Speed::FootPerMinute,         PhQ::Unit::Speed::FootPerHour,
    PhQ::Unit::Speed::DecimetrePerSecond,    PhQ::Unit::Speed::DecimetrePerMinute,
    PhQ::Unit::Speed::DecimetrePerHour,      PhQ::Unit::Speed::InchPerSecond,
    PhQ::Unit::Speed::InchPerMinute,         PhQ::Unit::Speed::InchPerHour,
    PhQ::Unit::Speed::CentimetrePerSecond,   PhQ::Unit::Speed::CentimetrePerMinute,
    PhQ::Unit::Speed::CentimetrePerHour,     PhQ::Unit::Speed::MillimetrePerSecond,
    PhQ::Unit::Speed::MillimetrePerMinute,   PhQ::Unit::Speed::MillimetrePerHour,
    PhQ::Unit::Speed::MilliinchPerSecond,    PhQ::Unit::Speed::MilliinchPerMinute,
    PhQ::Unit::Speed::MilliinchPerHour,      PhQ::Unit::Speed::MicrometrePerSecond,
    PhQ::Unit::Speed::MicrometrePerMinute,   PhQ::Unit::Speed::MicrometrePerHour,
    PhQ::Unit::Speed::MicroinchPerSecond,    PhQ::Unit::Speed::MicroinchPerMinute,
    PhQ::Unit::Speed::MicroinchPerHour};

// The relations must remain usable in constant expressions.
template <typename T>
constexpr bool ConstexprChecks() {
  constexpr PhQ::Speed<T> a = PhQ::Speed<T>::template Create<PhQ::Unit::Speed::MetrePerSecond>(8);
  constexpr PhQ::Speed<T> b = PhQ::Speed<T>::template Create<PhQ::Unit::Speed::MetrePerSecond>(2);
  constexpr PhQ::Time<T> t = PhQ::Time<T>::template Create<PhQ::Unit::Time::Second>(4);
  constexpr PhQ::Length<T> l = PhQ::Length<T>::template Create<PhQ::Unit::Length::Metre>(16);
  constexpr PhQ::Frequency<T> f =
      PhQ::Frequency<T>::template Create<PhQ::Unit::Frequency::Hertz>(2);
  static_assert((a + b).Value() == static_cast<T>(10));
  static_assert((a - b).Value() == static_cast<T>(6));
  static_assert(a / b == static_cast<T>(4));
  static_assert((a * t).Value() == static_cast<T>(32));
  static_assert((a / f).Value() == static_cast<T>(4));
  static_assert((a / l).Value() == static_cast<T>(0.5));
  static_assert((a * static_cast<T>(2)).Value() == static_cast<T>(16));
  static_assert((static_cast<T>(2) * a).Value() == static_cast<T>(16));
  static_assert((a / static_cast<T>(2)).Value() == static_cast<T>(4));
  static_assert((l / t).Value() == static_cast<T>(4));
  static_assert((l * f).Value() == static_cast<T>(32));
  static_assert((f * l).Value() == static_cast<T>(32));
  static_assert((l / a).Value() == static_cast<T>(2));
  static_assert((a * f).Value() == static_cast<T>(16));
  static_assert((a / t).Value() == static_cast<T>(2));
  static_assert(std::is_same_v<decltype(a + b), PhQ::Speed<T>>);
  static_assert(std::is_same_v<decltype(a - b), PhQ::Speed<T>>);
  static_assert(std::is_same_v<decltype(a / b), T>);
  static_assert(std::is_same_v<decltype(a * t), PhQ::Length<T>>);
  static_assert(std::is_same_v<decltype(a / f), PhQ::Length<T>>);
  static_assert(std::is_same_v<decltype(a / l), PhQ::Frequency<T>>);
  static_assert(std::is_same_v<decltype(a * f), PhQ::ScalarAcceleration<T>>);
  static_assert(std::is_same_v<decltype(a / t), PhQ::ScalarAcceleration<T>>);
  static_assert(std::is_same_v<decltype(l / t), PhQ::Speed<T>>);
  static_assert(std::is_same_v<decltype(l / a), PhQ::Time<T>>);
  static_assert(std::is_same_v<decltype(l * f), PhQ::Speed<T>>);
  static_assert(std::is_same_v<decltype(f * l), PhQ::Speed<T>>);
  static_assert(noexcept(a / b));
  static_assert(std::is_trivially_copyable_v<PhQ::Speed<T>>);
  static_assert(sizeof(PhQ::Speed<T>) == sizeof(T));
  return true;
}

template <typename T>
void Run(const char* name) {
  static_assert(ConstexprChecks<T>());
  std::printf("==== %s ====\n", name);
  const std::vector<T> xs = Samples<T>(0x9E3779B97F4A7C15ULL);
  const std::vector<T> ys = Samples<T>(0xD1B54A32D192ED03ULL);

  using PhQ::Direction;
  using PhQ::Frequency;
  using PhQ::Length;
  using PhQ::MachNumber;
  using PhQ::PlanarDirection;
  using PhQ::ScalarAcceleration;
  using PhQ::SoundSpeed;
  using PhQ::Speed;
  using PhQ::Time;
  using PhQ::TransportEnergyConsumption;

  // Unit handling: construction in, and read-out in, every speed unit.
  for (std::size_t i = 0; i < xs.size(); ++i) {
    const PhQ::Unit::Speed unit = kSpeedUnits[i % (sizeof(kSpeedUnits) / sizeof(kSpeedUnits[0]))];
    const Speed<T> s(xs[i], unit);
    Put("ctor.value", s.Value());
    Put("ctor.value_unit", s.Value(unit));
    Put("ctor.print", s.Print());
    Put("ctor.print_unit", s.Print(unit));
    Put("ctor.hash", std::hash<Speed<T>>()(s));
    std::ostringstream stream;
    stream << s;
    Put("ctor.stream", stream.str());
  }
  for (const PhQ::Unit::Speed unit : kSpeedUnits) {
    const Speed<T> s(static_cast<T>(1.2345678901234567890L), unit);
    Put("unit.value", s.Value());
    Put("unit.back", s.Value(unit));
    Put("unit.json", s.JSON(unit));
    Put("unit.xml", s.XML(unit));
    Put("unit.yaml", s.YAML(unit));
  }
  Put("create.knot", Speed<T>::template Create<PhQ::Unit::Speed::Knot>(static_cast<T>(3.7L)).Value());
  Put("create.mph",
      Speed<T>::template Create<PhQ::Unit::Speed::MilePerHour>(static_cast<T>(-61.5L)).Value());
  Put("zero", Speed<T>::Zero().Value());
  Put("dimensions", Speed<T>::Dimensions().Print());

  for (std::size_t i = 0; i < xs.size(); ++i) {
    const T x = xs[i];
    for (std::size_t j = 0; j < ys.size(); j += (i % 3 == 0 ? 1 : 5)) {
      const T y = ys[j];
      const Speed<T> a(x, PhQ::Unit::Speed::MetrePerSecond);
      const Speed<T> b(y, PhQ::Unit::Speed::MetrePerSecond);
      const Time<T> t(y, PhQ::Unit::Time::Second);
      const Length<T> l(y, PhQ::Unit::Length::Metre);
      const Frequency<T> f(y, PhQ::Unit::Frequency::Hertz);
      const ScalarAcceleration<T> g(y, PhQ::Unit::Acceleration::MetrePerSquareSecond);
      const SoundSpeed<T> c(y, PhQ::Unit::Speed::MetrePerSecond);
      const MachNumber<T> m(y);
      const TransportEnergyConsumption<T> e(y, PhQ::Unit::TransportEnergyConsumption::JoulePerMetre);

      // Speed with speed.
      Put("s+s", (a + b).Value());
      Put("s-s", (a - b).Value());
      Put("s/s", a / b);
      Put("s==s", a == b);
      Put("s!=s", a != b);
      Put("s<s", a < b);
      Put("s>s", a > b);
      Put("s<=s", a <= b);
      Put("s>=s", a >= b);
      // Speed with number.
      Put("s*n", (a * y).Value());
      Put("n*s", (y * a).Value());
      Put("s/n", (a / y).Value());
      // Speed with time, frequency, length (moved to non-member operators).
      Put("s*t", (a * t).Value());
      Put("s/f", (a / f).Value());
      Put("s/l", (a / l).Value());
      // The reverse relations, whose definitions moved to Detail/SpeedRelations.hpp.
      const Length<T> lx(x, PhQ::Unit::Length::Metre);
      const Frequency<T> fx(x, PhQ::Unit::Frequency::Hertz);
      Put("L(s,t)", Length<T>(a, t).Value());
      Put("L(s,f)", Length<T>(a, f).Value());
      Put("T(l,s)", Time<T>(lx, b).Value());
      Put("F(s,l)", Frequency<T>(a, l).Value());
      Put("S(l,t)", Speed<T>(lx, t).Value());
      Put("S(l,f)", Speed<T>(lx, f).Value());
      Put("l*f", (lx * f).Value());
      Put("l/s", (lx / b).Value());
      Put("l/t", (lx / t).Value());
      Put("f*l", (fx * l).Value());
      // Relations declared in Speed.hpp and defined elsewhere.
      Put("s+c", (a + c).Value());
      Put("s-c", (a - c).Value());
      Put("c+s", (c + a).Value());
      Put("c-s", (c - a).Value());
      Put("s*f", (a * f).Value());
      Put("s/t", (a / t).Value());
      Put("s/g", (a / g).Value());
      Put("s/c", (a / c).Value());
      Put("s*e", (a * e).Value());
      Put("e*s", (e * a).Value());
      Put("f*s", (f * a).Value());
      Put("S(g,t)", Speed<T>(g, Time<T>(x, PhQ::Unit::Time::Second)).Value());
      Put("S(g,f)", Speed<T>(g, fx).Value());
      Put("S(c,m)", Speed<T>(c, MachNumber<T>(x)).Value());
      Put("c*m", (c * MachNumber<T>(x)).Value());
      Put("g*t", (g * Time<T>(x, PhQ::Unit::Time::Second)).Value());
      Put("g/f", (g / fx).Value());
      Put("g/s", (g / a).Value());
      Put("A(s,t)", ScalarAcceleration<T>(a, t).Value());
      Put("A(s,f)", ScalarAcceleration<T>(a, f).Value());
      // Directions.
      if (j % 4 == 0) {
        const Direction<T> d(x, y, static_cast<T>(0.25L));
        const PlanarDirection<T> pd(x, y);
        const PhQ::Velocity<T> v = a * d;
        const PhQ::PlanarVelocity<T> pv = a * pd;
        Put("s*d.x", v.Value().x());
        Put("s*d.y", v.Value().y());
        Put("s*d.z", v.Value().z());
        Put("d*s.x", (d * a).Value().x());
        Put("s*pd.x", pv.Value().x());
        Put("s*pd.y", pv.Value().y());
        Put("pd*s.y", (pd * a).Value().y());
        Put("v.magnitude", v.Magnitude().Value());
        Put("pv.magnitude", pv.Magnitude().Value());
      }
      // Compound assignment.
      Speed<T> z = a;
      z += b;
      Put("s+=s", z.Value());
      z = a;
      z -= b;
      Put("s-=s", z.Value());
      z = a;
      z *= y;
      Put("s*=n", z.Value());
      z = a;
      z /= y;
      Put("s/=n", z.Value());
      z = a;
      z += c;
      Put("s+=c", z.Value());
      z = a;
      z -= c;
      Put("s-=c", z.Value());
      SoundSpeed<T> cz = c;
      cz += a;
      Put("c+=s", cz.Value());
      cz = c;
      cz -= a;
      Put("c-=s", cz.Value());
    }
    // Conversions between numeric types.
    const Speed<T> a(x, PhQ::Unit::Speed::FootPerSecond);
    Speed<float> af;
    af = a;
    Speed<double> ad;
    ad = a;
    Speed<long double> al;
    al = a;
    Put("assign.f", af.Value());
    Put("assign.d", ad.Value());
    Put("assign.l", al.Value());
    Put("copy.f", Speed<float>(a).Value());
    Put("copy.d", Speed<double>(a).Value());
    Put("copy.l", Speed<long double>(a).Value());
    Speed<T> w = a;
    w.SetValue(x);
    Put("setvalue", w.Value());
    w.MutableValue() = static_cast<T>(2.5L);
    Put("mutablevalue", w.Value());
    Put("staticvalue", w.template StaticValue<PhQ::Unit::Speed::KilometrePerHour>());
  }
}

}  // namespace

int main() {
  Run<float>("float");
  Run<double>("double");
  Run<long double>("long double");
  return 0;
}
