#!/bin/sh
# usage: try_seed.sh <patch.diff> <prop> [<prop>...]   -- applies a seeded change to /repo, runs the checks, reverts.
P="$1"; shift
cd /verif
if ! git -C /repo diff --quiet; then echo "/repo working tree not clean"; exit 3; fi
git -C /repo apply "$P" || { echo "patch does not apply"; exit 3; }
for c in "$@"; do
  VF_NO_EVIDENCE=1 VF_REPLAY_DIR=/tmp/try_seed_replay ./vf check "$c" > /tmp/try_seed_$c.log 2>&1; rc=$?
  echo "== $c rc=$rc: $(grep -c '^VIOLATION' /tmp/try_seed_$c.log) violation line(s); $(tail -1 /tmp/try_seed_$c.log)"
  grep -A4 '^VIOLATION' /tmp/try_seed_$c.log | head -12 | cut -c1-400
  grep '^INCONCLUSIVE\|^ANALYSIS' /tmp/try_seed_$c.log | head -3 | cut -c1-400
done
git -C /repo apply -R "$P" 2>/dev/null || git -C /repo checkout -- .
if [ -n "$(git -C /repo status --porcelain | grep -v _build)" ]; then echo "WARNING: /repo not clean after revert"; git -C /repo status --short | grep -v _build; fi
