"""Unit oracle: what a unit *symbol* denotes, written from the units' legal/SI definitions.

Independent of PhQ's conversion code: nothing in this file was copied from the repository's
constants.  A symbol is parsed with a small grammar and expanded atom by atom to
(magnitude, dimension) where magnitude = q * pi^k with q an exact rational.

Definitions used (sources: BIPM SI Brochure 9th ed. 2019; international yard and pound agreement
1959; CGPM 1901 standard gravity; ISO 80000; IEC 80000-13):
  yard = 0.9144 m, foot = yd/3, inch = ft/12, mile = 1760 yd, nautical mile = 1852 m
  pound (avoirdupois) = 0.45359237 kg, standard gravity g0 = 9.80665 m/s^2, lbf = lb * g0
  slug = lbf s^2/ft, slinch ("blob") = lbf s^2/in
  bar = 1e5 Pa, atm = 101325 Pa, poise = 0.1 Pa s, dyne = 1e-5 N
  thermochemical calorie = 4.184 J, BTU(IT) = 1055.05585262 J (= 4.1868 J/g/K * 453.59237 g * 5/9 K)
  e = 1.602176634e-19 C, eV = e * 1 V, N_A = 6.02214076e23 /mol
  hectare = 1e4 m^2, acre = 4840 yd^2, litre = 1e-3 m^3
  degree = pi/180 rad, arcminute = deg/60, arcsecond = arcmin/60, revolution = 2 pi rad, sr = rad^2
  Rankine/Fahrenheit degree = 5/9 K; 0 degC = 273.15 K; 0 degF = 459.67 degR
  knot = nautical mile / hour; byte = 8 bit; kibi = 2^10 ...
"""
from fractions import Fraction as Fr
import re

DIMS = ["time", "length", "mass", "electric_current", "temperature", "substance_amount", "luminous_intensity"]


def dims(T=0, L=0, M=0, I=0, Th=0, N=0, J=0):
    return (T, L, M, I, Th, N, J)


ZERO_D = dims()


class Mag:
    """q * pi^k with dimension vector d."""
    __slots__ = ("q", "k", "d")

    def __init__(self, q, k=0, d=ZERO_D):
        self.q = Fr(q)
        self.k = k
        self.d = tuple(d)

    def __mul__(self, o):
        return Mag(self.q * o.q, self.k + o.k, tuple(a + b for a, b in zip(self.d, o.d)))

    def __truediv__(self, o):
        return Mag(self.q / o.q, self.k - o.k, tuple(a - b for a, b in zip(self.d, o.d)))

    def __pow__(self, n):
        return Mag(self.q ** n, self.k * n, tuple(a * n for a in self.d))

    def key(self):
        return (self.q, self.k, self.d)

    def __repr__(self):
        return "Mag(%s%s, %s)" % (self.q, "*pi^%d" % self.k if self.k else "", self.d)


def F(s, d=1):
    return Fr(s) / d


# ---------------------------------------------------------------------------------------------
yd = F("0.9144")
ft = yd / 3
inch = ft / 12
mile = 1760 * yd
nmi = F(1852)
lb = F("0.45359237")
g0 = F("9.80665")
lbf = lb * g0
cal = F("4.184")
btu = F("4.1868") * F("453.59237") * F(5, 9)
e_ch = F("1.602176634e-19")
N_A = F("6.02214076e23")

L1 = dims(L=1)
T1 = dims(T=1)
M1 = dims(M=1)
FORCE = dims(T=-2, L=1, M=1)
PRESS = dims(T=-2, L=-1, M=1)
ENERGY = dims(T=-2, L=2, M=1)
POWER = dims(T=-3, L=2, M=1)
CHARGE = dims(T=1, I=1)
TEMP = dims(Th=1)

# atom -> list of readings; the first reading is the primary one (used for abbreviations), further
# readings are context-dependent aliases that only spellings may use.
ATOMS = {}


def atom(names, mag, primary=True):
    for n in names.split("|"):
        ATOMS.setdefault(n, [])
        if primary:
            ATOMS[n].insert(0, mag)
        else:
            ATOMS[n].append(mag)


PREFIXABLE = {}


def prefixable(name, mag, prefixes):
    PREFIXABLE[name] = (mag, prefixes)


SI = {"n": F("1e-9"), "μ": F("1e-6"), "u": F("1e-6"), "m": F("1e-3"), "c": F("1e-2"), "d": F("1e-1"),
      "k": F("1e3"), "M": F("1e6"), "G": F("1e9"), "T": F("1e12"), "P": F("1e15")}
# the complete SI prefix table (SI Brochure 9th ed., table 7, with the 2022 additions); a unit the library does not
# have today but that is spelled with one of these is still readable (e.g. a newly added hectometre "hm")
SI_ALL = dict(SI)
SI_ALL.update({"q": F("1e-30"), "r": F("1e-27"), "y": F("1e-24"), "z": F("1e-21"), "a": F("1e-18"), "f": F("1e-15"),
               "p": F("1e-12"), "da": F(10), "h": F(100), "E": F("1e18"), "Z": F("1e21"), "Y": F("1e24"),
               "R": F("1e27"), "Q": F("1e30")})
WORD_PREFIX_ALL = {"quecto": F("1e-30"), "ronto": F("1e-27"), "yocto": F("1e-24"), "zepto": F("1e-21"), "atto": F("1e-18"),
                   "femto": F("1e-15"), "pico": F("1e-12"), "nano": F("1e-9"), "micro": F("1e-6"), "milli": F("1e-3"),
                   "centi": F("1e-2"), "deci": F("1e-1"), "deca": F(10), "deka": F(10), "hecto": F(100), "kilo": F("1e3"),
                   "mega": F("1e6"), "giga": F("1e9"), "tera": F("1e12"), "peta": F("1e15"), "exa": F("1e18"),
                   "zetta": F("1e21"), "yotta": F("1e24"), "ronna": F("1e27"), "quetta": F("1e30")}
# unit words that take a word prefix -> the symbol whose magnitude they share
PREFIXABLE_WORDS = {"meter": "m", "meters": "m", "metre": "m", "metres": "m", "second": "s", "seconds": "s",
                    "gram": "g", "grams": "g", "gramme": "g", "grammes": "g", "newton": "N", "newtons": "N",
                    "pascal": "Pa", "pascals": "Pa", "joule": "J", "joules": "J", "watt": "W", "watts": "W",
                    "ampere": "A", "amperes": "A", "coulomb": "C", "coulombs": "C", "hertz": "Hz",
                    "mole": "mol", "moles": "mol", "liter": "L", "liters": "L", "litre": "L", "litres": "L",
                    "calorie": "cal", "calories": "cal", "electronvolt": "eV", "electronvolts": "eV"}
IEC = {"ki": F(2) ** 10, "Mi": F(2) ** 20, "Gi": F(2) ** 30, "Ti": F(2) ** 40, "Pi": F(2) ** 50}
WORD_PREFIX = {"nano": F("1e-9"), "micro": F("1e-6"), "milli": F("1e-3"), "centi": F("1e-2"), "deci": F("1e-1"),
               "kilo": F("1e3"), "mega": F("1e6"), "giga": F("1e9"), "tera": F("1e12"), "peta": F("1e15"),
               "kibi": F(2) ** 10, "mebi": F(2) ** 20, "gibi": F(2) ** 30, "tebi": F(2) ** 40, "pebi": F(2) ** 50}

# length
atom("m|meter|meters|metre|metres", Mag(1, 0, L1))
for w in ("meter", "meters", "metre", "metres"):
    for p in ("kilo", "centi", "milli", "deci", "micro"):
        atom(p + w, Mag(WORD_PREFIX[p], 0, L1))
atom("Micrometre|Micrometres|micron|microns", Mag(F("1e-6"), 0, L1))
prefixable("m", Mag(1, 0, L1), "kcdmμun")
atom("nmi|NM|nautical_mile|nautical_miles", Mag(nmi, 0, L1))
atom("mi|mile|miles", Mag(mile, 0, L1))
atom("yd|yard|yards", Mag(yd, 0, L1))
atom("ft|foot|feet", Mag(ft, 0, L1))
atom("in|inch|inches", Mag(inch, 0, L1))
atom("mil|mils|milin|milliinch|milliinches|millinch|thou|thous|thousandth|thousandths", Mag(inch / 1000, 0, L1))
atom("μin|uin|microinch|microinches", Mag(inch / 10 ** 6, 0, L1))
# time
atom("s|second|seconds", Mag(1, 0, T1))
prefixable("s", Mag(1, 0, T1), "nμum")
atom("nanosecond|nanoseconds", Mag(F("1e-9"), 0, T1))
atom("microsecond|microseconds", Mag(F("1e-6"), 0, T1))
atom("millisecond|milliseconds", Mag(F("1e-3"), 0, T1))
atom("min|mins|minute|minutes", Mag(60, 0, T1))
atom("hr|hrs|hour|hours", Mag(3600, 0, T1))
# mass
atom("kg", Mag(1, 0, M1))
atom("g", Mag(F("1e-3"), 0, M1))
prefixable("g", Mag(F("1e-3"), 0, M1), "")
atom("lbm", Mag(lb, 0, M1))
atom("slug", Mag(lbf / ft, 0, M1))
atom("slinch", Mag(lbf / inch, 0, M1))
# force
prefixable("N", Mag(1, 0, FORCE), "kMGmμun")
atom("N", Mag(1, 0, FORCE))
atom("dyn", Mag(F("1e-5"), 0, FORCE))
atom("lbf", Mag(lbf, 0, FORCE))
atom("lb", Mag(lbf, 0, FORCE))
atom("lb", Mag(lb, 0, M1), primary=False)
# pressure
atom("Pa", Mag(1, 0, PRESS))
prefixable("Pa", Mag(1, 0, PRESS), "kMG")
atom("bar", Mag(F("1e5"), 0, PRESS))
atom("atm|atmosphere", Mag(101325, 0, PRESS))
atom("psi", Mag(lbf / inch ** 2, 0, PRESS))
atom("psf", Mag(lbf / ft ** 2, 0, PRESS))
atom("P", Mag(F("0.1"), 0, dims(T=-1, L=-1, M=1)))
# energy, power
atom("J", Mag(1, 0, ENERGY))
prefixable("J", Mag(1, 0, ENERGY), "mμunkMG")
atom("cal", Mag(cal, 0, ENERGY))
prefixable("cal", Mag(cal, 0, ENERGY), "mμunkMG")
atom("Cal", Mag(cal * 1000, 0, ENERGY))
atom("BTU|btu", Mag(btu, 0, ENERGY))
atom("eV", Mag(e_ch, 0, ENERGY))
prefixable("eV", Mag(e_ch, 0, ENERGY), "mμunkMG")
atom("W", Mag(1, 0, POWER))
prefixable("W", Mag(1, 0, POWER), "mμunkMG")
# electricity
atom("A", Mag(1, 0, dims(I=1)))
prefixable("A", Mag(1, 0, dims(I=1)), "kMGTmμun")
atom("C", Mag(1, 0, CHARGE))
prefixable("C", Mag(1, 0, CHARGE), "kMGTmμun")
atom("e", Mag(e_ch, 0, CHARGE))
# frequency
atom("Hz", Mag(1, 0, dims(T=-1)))
prefixable("Hz", Mag(1, 0, dims(T=-1)), "kMG")
# temperature (as a *scale factor*; offsets are handled by affine() below)
atom("K|°K|degK", Mag(1, 0, TEMP))
atom("°C|degC", Mag(1, 0, TEMP))
atom("°R|degR", Mag(F(5, 9), 0, TEMP))
atom("°F|degF", Mag(F(5, 9), 0, TEMP))
atom("C", Mag(1, 0, TEMP), primary=False)
atom("R", Mag(F(5, 9), 0, TEMP))
atom("F", Mag(F(5, 9), 0, TEMP))
# amount
atom("mol", Mag(1, 0, dims(N=1)))
prefixable("mol", Mag(1, 0, dims(N=1)), "kMG")
atom("particles", Mag(1 / N_A, 0, dims(N=1)))
# angle
atom("rad|radian|radians", Mag(1))
atom("deg|degree|degrees|°", Mag(F(1, 180), 1))
atom("arcmin|arcminute|arcminutes|am|'", Mag(F(1, 10800), 1))
atom("arcsec|arcsecond|arcseconds|as|arcs|\"", Mag(F(1, 648000), 1))
atom("rev|revolution|revolutions", Mag(2, 1))
atom("sr", Mag(1))
# area, volume
atom("ha", Mag(10 ** 4, 0, dims(L=2)))
atom("ac", Mag(4840 * yd ** 2, 0, dims(L=2)))
atom("L", Mag(F("1e-3"), 0, dims(L=3)))
prefixable("L", Mag(F("1e-3"), 0, dims(L=3)), "")
atom("mL", Mag(F("1e-6"), 0, dims(L=3)))
# information
atom("b|bit|bits", Mag(1))
atom("B|byte|bytes", Mag(8))
for sym, f in list(SI.items()) + list(IEC.items()):
    if sym in ("k", "M", "G", "T", "P") or sym in IEC:
        atom(sym + "b", Mag(f))
        atom(sym + "B", Mag(8 * f))
for wp in ("kilo", "mega", "giga", "tera", "peta", "kibi", "mebi", "gibi", "tebi", "pebi"):
    for w, m in (("bit", 1), ("bits", 1), ("byte", 8), ("bytes", 8)):
        atom(wp + w, Mag(WORD_PREFIX[wp] * m))
# speed
atom("kn|knot|knots", Mag(nmi / 3600, 0, dims(T=-1, L=1)))


class ParseError(Exception):
    pass


def atom_readings(tok):
    """All readings of one atom token (whole-atom match first, then SI prefix + prefixable atom)."""
    if tok in ATOMS:
        return list(ATOMS[tok])
    out = []
    for plen in (1,):
        p, rest = tok[:plen], tok[plen:]
        if p in SI and rest in PREFIXABLE and p in PREFIXABLE[rest][1]:
            m = PREFIXABLE[rest][0]
            out.append(Mag(m.q * SI[p], m.k, m.d))
    if out:
        return out
    # any SI prefix on any prefixable symbol, and any prefix word on a prefixable unit word (only reached by tokens
    # that have no reading above, so no existing reading changes)
    for plen in (2, 1):
        p, rest = tok[:plen], tok[plen:]
        if p in SI_ALL and rest in PREFIXABLE:
            m = PREFIXABLE[rest][0]
            return [Mag(m.q * SI_ALL[p], m.k, m.d)]
    low = tok.lower()
    for wp, f in WORD_PREFIX_ALL.items():
        if low.startswith(wp) and low[len(wp):] in PREFIXABLE_WORDS:
            sym = PREFIXABLE_WORDS[low[len(wp):]]
            m = PREFIXABLE[sym][0] if sym in PREFIXABLE else ATOMS[sym][0]
            return [Mag(m.q * f, m.k, m.d)]
    return out


_TOKEN = re.compile(r"\s*(?:(\d+)|([·*⋅\-])|(/)|(\^)|(\()|(\))|([A-Za-zμ°'\"_]+?)(?=\d|[·*⋅/^()\s\-]|$))")


def tokenize(s):
    s = s.replace("nautical miles", "nautical_miles").replace("nautical mile", "nautical_mile")
    toks = []
    i = 0
    while i < len(s):
        if s[i] == " ":
            # a space between two atoms is a product
            toks.append(("mul", " "))
            i += 1
            continue
        m = _TOKEN.match(s, i)
        if not m or m.end() == i:
            raise ParseError("cannot tokenise %r at %d" % (s, i))
        if m.group(1):
            toks.append(("int", int(m.group(1))))
        elif m.group(2):
            toks.append(("mul", m.group(2)))
        elif m.group(3):
            toks.append(("div", "/"))
        elif m.group(4):
            toks.append(("pow", "^"))
        elif m.group(5):
            toks.append(("lp", "("))
        elif m.group(6):
            toks.append(("rp", ")"))
        else:
            toks.append(("atom", m.group(7)))
        i = m.end()
    return toks


class Parser:
    """expr := ['/'] factor (('·'|'/') factor)*   (one precedence level, left-associative:
    a/b/c = a/(b c), a·b/c = (a b)/c); factor := atom [int | '^' int | '^(' int ')'] | '(' expr ')' | '1'."""

    def __init__(self, toks):
        self.t = toks
        self.i = 0
        self.ambiguous = False

    def peek(self):
        return self.t[self.i] if self.i < len(self.t) else ("eof", None)

    def next(self):
        t = self.peek()
        self.i += 1
        return t

    def expr(self):
        """Returns a list of candidate Mags."""
        k, _ = self.peek()
        if k == "div":
            self.next()
            f = self.factor()
            cur = [Mag(1) / b for b in f]
            seen_div = True
        else:
            cur = self.factor()
            seen_div = False
        while True:
            k, _ = self.peek()
            if k == "mul":
                self.next()
                if seen_div:
                    self.ambiguous = True   # a/b·c : (a/b)·c or a/(b·c)?
                f = self.factor()
                cur = [a * b for a in cur for b in f]
            elif k == "div":
                self.next()
                seen_div = True
                f = self.factor()
                cur = [a / b for a in cur for b in f]
            else:
                return cur

    def factor(self):
        k, v = self.next()
        if k == "lp":
            inner = Parser(self.t[self.i:])
            res = inner.expr()
            self.ambiguous |= inner.ambiguous
            self.i += inner.i
            if self.next()[0] != "rp":
                raise ParseError("missing )")
            base = res
        elif k == "int":
            if v != 1:
                raise ParseError("bare number %d" % v)
            base = [Mag(1)]
        elif k == "atom":
            base = atom_readings(v)
            if not base:
                raise ParseError("unknown unit atom %r" % v)
        else:
            raise ParseError("unexpected token %r" % (v,))
        k, v = self.peek()
        if k == "int":
            self.next()
            base = [b ** v for b in base]
        elif k == "pow":
            self.next()
            k2, v2 = self.next()
            if k2 == "lp":
                sign = 1
                k3, v3 = self.next()
                if k3 == "mul" and v3 == "-":
                    sign = -1
                    k3, v3 = self.next()
                if k3 != "int" or self.next()[0] != "rp":
                    raise ParseError("bad exponent")
                base = [b ** (sign * v3) for b in base]
            elif k2 == "mul" and v2 == "-":
                k3, v3 = self.next()
                if k3 != "int":
                    raise ParseError("bad exponent")
                base = [b ** (-v3) for b in base]
            elif k2 == "int":
                base = [b ** v2 for b in base]
            else:
                raise ParseError("bad exponent")
        return base


def parse(symbol, primary_only=False):
    """All readings (Mag) of a unit symbol.  Raises ParseError if some atom is unknown."""
    toks = tokenize(symbol)
    if primary_only:
        saved = {}
        # temporarily restrict to primary readings
        p = Parser(toks)
        res = _parse_primary(toks)
        return res
    p = Parser(toks)
    res = p.expr()
    if p.i != len(toks):
        raise ParseError("trailing input in %r" % symbol)
    if p.ambiguous:
        raise ParseError("ambiguous a/b·c form in %r" % symbol)
    uniq = {}
    for m in res:
        uniq[m.key()] = m
    return list(uniq.values())


def _parse_primary(toks):
    global ATOMS
    full = ATOMS
    try:
        ATOMS = {k: v[:1] for k, v in full.items()}
        p = Parser(toks)
        res = p.expr()
        if p.i != len(toks):
            raise ParseError("trailing input")
        if p.ambiguous:
            raise ParseError("ambiguous a/b·c form")
        return res
    finally:
        ATOMS = full


# offsets: value_in_K = a * value_in_unit + b, only for the *Temperature* unit type
TEMPERATURE_OFFSETS = {
    "K": Fr(0), "°K": Fr(0), "degK": Fr(0),
    "°C": F("273.15"), "degC": F("273.15"), "C": F("273.15"),
    "°R": Fr(0), "degR": Fr(0), "R": Fr(0),
    "°F": F("459.67") * F(5, 9), "degF": F("459.67") * F(5, 9), "F": F("459.67") * F(5, 9),
}


def self_check():
    """Redundant definitions that must agree (guards the oracle itself against typos). Returns a list of failures."""
    bad = []

    def eq(a, b, what):
        ra, rb = parse(a), parse(b)
        if not any(x.key() == y.key() for x in ra for y in rb):
            bad.append("%s: %s = %s but %s = %s" % (what, a, ra[0], b, rb[0]))

    def val(a, q, what):
        r = parse(a)
        if not any(x.q == Fr(q) for x in r):
            bad.append("%s: %s = %s, expected %s" % (what, a, r[0].q, q))
    val("mi", Fr(5280) * Fr("0.3048"), "mile = 5280 ft")
    val("yd", Fr(3) * Fr("0.3048"), "yard = 3 ft")
    val("in", Fr("0.3048") / 12, "inch = ft/12")
    val("ac", Fr(43560) * Fr("0.3048") ** 2, "acre = 43560 ft^2")
    eq("kn", "nmi/hr", "knot")
    eq("psi", "lbf/in^2", "psi")
    eq("psf", "lbf/ft^2", "psf")
    eq("slug", "lbf·s^2/ft", "slug")
    eq("slinch", "lbf·s^2/in", "slinch")
    val("slinch", 12 * parse("slug")[0].q, "slinch = 12 slug")
    eq("W", "J/s", "watt")
    eq("J", "N·m", "joule")
    eq("Pa", "N/m^2", "pascal")
    eq("N", "kg·m/s^2", "newton")
    eq("Hz", "/s", "hertz")
    eq("C", "A·s", "coulomb")
    eq("L", "dm^3", "litre")
    val("ha", 10000, "hectare = 100 m x 100 m")
    eq("P", "g/cm/s", "poise = g/(cm s)")
    eq("dyn", "g·cm/s^2", "dyne")
    val("hm", 100, "hectometre")
    val("dam", 10, "decametre")
    val("mg", Fr("1e-6"), "milligram in kg")
    eq("hectometres", "hm", "hectometre spelled out")
    eq("dL", "hm·mm^2", "decilitre = 100 m x 1 mm x 1 mm")
    val("kiB", 8 * 1024, "kiB = 8192 bit")
    val("MiB", 8 * 1024 ** 2, "MiB")
    val("kB", 8000, "kB = 8000 bit")
    val("BTU", Fr("1055.05585262"), "BTU_IT = 1055.05585262 J")
    val("eV", Fr("1.602176634e-19"), "eV")
    val("rev", 2, "revolution = 2 pi")   # coefficient of pi
    if parse("arcmin")[0].q * 60 != parse("deg")[0].q:
        bad.append("arcminute is not deg/60")
    if parse("arcsec")[0].q * 60 != parse("arcmin")[0].q:
        bad.append("arcsecond is not arcmin/60")
    if parse("°R")[0].q * 9 != 5 or parse("°F")[0].q * 9 != 5:
        bad.append("Rankine/Fahrenheit degree is not 5/9 K")
    # 32 degF = 0 degC, 212 degF = 100 degC
    if (32 + Fr("459.67")) * Fr(5, 9) != Fr("273.15") or (212 + Fr("459.67")) * Fr(5, 9) != Fr("373.15"):
        bad.append("Fahrenheit / Celsius fixed points disagree")
    return bad
