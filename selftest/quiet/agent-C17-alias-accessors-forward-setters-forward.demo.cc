// Differential demo for the C17q refactor: Vector / SymmetricDyad accessors, mutators, Zero(),
// converting assignment, and the quantity types stored on top of them.
#include <PhQ/Direction.hpp>
#include <PhQ/Position.hpp>
#include <PhQ/Strain.hpp>
#include <PhQ/Stress.hpp>
#include <PhQ/SymmetricDyad.hpp>
#include <PhQ/Vector.hpp>
#include <PhQ/Velocity.hpp>

#include <array>
#include <cmath>
#include <cstdint>
#include <cstdio>
#include <cstring>
#include <limits>
#include <random>
#include <string>
#include <type_traits>
#include <vector>

template <typename T>
const char* Name();
template <>
const char* Name<float>() {
  return "float";
}
template <>
const char* Name<double>() {
  return "double";
}
template <>
const char* Name<long double>() {
  return "long double";
}

template <typename T>
void P(const T v) {
  std::printf(" %La", static_cast<long double>(v));
}

template <typename T>
void PV(const PhQ::Vector<T>& v) {
  P(v.x());
  P(v.y());
  P(v.z());
  for (const T c : v.x_y_z()) {
    P(c);
  }
  std::printf("\n");
}

template <typename T>
void PS(const PhQ::SymmetricDyad<T>& s) {
  P(s.xx());
  P(s.xy());
  P(s.xz());
  P(s.yx());
  P(s.yy());
  P(s.yz());
  P(s.zx());
  P(s.zy());
  P(s.zz());
  for (const T c : s.xx_xy_xz_yy_yz_zz()) {
    P(c);
  }
  std::printf("\n");
}

// Raw bytes of the leading N numbers (long double padding bytes are skipped: only the 10 value
// bytes of each x87 number are printed).
template <typename T, typename Q>
void Bytes(const Q& q, const std::size_t n) {
  static_assert(std::is_trivially_copyable<Q>::value, "");
  unsigned char buffer[sizeof(Q)];
  std::memcpy(buffer, &q, sizeof(Q));
  const std::size_t used = std::is_same<T, long double>::value ? 10 : sizeof(T);
  for (std::size_t i = 0; i < n; ++i) {
    for (std::size_t b = 0; b < used; ++b) {
      std::printf("%02x", buffer[i * sizeof(T) + b]);
    }
    std::printf(" ");
  }
  std::printf("\n");
}

template <typename T>
std::vector<T> Samples(std::mt19937_64& rng) {
  using L = std::numeric_limits<T>;
  std::vector<T> s{static_cast<T>(0),
                   -static_cast<T>(0),
                   static_cast<T>(1),
                   static_cast<T>(-1),
                   L::min(),
                   -L::min(),
                   L::denorm_min(),
                   -L::denorm_min(),
                   L::max(),
                   L::lowest(),
                   L::epsilon(),
                   L::infinity(),
                   -L::infinity(),
                   L::quiet_NaN(),
                   static_cast<T>(0.1L),
                   static_cast<T>(-3.3333333333333333333L),
                   static_cast<T>(1.0e-30L),
                   static_cast<T>(1.0e30L)};
  std::uniform_real_distribution<long double> mantissa(-1.0L, 1.0L);
  std::uniform_int_distribution<int> exponent(-60, 60);
  for (int i = 0; i < 200; ++i) {
    s.push_back(static_cast<T>(std::ldexp(mantissa(rng), exponent(rng))));
  }
  return s;
}

template <typename T, typename U>
void Cross(const std::vector<U>& other_samples, std::mt19937_64& rng) {
  // Converting assignment and converting construction from another numeric type.
  std::uniform_int_distribution<std::size_t> pick(0, other_samples.size() - 1);
  for (int i = 0; i < 150; ++i) {
    const PhQ::Vector<U> v{other_samples[pick(rng)], other_samples[pick(rng)],
                           other_samples[pick(rng)]};
    PhQ::Vector<T> a{static_cast<T>(7), static_cast<T>(8), static_cast<T>(9)};
    a = v;
    PV(a);
    const PhQ::Vector<T> b{v};
    PV(b);
    PhQ::Position<T> position{
      {static_cast<T>(1), static_cast<T>(2), static_cast<T>(3)},
      PhQ::Unit::Length::Metre
    };
    position = PhQ::Position<U>{v, PhQ::Unit::Length::Metre};
    PV(position.Value());

    const PhQ::SymmetricDyad<U> s{other_samples[pick(rng)], other_samples[pick(rng)],
                                  other_samples[pick(rng)], other_samples[pick(rng)],
                                  other_samples[pick(rng)], other_samples[pick(rng)]};
    PhQ::SymmetricDyad<T> c{static_cast<T>(1), static_cast<T>(2), static_cast<T>(3),
                            static_cast<T>(4), static_cast<T>(5), static_cast<T>(6)};
    c = s;
    PS(c);
    const PhQ::SymmetricDyad<T> d{s};
    PS(d);
    PhQ::Strain<T> strain{static_cast<T>(1), static_cast<T>(2), static_cast<T>(3),
                          static_cast<T>(4), static_cast<T>(5), static_cast<T>(6)};
    strain = PhQ::Strain<U>{s};
    PS(strain.Value());
    PhQ::Stress<T> stress = PhQ::Stress<T>::Zero();
    stress = PhQ::Stress<U>{s, PhQ::Unit::Pressure::Pascal};
    PS(stress.Value());
  }
}

template <typename T>
void Run() {
  std::printf("==== %s ====\n", Name<T>());
  static_assert(sizeof(PhQ::Vector<T>) == 3 * sizeof(T), "");
  static_assert(sizeof(PhQ::SymmetricDyad<T>) == 6 * sizeof(T), "");
  static_assert(sizeof(PhQ::Position<T>) == 3 * sizeof(T), "");
  static_assert(sizeof(PhQ::Stress<T>) == 6 * sizeof(T), "");
  static_assert(std::is_trivially_copyable<PhQ::Vector<T>>::value, "");
  static_assert(std::is_trivially_copyable<PhQ::SymmetricDyad<T>>::value, "");
  static_assert(std::is_standard_layout<PhQ::Vector<T>>::value, "");
  static_assert(std::is_standard_layout<PhQ::SymmetricDyad<T>>::value, "");
  static_assert(std::is_trivially_copyable<PhQ::Stress<T>>::value, "");
  static_assert(std::is_standard_layout<PhQ::Stress<T>>::value, "");
  std::printf("sizes %zu %zu %zu %zu %zu %zu %zu\n", sizeof(PhQ::Vector<T>),
              sizeof(PhQ::SymmetricDyad<T>), sizeof(PhQ::Position<T>), sizeof(PhQ::Velocity<T>),
              sizeof(PhQ::Stress<T>), sizeof(PhQ::Strain<T>), sizeof(PhQ::Direction<T>));

  // Zero(): evaluated both at compile time and at run time; raw bytes show the sign of zero.
  constexpr PhQ::Vector<T> zero_vector = PhQ::Vector<T>::Zero();
  constexpr PhQ::SymmetricDyad<T> zero_dyad = PhQ::SymmetricDyad<T>::Zero();
  static_assert(zero_vector.x() == 0 && zero_vector.y() == 0 && zero_vector.z() == 0, "");
  static_assert(zero_dyad.yx() == 0 && zero_dyad.zx() == 0 && zero_dyad.zy() == 0, "");
  PV(zero_vector);
  Bytes<T>(zero_vector, 3);
  PS(zero_dyad);
  Bytes<T>(zero_dyad, 6);
  const auto runtime_zero_vector = PhQ::Vector<T>::Zero();
  const auto runtime_zero_dyad = PhQ::SymmetricDyad<T>::Zero();
  Bytes<T>(runtime_zero_vector, 3);
  Bytes<T>(runtime_zero_dyad, 6);
  Bytes<T>(PhQ::Position<T>::Zero(), 3);
  Bytes<T>(PhQ::Velocity<T>::Zero(), 3);
  Bytes<T>(PhQ::Direction<T>::Zero(), 3);
  Bytes<T>(PhQ::Direction<T>{}, 3);
  Bytes<T>(PhQ::Stress<T>::Zero(), 6);
  Bytes<T>(PhQ::Strain<T>::Zero(), 6);
  std::printf("%s|%s|%s|%s\n", PhQ::Position<T>::Zero().Print().c_str(),
              PhQ::Stress<T>::Zero().JSON().c_str(), PhQ::Strain<T>::Zero().YAML().c_str(),
              PhQ::Velocity<T>::Zero().XML().c_str());

  // Constant evaluation of the mutators.
  struct Helper {
    static constexpr PhQ::SymmetricDyad<T> Build() {
      PhQ::SymmetricDyad<T> s = PhQ::SymmetricDyad<T>::Zero();
      s.Set_xx_xy_xz_yy_yz_zz(static_cast<T>(1), static_cast<T>(2), static_cast<T>(3),
                              static_cast<T>(4), static_cast<T>(5), static_cast<T>(6));
      s.Set_yx(static_cast<T>(-2));
      s.Mutable_zx() = static_cast<T>(-3);
      s.Set_zy(s.zy() + s.yx());
      return s;
    }
    static constexpr PhQ::Vector<T> BuildVector() {
      PhQ::Vector<T> v = PhQ::Vector<T>::Zero();
      v.Set_x_y_z(static_cast<T>(1), static_cast<T>(-2), static_cast<T>(3));
      v.Mutable_y() = v.z();
      return v;
    }
  };
  constexpr PhQ::SymmetricDyad<T> built = Helper::Build();
  constexpr PhQ::Vector<T> built_vector = Helper::BuildVector();
  PS(built);
  PV(built_vector);

  std::mt19937_64 rng(20260926);
  const std::vector<T> samples = Samples<T>(rng);
  std::uniform_int_distribution<std::size_t> pick(0, samples.size() - 1);

  // Every sample through every single-component mutator/accessor path.
  for (const T value : samples) {
    PhQ::Vector<T> v = PhQ::Vector<T>::Zero();
    v.Set_x(value);
    PV(v);
    v.Set_y(value);
    PV(v);
    v.Set_z(value);
    PV(v);
    v.Set_x_y_z(value, -value, value);
    PV(v);
    Bytes<T>(v, 3);
    v.Set_x_y_z(std::array<T, 3>{-value, value, -value});
    PV(v);
    v.Mutable_x() = value;
    v.Mutable_y() = v.x();
    v.Mutable_z() = v.y();
    PV(v);
    v.Mutable_x_y_z()[1] = static_cast<T>(4);
    PV(v);
    v = std::array<T, 3>{value, value, -value};
    PV(v);

    PhQ::SymmetricDyad<T> s = PhQ::SymmetricDyad<T>::Zero();
    s.Set_xx(value);
    PS(s);
    s.Set_xy(value);
    PS(s);
    s.Set_xz(value);
    PS(s);
    s.Set_yy(value);
    PS(s);
    s.Set_yz(value);
    PS(s);
    s.Set_zz(value);
    PS(s);
    s = PhQ::SymmetricDyad<T>::Zero();
    s.Set_yx(value);
    PS(s);
    s.Set_zx(-value);
    PS(s);
    s.Set_zy(value);
    PS(s);
    Bytes<T>(s, 6);
    s = PhQ::SymmetricDyad<T>::Zero();
    s.Mutable_yx() = value;
    PS(s);
    s.Mutable_zx() = -value;
    PS(s);
    s.Mutable_zy() = value;
    PS(s);
    s.Mutable_xx() = s.yx();
    s.Mutable_yy() = s.zx();
    s.Mutable_zz() = s.zy();
    PS(s);
    s.Mutable_xy() = static_cast<T>(2);
    s.Mutable_xz() = static_cast<T>(3);
    s.Mutable_yz() = static_cast<T>(5);
    PS(s);
    std::printf("%d %d %d\n", &s.Mutable_yx() == &s.Mutable_xy(), &s.Mutable_zx() == &s.Mutable_xz(),
                &s.Mutable_zy() == &s.Mutable_yz());
    s.Set_xx_xy_xz_yy_yz_zz(value, -value, value, -value, value, -value);
    PS(s);
    Bytes<T>(s, 6);
    s.Set_xx_xy_xz_yy_yz_zz(std::array<T, 6>{-value, value, -value, value, -value, value});
    PS(s);
    s.Mutable_xx_xy_xz_yy_yz_zz()[3] = static_cast<T>(9);
    PS(s);
    s = std::array<T, 6>{value, value, value, -value, -value, -value};
    PS(s);
  }

  // Random combinations, including the derived results that read the symmetric accessors.
  for (int i = 0; i < 400; ++i) {
    const T a = samples[pick(rng)], b = samples[pick(rng)], c = samples[pick(rng)],
            d = samples[pick(rng)], e = samples[pick(rng)], f = samples[pick(rng)];
    PhQ::Vector<T> v;
    v.Set_x_y_z(a, b, c);
    PV(v);
    P(v.MagnitudeSquared());
    P(v.Dot(PhQ::Vector<T>{d, e, f}));
    PV(v.Cross(PhQ::Vector<T>{d, e, f}));
    std::printf("%s %s\n", v.Print().c_str(), v.JSON().c_str());

    PhQ::SymmetricDyad<T> s;
    s.Set_xx_xy_xz_yy_yz_zz(a, b, c, d, e, f);
    PS(s);
    P(s.Trace());
    P(s.Determinant());
    PS(s.Cofactors());
    PS(s.Adjugate());
    const auto inverse = s.Inverse();
    if (inverse.has_value()) {
      PS(inverse.value());
    } else {
      std::printf("no inverse\n");
    }
    PV(s * v);
    PS(s + s);
    PS(s * static_cast<T>(3));
    std::printf("%s %s %s %s\n", s.Print().c_str(), s.JSON().c_str(), s.XML().c_str(),
                s.YAML().c_str());
    std::printf("%d %d %d\n", s == s, s != s, s < PhQ::SymmetricDyad<T>::Zero());

    // Quantities stored on top of these shapes.
    PhQ::Position<T> position{v, PhQ::Unit::Length::Foot};
    PV(position.Value());
    PV(position.Value(PhQ::Unit::Length::Inch));
    P(position.x().Value());
    P(position.y().Value());
    P(position.z().Value());
    position.SetValue(PhQ::Vector<T>{d, e, f});
    PV(position.Value());
    position.MutableValue().Set_x_y_z(f, e, d);
    PV(position.Value());
    Bytes<T>(position, 3);
    std::printf("%s\n", position.Print(PhQ::Unit::Length::Millimetre).c_str());

    PhQ::Stress<T> stress{s, PhQ::Unit::Pressure::PoundPerSquareInch};
    PS(stress.Value());
    PS(stress.Value(PhQ::Unit::Pressure::Kilopascal));
    P(stress.yx().Value());
    P(stress.zx().Value());
    P(stress.zy().Value());
    P(stress.xy().Value());
    P(stress.xz().Value());
    P(stress.yz().Value());
    P(stress.VonMises().Value());
    std::printf("\n");
    stress.MutableValue().Set_zy(a);
    stress.MutableValue().Mutable_yx() = b;
    PS(stress.Value());
    stress.SetValue(s);
    Bytes<T>(stress, 6);
    std::printf("%s\n", stress.JSON(PhQ::Unit::Pressure::Megapascal).c_str());

    PhQ::Strain<T> strain{a, b, c, d, e, f};
    PS(strain.Value());
    P(strain.yx().Value());
    P(strain.zx().Value());
    P(strain.zy().Value());
    std::printf("\n");
    strain.MutableValue().Set_xx_xy_xz_yy_yz_zz(f, e, d, c, b, a);
    PS(strain.Value());
    Bytes<T>(strain, 6);
  }

  // Arrays of quantities handled as arrays of numbers.
  {
    std::array<PhQ::Stress<T>, 4> stresses;
    std::array<PhQ::Position<T>, 4> positions;
    for (std::size_t i = 0; i < 4; ++i) {
      stresses[i] = PhQ::Stress<T>::Zero();
      stresses[i].MutableValue().Set_xx_xy_xz_yy_yz_zz(
          samples[20 + i], samples[30 + i], samples[40 + i], samples[50 + i], samples[60 + i],
          samples[70 + i]);
      positions[i] = PhQ::Position<T>::Zero();
      positions[i].MutableValue().Set_x_y_z(samples[80 + i], samples[90 + i], samples[100 + i]);
    }
    T raw_stress[24];
    T raw_position[12];
    static_assert(sizeof(raw_stress) == sizeof(stresses), "");
    static_assert(sizeof(raw_position) == sizeof(positions), "");
    std::memcpy(raw_stress, stresses.data(), sizeof(raw_stress));
    std::memcpy(raw_position, positions.data(), sizeof(raw_position));
    for (const T x : raw_stress) {
      P(x);
    }
    std::printf("\n");
    for (const T x : raw_position) {
      P(x);
    }
    std::printf("\n");
  }

  Cross<T, float>(Samples<float>(rng), rng);
  Cross<T, double>(Samples<double>(rng), rng);
  Cross<T, long double>(Samples<long double>(rng), rng);
}

int main() {
  Run<float>();
  Run<double>();
  Run<long double>();
  return 0;
}
