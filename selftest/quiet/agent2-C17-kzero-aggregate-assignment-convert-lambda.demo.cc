// Differential program for the C17r refactor: Zero(), multi-component setters, converting
// assignment operators and Dyad = SymmetricDyad of the four value classes, plus the quantity
// types that are layered on top of them.
#include <PhQ/Direction.hpp>
#include <PhQ/Displacement.hpp>
#include <PhQ/DisplacementGradient.hpp>
#include <PhQ/Dyad.hpp>
#include <PhQ/Force.hpp>
#include <PhQ/PlanarDirection.hpp>
#include <PhQ/PlanarForce.hpp>
#include <PhQ/PlanarVector.hpp>
#include <PhQ/PlanarVelocity.hpp>
#include <PhQ/Strain.hpp>
#include <PhQ/Stress.hpp>
#include <PhQ/SymmetricDyad.hpp>
#include <PhQ/Time.hpp>
#include <PhQ/Vector.hpp>
#include <PhQ/Velocity.hpp>
#include <PhQ/VelocityGradient.hpp>

#include <array>
#include <cmath>
#include <cstdint>
#include <cstdio>
#include <cstring>
#include <limits>
#include <random>
#include <type_traits>
#include <vector>

namespace {

template <typename T>
const char* Name();
template <>
const char* Name<float>() {
  return "float";
}
template <>
const char* Name<double>() {
  return "double";
}
template <>
const char* Name<long double>() {
  return "long double";
}

template <typename T>
void PrintNumber(const T value) {
  std::printf(" %La[%d]", static_cast<long double>(value), std::signbit(value) ? 1 : 0);
}

template <typename T, std::size_t N>
void PrintArray(const char* label, const std::array<T, N>& values) {
  std::printf("%s<%s>:", label, Name<T>());
  for (const T value : values) {
    PrintNumber(value);
  }
  std::printf("\n");
}

// Prints the object representation of an object as numbers of type T: this is what the property
// is about (quantities are bare numbers in memory).
template <typename T, typename Object>
void PrintRaw(const char* label, const Object& object) {
  static_assert(sizeof(Object) % sizeof(T) == 0);
  static_assert(std::is_trivially_copyable<Object>::value);
  static_assert(std::is_standard_layout<Object>::value);
  constexpr std::size_t count = sizeof(Object) / sizeof(T);
  std::array<T, count> numbers;
  std::memcpy(numbers.data(), &object, sizeof(Object));
  std::printf("%s<%s> raw(%zu):", label, Name<T>(), count);
  for (const T value : numbers) {
    PrintNumber(value);
  }
  std::printf("\n");
}

template <typename T>
std::vector<T> Samples() {
  std::vector<T> samples{
    static_cast<T>(0),
    -static_cast<T>(0),
    static_cast<T>(1),
    static_cast<T>(-1),
    static_cast<T>(0.1L),
    static_cast<T>(-1.0L / 3.0L),
    std::numeric_limits<T>::min(),
    -std::numeric_limits<T>::min(),
    std::numeric_limits<T>::denorm_min(),
    -std::numeric_limits<T>::denorm_min(),
    std::numeric_limits<T>::max(),
    std::numeric_limits<T>::lowest(),
    std::numeric_limits<T>::epsilon(),
    std::numeric_limits<T>::infinity(),
    -std::numeric_limits<T>::infinity(),
    static_cast<T>(3.141592653589793238462643383279502884L),
    static_cast<T>(1.0e30L),
    static_cast<T>(-1.0e-30L),
    static_cast<T>(123456789.987654321L),
  };
  std::mt19937_64 generator(20240917U + sizeof(T));
  std::uniform_real_distribution<long double> mantissa(-1.0L, 1.0L);
  std::uniform_int_distribution<int> exponent(-60, 60);
  for (int index = 0; index < 200; ++index) {
    samples.push_back(static_cast<T>(std::ldexp(mantissa(generator), exponent(generator))));
  }
  // Values that are only representable in the wider types, so that conversions round or overflow.
  if (sizeof(T) > sizeof(float)) {
    samples.push_back(static_cast<T>(1.0e300L));
    samples.push_back(static_cast<T>(-1.0e-320L));
    samples.push_back(static_cast<T>(1.0L + 1.0e-12L));
  }
  if (sizeof(T) > sizeof(double)) {
    samples.push_back(static_cast<T>(1.0e4000L));
    samples.push_back(static_cast<T>(-1.0e-4900L));
    samples.push_back(static_cast<T>(1.0L + 1.0e-18L));
  }
  return samples;
}

template <typename T>
void StaticFacts() {
  std::printf(
      "static<%s>: %zu %zu %zu %zu | %zu %zu %zu %zu %zu %zu %zu %zu %zu %zu | %d %d %d %d %d %d %d "
      "%d\n",
      Name<T>(), sizeof(PhQ::PlanarVector<T>) / sizeof(T), sizeof(PhQ::Vector<T>) / sizeof(T),
      sizeof(PhQ::SymmetricDyad<T>) / sizeof(T), sizeof(PhQ::Dyad<T>) / sizeof(T),
      sizeof(PhQ::Time<T>) / sizeof(T), sizeof(PhQ::PlanarForce<T>) / sizeof(T),
      sizeof(PhQ::Force<T>) / sizeof(T), sizeof(PhQ::Stress<T>) / sizeof(T),
      sizeof(PhQ::Strain<T>) / sizeof(T), sizeof(PhQ::VelocityGradient<T>) / sizeof(T),
      sizeof(PhQ::DisplacementGradient<T>) / sizeof(T), sizeof(PhQ::Direction<T>) / sizeof(T),
      sizeof(PhQ::PlanarDirection<T>) / sizeof(T), sizeof(PhQ::Velocity<T>) / sizeof(T),
      static_cast<int>(std::is_trivially_copyable<PhQ::PlanarVector<T>>::value),
      static_cast<int>(std::is_trivially_copyable<PhQ::Vector<T>>::value),
      static_cast<int>(std::is_trivially_copyable<PhQ::SymmetricDyad<T>>::value),
      static_cast<int>(std::is_trivially_copyable<PhQ::Dyad<T>>::value),
      static_cast<int>(std::is_standard_layout<PhQ::PlanarVector<T>>::value),
      static_cast<int>(std::is_standard_layout<PhQ::Vector<T>>::value),
      static_cast<int>(std::is_standard_layout<PhQ::SymmetricDyad<T>>::value),
      static_cast<int>(std::is_standard_layout<PhQ::Dyad<T>>::value));
  static_assert(sizeof(PhQ::PlanarVector<T>) == 2 * sizeof(T));
  static_assert(sizeof(PhQ::Vector<T>) == 3 * sizeof(T));
  static_assert(sizeof(PhQ::SymmetricDyad<T>) == 6 * sizeof(T));
  static_assert(sizeof(PhQ::Dyad<T>) == 9 * sizeof(T));
  static_assert(std::is_trivially_copyable<PhQ::Stress<T>>::value);
  static_assert(std::is_standard_layout<PhQ::VelocityGradient<T>>::value);
}

// The refactored functions are constexpr: they have to stay usable in constant expressions.
template <typename T>
constexpr T ConstexprChecks() {
  PhQ::PlanarVector<T> planar_vector = PhQ::PlanarVector<T>::Zero();
  planar_vector.Set_x_y(static_cast<T>(1), static_cast<T>(2));
  PhQ::Vector<T> vector = PhQ::Vector<T>::Zero();
  vector.Set_x_y_z(static_cast<T>(3), static_cast<T>(4), static_cast<T>(5));
  PhQ::SymmetricDyad<T> symmetric_dyad = PhQ::SymmetricDyad<T>::Zero();
  symmetric_dyad.Set_xx_xy_xz_yy_yz_zz(static_cast<T>(6), static_cast<T>(7), static_cast<T>(8),
                                       static_cast<T>(9), static_cast<T>(10), static_cast<T>(11));
  PhQ::Dyad<T> dyad = PhQ::Dyad<T>::Zero();
  dyad.Set_xx_xy_xz_yx_yy_yz_zx_zy_zz(
      static_cast<T>(12), static_cast<T>(13), static_cast<T>(14), static_cast<T>(15),
      static_cast<T>(16), static_cast<T>(17), static_cast<T>(18), static_cast<T>(19),
      static_cast<T>(20));
  T sum = planar_vector.x() + planar_vector.y() + vector.x() + vector.y() + vector.z()
          + symmetric_dyad.xx() + symmetric_dyad.zy() + dyad.zx() + dyad.zz();
  dyad = symmetric_dyad;
  sum = sum + dyad.yx() + dyad.zx() + dyad.zy();
  PhQ::PlanarVector<float> planar_vector_float{};
  planar_vector_float = planar_vector;
  PhQ::Vector<long double> vector_long_double{};
  vector_long_double = vector;
  PhQ::SymmetricDyad<float> symmetric_dyad_float{};
  symmetric_dyad_float = symmetric_dyad;
  PhQ::Dyad<double> dyad_double{};
  dyad_double = dyad;
  sum = sum + static_cast<T>(planar_vector_float.y()) + static_cast<T>(vector_long_double.z())
        + static_cast<T>(symmetric_dyad_float.yz()) + static_cast<T>(dyad_double.zy());
  return sum;
}

template <typename T>
void ZeroChecks() {
  PrintArray("PlanarVector::Zero", PhQ::PlanarVector<T>::Zero().x_y());
  PrintArray("Vector::Zero", PhQ::Vector<T>::Zero().x_y_z());
  PrintArray("SymmetricDyad::Zero", PhQ::SymmetricDyad<T>::Zero().xx_xy_xz_yy_yz_zz());
  PrintArray("Dyad::Zero", PhQ::Dyad<T>::Zero().xx_xy_xz_yx_yy_yz_zx_zy_zz());
  PrintRaw<T>("PlanarVector::Zero", PhQ::PlanarVector<T>::Zero());
  PrintRaw<T>("Vector::Zero", PhQ::Vector<T>::Zero());
  PrintRaw<T>("SymmetricDyad::Zero", PhQ::SymmetricDyad<T>::Zero());
  PrintRaw<T>("Dyad::Zero", PhQ::Dyad<T>::Zero());
  PrintRaw<T>("Time::Zero", PhQ::Time<T>::Zero());
  PrintRaw<T>("PlanarForce::Zero", PhQ::PlanarForce<T>::Zero());
  PrintRaw<T>("PlanarVelocity::Zero", PhQ::PlanarVelocity<T>::Zero());
  PrintRaw<T>("Force::Zero", PhQ::Force<T>::Zero());
  PrintRaw<T>("Velocity::Zero", PhQ::Velocity<T>::Zero());
  PrintRaw<T>("Displacement::Zero", PhQ::Displacement<T>::Zero());
  PrintRaw<T>("Stress::Zero", PhQ::Stress<T>::Zero());
  PrintRaw<T>("Strain::Zero", PhQ::Strain<T>::Zero());
  PrintRaw<T>("VelocityGradient::Zero", PhQ::VelocityGradient<T>::Zero());
  PrintRaw<T>("DisplacementGradient::Zero", PhQ::DisplacementGradient<T>::Zero());
  PrintRaw<T>("Direction::Zero", PhQ::Direction<T>::Zero());
  PrintRaw<T>("PlanarDirection::Zero", PhQ::PlanarDirection<T>::Zero());
  PrintRaw<T>("Direction()", PhQ::Direction<T>{});
  // Setting a direction from zero components goes through Vector<>::Zero() and through the
  // converting assignment operator.
  PhQ::Direction<T> direction{static_cast<T>(1), static_cast<T>(-2), static_cast<T>(3)};
  PrintRaw<T>("Direction(1,-2,3)", direction);
  direction.Set(static_cast<T>(0), -static_cast<T>(0), static_cast<T>(0));
  PrintRaw<T>("Direction.Set(0,-0,0)", direction);
  direction.Set(std::array<T, 3>{-static_cast<T>(0), -static_cast<T>(0), -static_cast<T>(0)});
  PrintRaw<T>("Direction.Set({-0,-0,-0})", direction);
  PhQ::PlanarDirection<T> planar_direction{static_cast<T>(-4), static_cast<T>(3)};
  PrintRaw<T>("PlanarDirection(-4,3)", planar_direction);
  planar_direction.Set(-static_cast<T>(0), static_cast<T>(0));
  PrintRaw<T>("PlanarDirection.Set(-0,0)", planar_direction);
  planar_direction.Set(std::array<T, 2>{-static_cast<T>(0), -static_cast<T>(0)});
  PrintRaw<T>("PlanarDirection.Set({-0,-0})", planar_direction);
}

template <typename T>
void SetterChecks() {
  const std::vector<T> samples = Samples<T>();
  const std::size_t count = samples.size();
  for (std::size_t index = 0; index < count; ++index) {
    const auto at = [&](const std::size_t offset) {
      return samples[(index * 7 + offset * 13) % count];
    };
    // Start from a recognisable pattern so that a component that is not written shows up.
    PhQ::PlanarVector<T> planar_vector{static_cast<T>(-77), static_cast<T>(-78)};
    planar_vector.Set_x_y(at(0), at(1));
    PrintRaw<T>("PlanarVector.Set_x_y", planar_vector);
    planar_vector.Set_x_y(planar_vector.y(), planar_vector.x());
    PrintRaw<T>("PlanarVector.Set_x_y(swap)", planar_vector);
    planar_vector.Mutable_x() = at(2);
    planar_vector.Set_y(at(3));
    PrintArray("PlanarVector.x_y", planar_vector.x_y());

    PhQ::Vector<T> vector{static_cast<T>(-77), static_cast<T>(-78), static_cast<T>(-79)};
    vector.Set_x_y_z(at(0), at(1), at(2));
    PrintRaw<T>("Vector.Set_x_y_z", vector);
    vector.Set_x_y_z(vector.z(), vector.x(), vector.y());
    PrintRaw<T>("Vector.Set_x_y_z(rotate)", vector);
    vector.Mutable_y() = at(3);
    vector.Set_z(at(4));
    vector.Mutable_x_y_z()[0] = at(5);
    PrintArray("Vector.x_y_z", vector.x_y_z());

    PhQ::SymmetricDyad<T> symmetric_dyad{static_cast<T>(-71), static_cast<T>(-72),
                                         static_cast<T>(-73), static_cast<T>(-74),
                                         static_cast<T>(-75), static_cast<T>(-76)};
    symmetric_dyad.Set_xx_xy_xz_yy_yz_zz(at(0), at(1), at(2), at(3), at(4), at(5));
    PrintRaw<T>("SymmetricDyad.Set", symmetric_dyad);
    symmetric_dyad.Set_xx_xy_xz_yy_yz_zz(symmetric_dyad.zz(), symmetric_dyad.zy(),
                                         symmetric_dyad.zx(), symmetric_dyad.yy(),
                                         symmetric_dyad.yx(), symmetric_dyad.xx());
    PrintRaw<T>("SymmetricDyad.Set(reverse)", symmetric_dyad);
    symmetric_dyad.Mutable_yx() = at(6);
    symmetric_dyad.Set_zy(at(7));
    PrintArray("SymmetricDyad.components", symmetric_dyad.xx_xy_xz_yy_yz_zz());

    PhQ::Dyad<T> dyad{static_cast<T>(-61), static_cast<T>(-62), static_cast<T>(-63),
                      static_cast<T>(-64), static_cast<T>(-65), static_cast<T>(-66),
                      static_cast<T>(-67), static_cast<T>(-68), static_cast<T>(-69)};
    dyad.Set_xx_xy_xz_yx_yy_yz_zx_zy_zz(
        at(0), at(1), at(2), at(3), at(4), at(5), at(6), at(7), at(8));
    PrintRaw<T>("Dyad.Set", dyad);
    dyad.Set_xx_xy_xz_yx_yy_yz_zx_zy_zz(dyad.xx(), dyad.yx(), dyad.zx(), dyad.xy(), dyad.yy(),
                                        dyad.zy(), dyad.xz(), dyad.yz(), dyad.zz());
    PrintRaw<T>("Dyad.Set(transpose)", dyad);
    dyad.Mutable_zx() = at(9);
    dyad.Set_yz(at(10));
    PrintArray("Dyad.components", dyad.xx_xy_xz_yx_yy_yz_zx_zy_zz());

    // Dyad = SymmetricDyad.
    PhQ::Dyad<T> from_symmetric{static_cast<T>(-61), static_cast<T>(-62), static_cast<T>(-63),
                                static_cast<T>(-64), static_cast<T>(-65), static_cast<T>(-66),
                                static_cast<T>(-67), static_cast<T>(-68), static_cast<T>(-69)};
    from_symmetric = symmetric_dyad;
    PrintRaw<T>("Dyad=SymmetricDyad", from_symmetric);
    PrintRaw<T>("Dyad(SymmetricDyad)", PhQ::Dyad<T>{symmetric_dyad});
    std::printf("IsSymmetric %d\n", static_cast<int>(from_symmetric.IsSymmetric()));

    // Quantities layered on the value classes: the value mutators expose the stored numbers.
    PhQ::Force<T> force = PhQ::Force<T>::Zero();
    force.MutableValue().Set_x_y_z(at(0), at(1), at(2));
    PrintRaw<T>("Force.MutableValue.Set", force);
    force.SetValue(vector);
    PrintRaw<T>("Force.SetValue", force);
    PrintArray("Force.Value", force.Value().x_y_z());

    PhQ::PlanarForce<T> planar_force = PhQ::PlanarForce<T>::Zero();
    planar_force.MutableValue().Set_x_y(at(3), at(4));
    PrintRaw<T>("PlanarForce.MutableValue.Set", planar_force);
    planar_force.SetValue(planar_vector);
    PrintArray("PlanarForce.Value", planar_force.Value().x_y());

    PhQ::Stress<T> stress = PhQ::Stress<T>::Zero();
    stress.MutableValue().Set_xx_xy_xz_yy_yz_zz(at(5), at(4), at(3), at(2), at(1), at(0));
    PrintRaw<T>("Stress.MutableValue.Set", stress);
    stress.SetValue(symmetric_dyad);
    PrintArray("Stress.Value", stress.Value().xx_xy_xz_yy_yz_zz());

    PhQ::VelocityGradient<T> velocity_gradient = PhQ::VelocityGradient<T>::Zero();
    velocity_gradient.MutableValue().Set_xx_xy_xz_yx_yy_yz_zx_zy_zz(
        at(8), at(7), at(6), at(5), at(4), at(3), at(2), at(1), at(0));
    PrintRaw<T>("VelocityGradient.MutableValue.Set", velocity_gradient);
    velocity_gradient.MutableValue() = symmetric_dyad;
    PrintRaw<T>("VelocityGradient.MutableValue=SymmetricDyad", velocity_gradient);
    velocity_gradient.SetValue(dyad);
    PrintArray("VelocityGradient.Value", velocity_gradient.Value().xx_xy_xz_yx_yy_yz_zx_zy_zz());

    PhQ::Time<T> time = PhQ::Time<T>::Zero();
    time.MutableValue() = at(0);
    PrintRaw<T>("Time.MutableValue", time);
    time.SetValue(at(1));
    PrintRaw<T>("Time.SetValue", time);
  }
}

template <typename From, typename To>
void ConversionChecks() {
  std::printf("conversion %s -> %s\n", Name<From>(), Name<To>());
  const std::vector<From> samples = Samples<From>();
  const std::size_t count = samples.size();
  for (std::size_t index = 0; index < count; ++index) {
    const auto at = [&](const std::size_t offset) {
      return samples[(index * 5 + offset * 11) % count];
    };
    const PhQ::PlanarVector<From> planar_vector{at(0), at(1)};
    PhQ::PlanarVector<To> planar_vector_to{static_cast<To>(-77), static_cast<To>(-78)};
    planar_vector_to = planar_vector;
    PrintRaw<To>("PlanarVector=", planar_vector_to);
    PrintRaw<To>("PlanarVector()", PhQ::PlanarVector<To>{planar_vector});

    const PhQ::Vector<From> vector{at(0), at(1), at(2)};
    PhQ::Vector<To> vector_to{static_cast<To>(-77), static_cast<To>(-78), static_cast<To>(-79)};
    vector_to = vector;
    PrintRaw<To>("Vector=", vector_to);
    PrintRaw<To>("Vector()", PhQ::Vector<To>{vector});

    const PhQ::SymmetricDyad<From> symmetric_dyad{at(0), at(1), at(2), at(3), at(4), at(5)};
    PhQ::SymmetricDyad<To> symmetric_dyad_to{static_cast<To>(-71), static_cast<To>(-72),
                                             static_cast<To>(-73), static_cast<To>(-74),
                                             static_cast<To>(-75), static_cast<To>(-76)};
    symmetric_dyad_to = symmetric_dyad;
    PrintRaw<To>("SymmetricDyad=", symmetric_dyad_to);
    PrintRaw<To>("SymmetricDyad()", PhQ::SymmetricDyad<To>{symmetric_dyad});

    const PhQ::Dyad<From> dyad{at(0), at(1), at(2), at(3), at(4), at(5), at(6), at(7), at(8)};
    PhQ::Dyad<To> dyad_to{static_cast<To>(-61), static_cast<To>(-62), static_cast<To>(-63),
                          static_cast<To>(-64), static_cast<To>(-65), static_cast<To>(-66),
                          static_cast<To>(-67), static_cast<To>(-68), static_cast<To>(-69)};
    dyad_to = dyad;
    PrintRaw<To>("Dyad=", dyad_to);
    PrintRaw<To>("Dyad()", PhQ::Dyad<To>{dyad});

    // Quantities: converting assignment of the quantity forwards to the value classes.
    const PhQ::Force<From> force{vector, PhQ::Unit::Force::Newton};
    PhQ::Force<To> force_to = PhQ::Force<To>::Zero();
    force_to = force;
    PrintRaw<To>("Force=", force_to);
    const PhQ::Stress<From> stress{symmetric_dyad, PhQ::Unit::Pressure::Pascal};
    PhQ::Stress<To> stress_to = PhQ::Stress<To>::Zero();
    stress_to = stress;
    PrintRaw<To>("Stress=", stress_to);
    const PhQ::VelocityGradient<From> velocity_gradient{dyad, PhQ::Unit::Frequency::Hertz};
    PhQ::VelocityGradient<To> velocity_gradient_to = PhQ::VelocityGradient<To>::Zero();
    velocity_gradient_to = velocity_gradient;
    PrintRaw<To>("VelocityGradient=", velocity_gradient_to);
    const PhQ::PlanarForce<From> planar_force{planar_vector, PhQ::Unit::Force::Newton};
    PhQ::PlanarForce<To> planar_force_to = PhQ::PlanarForce<To>::Zero();
    planar_force_to = planar_force;
    PrintRaw<To>("PlanarForce=", planar_force_to);
  }
}

template <typename T>
void AllForType() {
  StaticFacts<T>();
  constexpr T constexpr_sum = ConstexprChecks<T>();
  std::printf("constexpr<%s>:", Name<T>());
  PrintNumber(constexpr_sum);
  std::printf("\n");
  ZeroChecks<T>();
  SetterChecks<T>();
  ConversionChecks<T, float>();
  ConversionChecks<T, double>();
  ConversionChecks<T, long double>();
}

}  // namespace

int main() {
  AllForType<float>();
  AllForType<double>();
  AllForType<long double>();
  return 0;
}
