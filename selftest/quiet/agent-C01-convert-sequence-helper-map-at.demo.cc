// Differential program for the C01 refactor: exercises every ConvertInPlace / Convert /
// ConvertStatically path for every ordered pair of units of every unit type, in float, double and
// long double, and prints a digest per (unit type, from, to, numeric type) plus a number of fully
// printed sample lines.
#include <PhQ/Dyad.hpp>
#include <PhQ/PlanarVector.hpp>
#include <PhQ/SymmetricDyad.hpp>
#include <PhQ/Unit.hpp>
#include <PhQ/Unit/Acceleration.hpp>
#include <PhQ/Unit/Angle.hpp>
#include <PhQ/Unit/AngularAcceleration.hpp>
#include <PhQ/Unit/AngularSpeed.hpp>
#include <PhQ/Unit/Area.hpp>
#include <PhQ/Unit/Diffusivity.hpp>
#include <PhQ/Unit/DynamicViscosity.hpp>
#include <PhQ/Unit/ElectricCharge.hpp>
#include <PhQ/Unit/ElectricCurrent.hpp>
#include <PhQ/Unit/Energy.hpp>
#include <PhQ/Unit/EnergyFlux.hpp>
#include <PhQ/Unit/Force.hpp>
#include <PhQ/Unit/Frequency.hpp>
#include <PhQ/Unit/HeatCapacity.hpp>
#include <PhQ/Unit/Length.hpp>
#include <PhQ/Unit/Mass.hpp>
#include <PhQ/Unit/MassDensity.hpp>
#include <PhQ/Unit/MassRate.hpp>
#include <PhQ/Unit/Memory.hpp>
#include <PhQ/Unit/MemoryRate.hpp>
#include <PhQ/Unit/Power.hpp>
#include <PhQ/Unit/Pressure.hpp>
#include <PhQ/Unit/ReciprocalTemperature.hpp>
#include <PhQ/Unit/SolidAngle.hpp>
#include <PhQ/Unit/SpecificEnergy.hpp>
#include <PhQ/Unit/SpecificHeatCapacity.hpp>
#include <PhQ/Unit/SpecificPower.hpp>
#include <PhQ/Unit/Speed.hpp>
#include <PhQ/Unit/SubstanceAmount.hpp>
#include <PhQ/Unit/Temperature.hpp>
#include <PhQ/Unit/TemperatureDifference.hpp>
#include <PhQ/Unit/TemperatureGradient.hpp>
#include <PhQ/Unit/ThermalConductivity.hpp>
#include <PhQ/Unit/Time.hpp>
#include <PhQ/Unit/TransportEnergyConsumption.hpp>
#include <PhQ/Unit/Volume.hpp>
#include <PhQ/Unit/VolumeRate.hpp>
#include <PhQ/Vector.hpp>

#include <array>
#include <cmath>
#include <cstdint>
#include <cstdio>
#include <cstring>
#include <limits>
#include <random>
#include <string>
#include <vector>

namespace {

template <typename T>
constexpr std::size_t SignificantBytes() {
  return sizeof(T);
}
template <>
constexpr std::size_t SignificantBytes<long double>() {
  return 10;  // x87 80-bit extended; the remaining bytes are padding.
}

struct Digest {
  std::uint64_t h = 1469598103934665603ULL;
  template <typename T>
  void Add(const T v) {
    unsigned char bytes[sizeof(T)];
    std::memcpy(bytes, &v, sizeof(T));
    for (std::size_t i = 0; i < SignificantBytes<T>(); ++i) {
      h ^= bytes[i];
      h *= 1099511628211ULL;
    }
  }
};

template <typename T>
const char* TypeName();
template <>
const char* TypeName<float>() {
  return "float";
}
template <>
const char* TypeName<double>() {
  return "double";
}
template <>
const char* TypeName<long double>() {
  return "long double";
}

template <typename T>
std::string Hex(const T v) {
  char buffer[128];
  std::snprintf(buffer, sizeof(buffer), "%La", static_cast<long double>(v));
  return buffer;
}

template <typename T>
std::vector<T> Inputs(const unsigned seed) {
  using L = std::numeric_limits<T>;
  std::vector<T> in{
    static_cast<T>(0.0L),
    -static_cast<T>(0.0L),
    static_cast<T>(1.0L),
    static_cast<T>(-1.0L),
    static_cast<T>(1.2345678901234567890L),
    static_cast<T>(-273.15L),
    static_cast<T>(459.67L),
    static_cast<T>(1.0e-30L),
    static_cast<T>(-1.0e-30L),
    static_cast<T>(1.0e30L),
    static_cast<T>(-1.0e30L),
    L::min(),
    -L::min(),
    L::denorm_min(),
    -L::denorm_min(),
    L::max(),
    L::lowest(),
    L::epsilon(),
    L::infinity(),
    -L::infinity(),
    L::quiet_NaN(),
    static_cast<T>(L::max() / static_cast<T>(1.0e6L)),
    static_cast<T>(L::min() * static_cast<T>(1.0e6L)),
  };
  std::mt19937_64 generator(seed);
  std::uniform_real_distribution<double> mantissa(-10.0, 10.0);
  std::uniform_int_distribution<int> exponent(-20, 20);
  for (int i = 0; i < 17; ++i) {
    in.push_back(static_cast<T>(std::ldexp(mantissa(generator), 3 * exponent(generator))));
  }
  return in;
}

template <typename T>
void AddMaybeNaN(Digest& d, const T v) {
  // NaN payload/sign may legitimately be unspecified; canonicalise.
  if (v != v) {
    d.Add(static_cast<unsigned char>(0x7F));
  } else {
    d.Add(v);
  }
}

template <typename Unit, typename T>
void RunPair(const char* type_name, const Unit from, const Unit to, const std::vector<T>& in,
             const bool verbose) {
  Digest d;
  // Scalars: Convert and ConvertInPlace.
  for (const T x : in) {
    const T y = PhQ::Convert(x, from, to);
    AddMaybeNaN(d, y);
    T z = x;
    PhQ::ConvertInPlace(z, from, to);
    AddMaybeNaN(d, z);
    if (verbose) {
      std::printf("  %s %s -> %s [%s]: %s -> %s\n", type_name,
                  std::string(PhQ::Abbreviation(from)).c_str(),
                  std::string(PhQ::Abbreviation(to)).c_str(), TypeName<T>(), Hex(x).c_str(),
                  (y != y) ? "nan" : Hex(y).c_str());
    }
  }
  // std::vector, whole input and the empty vector.
  {
    const std::vector<T> converted = PhQ::Convert(in, from, to);
    d.Add(static_cast<std::uint64_t>(converted.size()));
    for (const T y : converted) {
      AddMaybeNaN(d, y);
    }
    std::vector<T> in_place{in};
    PhQ::ConvertInPlace(in_place, from, to);
    for (const T y : in_place) {
      AddMaybeNaN(d, y);
    }
    std::vector<T> empty;
    PhQ::ConvertInPlace(empty, from, to);
    d.Add(static_cast<std::uint64_t>(empty.size()));
    d.Add(static_cast<std::uint64_t>(PhQ::Convert(empty, from, to).size()));
  }
  // std::array of sizes 1, 4 and 0.
  {
    const std::array<T, 4> a{in[4], in[7], in[9], in[23]};
    for (const T y : PhQ::Convert(a, from, to)) {
      AddMaybeNaN(d, y);
    }
    std::array<T, 4> b{a};
    PhQ::ConvertInPlace(b, from, to);
    for (const T y : b) {
      AddMaybeNaN(d, y);
    }
    std::array<T, 1> c{in[24]};
    PhQ::ConvertInPlace(c, from, to);
    AddMaybeNaN(d, c[0]);
    std::array<T, 0> e{};
    PhQ::ConvertInPlace(e, from, to);
    d.Add(static_cast<std::uint64_t>(PhQ::Convert(e, from, to).size()));
  }
  // Shapes.
  {
    const PhQ::PlanarVector<T> pv{in[24], in[25]};
    const PhQ::PlanarVector<T> pv2 = PhQ::Convert(pv, from, to);
    AddMaybeNaN(d, pv2.x());
    AddMaybeNaN(d, pv2.y());
    PhQ::PlanarVector<T> pv3{pv};
    PhQ::ConvertInPlace(pv3, from, to);
    AddMaybeNaN(d, pv3.x());
    AddMaybeNaN(d, pv3.y());

    const PhQ::Vector<T> v{in[26], in[27], in[2]};
    const PhQ::Vector<T> v2 = PhQ::Convert(v, from, to);
    PhQ::Vector<T> v3{v};
    PhQ::ConvertInPlace(v3, from, to);
    for (const T y : v2.x_y_z()) {
      AddMaybeNaN(d, y);
    }
    for (const T y : v3.x_y_z()) {
      AddMaybeNaN(d, y);
    }

    const PhQ::SymmetricDyad<T> s{in[28], in[29], in[30], in[31], in[32], in[33]};
    const PhQ::SymmetricDyad<T> s2 = PhQ::Convert(s, from, to);
    PhQ::SymmetricDyad<T> s3{s};
    PhQ::ConvertInPlace(s3, from, to);
    for (const T y : s2.xx_xy_xz_yy_yz_zz()) {
      AddMaybeNaN(d, y);
    }
    for (const T y : s3.xx_xy_xz_yy_yz_zz()) {
      AddMaybeNaN(d, y);
    }

    const PhQ::Dyad<T> t{in[34], in[35], in[36], in[37], in[38], in[39], in[0], in[1], in[3]};
    const PhQ::Dyad<T> t2 = PhQ::Convert(t, from, to);
    PhQ::Dyad<T> t3{t};
    PhQ::ConvertInPlace(t3, from, to);
    for (const T y : t2.xx_xy_xz_yx_yy_yz_zx_zy_zz()) {
      AddMaybeNaN(d, y);
    }
    for (const T y : t3.xx_xy_xz_yx_yy_yz_zx_zy_zz()) {
      AddMaybeNaN(d, y);
    }
  }
  std::printf("%s %s -> %s [%s]: %016llx\n", type_name,
              std::string(PhQ::Abbreviation(from)).c_str(),
              std::string(PhQ::Abbreviation(to)).c_str(), TypeName<T>(),
              static_cast<unsigned long long>(d.h));
}

std::size_t total_units = 0;

template <typename Unit, typename T>
void RunTypeNumeric(const char* type_name, const unsigned seed) {
  const std::vector<T> in = Inputs<T>(seed);
  std::vector<Unit> units;
  for (const auto& entry : PhQ::Internal::Abbreviations<Unit>) {
    units.push_back(entry.first);
  }
  std::size_t pair_index = 0;
  for (const Unit from : units) {
    for (const Unit to : units) {
      // Print every individual scalar result for a sample of the pairs and for every pair that
      // involves the standard unit; digest for all.
      const bool verbose = (pair_index % 7 == 0) || from == PhQ::Standard<Unit>
                           || to == PhQ::Standard<Unit> || units.size() <= 6;
      RunPair<Unit, T>(type_name, from, to, in, verbose);
      ++pair_index;
    }
  }
}

template <typename Unit>
void RunType(const char* type_name, const unsigned seed) {
  total_units += PhQ::Internal::Abbreviations<Unit>.size();
  RunTypeNumeric<Unit, float>(type_name, seed);
  RunTypeNumeric<Unit, double>(type_name, seed + 1000);
  RunTypeNumeric<Unit, long double>(type_name, seed + 2000);
}

template <typename T>
void RunStatic() {
  using namespace PhQ;
  const std::vector<T> in = Inputs<T>(77);
  Digest d;
  for (const T x : in) {
    const T a = ConvertStatically<Unit::Temperature, Unit::Temperature::Fahrenheit,
                                  Unit::Temperature::Celsius>(x);
    const T b =
        ConvertStatically<Unit::Length, Unit::Length::Mile, Unit::Length::Millimetre>(x);
    const T c = ConvertStatically<Unit::Memory, Unit::Memory::Kibibyte, Unit::Memory::Bit>(x);
    const T e = ConvertStatically<Unit::Speed, Unit::Speed::MilePerHour,
                                  Unit::Speed::MetrePerSecond>(x);
    std::printf("static [%s] %s: %s %s %s %s\n", TypeName<T>(), Hex(x).c_str(),
                (a != a) ? "nan" : Hex(a).c_str(), (b != b) ? "nan" : Hex(b).c_str(),
                (c != c) ? "nan" : Hex(c).c_str(), (e != e) ? "nan" : Hex(e).c_str());
    AddMaybeNaN(d, a);
    AddMaybeNaN(d, b);
    AddMaybeNaN(d, c);
    AddMaybeNaN(d, e);
  }
  const std::array<T, 5> arr{in[2], in[4], in[8], in[23], in[30]};
  const auto arr2 = ConvertStatically<Unit::Temperature, Unit::Temperature::Celsius,
                                      Unit::Temperature::Fahrenheit>(arr);
  for (const T y : arr2) {
    AddMaybeNaN(d, y);
  }
  const std::array<T, 0> none{};
  d.Add(static_cast<std::uint64_t>(
      ConvertStatically<Unit::Length, Unit::Length::Foot, Unit::Length::Inch>(none).size()));
  const PlanarVector<T> pv =
      ConvertStatically<Unit::Force, Unit::Force::Pound, Unit::Force::Newton>(
          PlanarVector<T>{in[24], in[25]});
  AddMaybeNaN(d, pv.x());
  AddMaybeNaN(d, pv.y());
  const Vector<T> v = ConvertStatically<Unit::Length, Unit::Length::Foot, Unit::Length::Inch>(
      Vector<T>{in[24], in[25], in[26]});
  for (const T y : v.x_y_z()) {
    AddMaybeNaN(d, y);
  }
  const SymmetricDyad<T> s =
      ConvertStatically<Unit::Pressure, Unit::Pressure::PoundPerSquareInch,
                        Unit::Pressure::Kilopascal>(
          SymmetricDyad<T>{in[24], in[25], in[26], in[27], in[28], in[29]});
  for (const T y : s.xx_xy_xz_yy_yz_zz()) {
    AddMaybeNaN(d, y);
  }
  const Dyad<T> t = ConvertStatically<Unit::Frequency, Unit::Frequency::PerMinute,
                                      Unit::Frequency::Kilohertz>(
      Dyad<T>{in[24], in[25], in[26], in[27], in[28], in[29], in[30], in[31], in[32]});
  for (const T y : t.xx_xy_xz_yx_yy_yz_zx_zy_zz()) {
    AddMaybeNaN(d, y);
  }
  // Compile-time evaluation still works.
  constexpr T compile_time =
      ConvertStatically<Unit::Temperature, Unit::Temperature::Fahrenheit,
                        Unit::Temperature::Celsius>(static_cast<T>(68.0L));
  constexpr std::array<T, 3> compile_time_array =
      ConvertStatically<Unit::Length, Unit::Length::Mile, Unit::Length::Foot>(
          std::array<T, 3>{static_cast<T>(1.0L), static_cast<T>(-2.5L), static_cast<T>(0.0L)});
  d.Add(compile_time);
  for (const T y : compile_time_array) {
    d.Add(y);
  }
  std::printf("static [%s] constexpr: %s %s %s %s\n", TypeName<T>(), Hex(compile_time).c_str(),
              Hex(compile_time_array[0]).c_str(), Hex(compile_time_array[1]).c_str(),
              Hex(compile_time_array[2]).c_str());
  std::printf("static [%s] digest: %016llx\n", TypeName<T>(),
              static_cast<unsigned long long>(d.h));
}

}  // namespace

#define RUN(Name, seed) RunType<PhQ::Unit::Name>(#Name, seed)

int main() {
  RUN(Acceleration, 1);
  RUN(Angle, 2);
  RUN(AngularAcceleration, 3);
  RUN(AngularSpeed, 4);
  RUN(Area, 5);
  RUN(Diffusivity, 6);
  RUN(DynamicViscosity, 7);
  RUN(ElectricCharge, 8);
  RUN(ElectricCurrent, 9);
  RUN(Energy, 10);
  RUN(EnergyFlux, 11);
  RUN(Force, 12);
  RUN(Frequency, 13);
  RUN(HeatCapacity, 14);
  RUN(Length, 15);
  RUN(Mass, 16);
  RUN(MassDensity, 17);
  RUN(MassRate, 18);
  RUN(Memory, 19);
  RUN(MemoryRate, 20);
  RUN(Power, 21);
  RUN(Pressure, 22);
  RUN(ReciprocalTemperature, 23);
  RUN(SolidAngle, 24);
  RUN(SpecificEnergy, 25);
  RUN(SpecificHeatCapacity, 26);
  RUN(SpecificPower, 27);
  RUN(Speed, 28);
  RUN(SubstanceAmount, 29);
  RUN(Temperature, 30);
  RUN(TemperatureDifference, 31);
  RUN(TemperatureGradient, 32);
  RUN(ThermalConductivity, 33);
  RUN(Time, 34);
  RUN(TransportEnergyConsumption, 35);
  RUN(Volume, 36);
  RUN(VolumeRate, 37);
  RunStatic<float>();
  RunStatic<double>();
  RunStatic<long double>();
  std::printf("total units: %zu\n", total_units);
  return 0;
}
