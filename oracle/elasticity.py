"""Isotropic linear elasticity and Newtonian fluids: textbook identities (written from the theory).

(mu, lam) = (shear modulus G, Lame's first parameter).  For an isotropic linear-elastic solid:
  E = mu (3 lam + 2 mu)/(lam + mu)     K = lam + 2 mu/3     M = lam + 2 mu     nu = lam / (2 (lam + mu))
  sigma = 2 mu eps + lam tr(eps) I     eps = sigma/(2 mu) - lam tr(sigma) I / (2 mu (3 lam + 2 mu))
Newtonian fluid (as the property states it): sigma = 2 mu D (+ mu_b tr(D) I for the compressible model).
"""
import sympy
from sympy import Rational, eye

MODULI = {
    "YoungModulus": lambda mu, lam: mu * (3 * lam + 2 * mu) / (lam + mu),
    "IsentropicBulkModulus": lambda mu, lam: lam + Rational(2, 3) * mu,
    "IsothermalBulkModulus": lambda mu, lam: lam + Rational(2, 3) * mu,
    "PWaveModulus": lambda mu, lam: lam + 2 * mu,
    "PoissonRatio": lambda mu, lam: lam / (2 * (lam + mu)),
    "ShearModulus": lambda mu, lam: mu,
    "LameFirstModulus": lambda mu, lam: lam,
}


def trace(A):
    return A[0, 0] + A[1, 1] + A[2, 2]


def linear_isotropic(a, b, X):
    """a X + b tr(X) I"""
    return a * X + b * trace(X) * eye(3)


def linear_isotropic_inverse(a, b, Y):
    """inverse of X -> a X + b tr(X) I :  X = Y/a - b tr(Y) I / (a (a + 3 b))"""
    return Y / a - b * trace(Y) * eye(3) / (a * (a + 3 * b))


def admissible_materials(seed, n=6):
    """Rational (mu, lam) with mu > 0 and 0 <= nu < 1/2  (i.e. lam >= 0), over several orders of magnitude."""
    import random
    rnd = random.Random(seed)
    # lam = 0 exactly (nu = 0) is left out: there the pairs (lam, nu) and (lam, E)... do not determine mu at all
    out = [(sympy.Integer(1), sympy.Integer(1)), (sympy.Integer(3), Rational(1, 1000)), (Rational(7, 2), Rational(5, 3))]
    while len(out) < n:
        e = rnd.choice([-3, -1, 0, 2, 5, 9])
        mu = Rational(rnd.randint(1, 99), rnd.randint(1, 9)) * sympy.Integer(10) ** e
        lam = Rational(rnd.randint(1, 99), rnd.randint(1, 9)) * sympy.Integer(10) ** e
        out.append((mu, lam))
    return out
