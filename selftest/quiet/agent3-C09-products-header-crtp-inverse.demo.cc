// Differential program for the C09s refactor: exercises the tensor algebra of PhQ::PlanarVector,
// PhQ::Vector, PhQ::SymmetricDyad and PhQ::Dyad on many inputs and prints every result exactly.

#include <PhQ/Direction.hpp>
#include <PhQ/Dyad.hpp>
#include <PhQ/PlanarDirection.hpp>
#include <PhQ/PlanarVector.hpp>
#include <PhQ/Stress.hpp>
#include <PhQ/SymmetricDyad.hpp>
#include <PhQ/Traction.hpp>
#include <PhQ/Vector.hpp>
#include <PhQ/VelocityGradient.hpp>

#include <cmath>
#include <cstdint>
#include <cstdio>
#include <cstring>
#include <functional>
#include <limits>
#include <optional>
#include <random>
#include <string>
#include <type_traits>
#include <vector>

namespace {

std::uint64_t g_digest = 1469598103934665603ULL;
unsigned long long g_count = 0;
bool g_verbose = true;

void Mix(const std::string& text) {
  for (const char c : text) {
    g_digest ^= static_cast<unsigned char>(c);
    g_digest *= 1099511628211ULL;
  }
}

template <typename T>
std::string Hex(const T value) {
  char buffer[128];
  if constexpr (std::is_same_v<T, long double>) {
    std::snprintf(buffer, sizeof(buffer), "%La", value);
  } else {
    std::snprintf(buffer, sizeof(buffer), "%a", static_cast<double>(value));
  }
  return buffer;
}

void Emit(const std::string& label, const std::string& text) {
  ++g_count;
  Mix(label);
  Mix("=");
  Mix(text);
  Mix("\n");
  if (g_verbose) {
    std::printf("%s=%s\n", label.c_str(), text.c_str());
  }
}

template <typename T>
std::string Show(const T value) {
  if constexpr (std::is_floating_point_v<T>) {
    return Hex(value);
  } else {
    return std::to_string(value);
  }
}

template <typename T>
std::string Show(const PhQ::PlanarVector<T>& v) {
  return "[" + Hex(v.x()) + " " + Hex(v.y()) + "]";
}

template <typename T>
std::string Show(const PhQ::Vector<T>& v) {
  return "[" + Hex(v.x()) + " " + Hex(v.y()) + " " + Hex(v.z()) + "]";
}

template <typename T>
std::string Show(const PhQ::SymmetricDyad<T>& s) {
  std::string out = "[";
  for (const T c : s.xx_xy_xz_yy_yz_zz()) {
    out += Hex(c) + " ";
  }
  return out + "]";
}

template <typename T>
std::string Show(const PhQ::Dyad<T>& d) {
  std::string out = "[";
  for (const T c : d.xx_xy_xz_yx_yy_yz_zx_zy_zz()) {
    out += Hex(c) + " ";
  }
  return out + "]";
}

template <typename X>
std::string Show(const std::optional<X>& o) {
  return o.has_value() ? "some" + Show(o.value()) : std::string("none");
}

template <typename T>
const char* TypeName() {
  if constexpr (std::is_same_v<T, float>) {
    return "f";
  } else if constexpr (std::is_same_v<T, double>) {
    return "d";
  } else {
    return "ld";
  }
}

template <typename T>
void Exercise(const std::string& tag, const PhQ::PlanarVector<T>& p, const PhQ::PlanarVector<T>& q,
              const PhQ::Vector<T>& u, const PhQ::Vector<T>& v, const PhQ::SymmetricDyad<T>& s,
              const PhQ::SymmetricDyad<T>& t, const PhQ::Dyad<T>& a, const PhQ::Dyad<T>& b,
              const T number) {
  const std::string n = std::string(TypeName<T>()) + "." + tag + ".";
  // Vectors.
  Emit(n + "p.dot", Show(p.Dot(q)));
  Emit(n + "p.cross", Show(p.Cross(q)));
  Emit(n + "p.dyadic", Show(p.Dyadic(q)));
  Emit(n + "q.dyadic", Show(q.Dyadic(p)));
  Emit(n + "p.mag2", Show(p.MagnitudeSquared()));
  Emit(n + "p.mag", Show(p.Magnitude()));
  Emit(n + "u.dot", Show(u.Dot(v)));
  Emit(n + "u.cross", Show(u.Cross(v)));
  Emit(n + "u.dyadic", Show(u.Dyadic(v)));
  Emit(n + "v.dyadic", Show(v.Dyadic(u)));
  Emit(n + "u.dyadic.self", Show(u.Dyadic(u)));
  Emit(n + "u.mag2", Show(u.MagnitudeSquared()));
  Emit(n + "u.mag", Show(u.Magnitude()));
  Emit(n + "u.scale", Show(u * number));
  Emit(n + "u.scale2", Show(number * u));
  Emit(n + "u.div", Show(u / number));
  Emit(n + "p.scale", Show(p * number));
  Emit(n + "p.div", Show(p / number));
  Emit(n + "Vector(p).dyadic", Show(PhQ::Vector<T>(p).Dyadic(PhQ::Vector<T>(q))));
  // Symmetric dyads.
  Emit(n + "s.trace", Show(s.Trace()));
  Emit(n + "s.det", Show(s.Determinant()));
  Emit(n + "s.transpose", Show(s.Transpose()));
  Emit(n + "s.cofactors", Show(s.Cofactors()));
  Emit(n + "s.adjugate", Show(s.Adjugate()));
  Emit(n + "s.inverse", Show(s.Inverse()));
  Emit(n + "t.inverse", Show(t.Inverse()));
  Emit(n + "s.scale", Show(s * number));
  Emit(n + "s.scale2", Show(number * s));
  Emit(n + "s.div", Show(s / number));
  Emit(n + "s+t", Show(s + t));
  Emit(n + "s-t", Show(s - t));
  Emit(n + "s*p", Show(s * p));
  Emit(n + "s*u", Show(s * u));
  Emit(n + "s*t", Show(s * t));
  Emit(n + "t*s", Show(t * s));
  Emit(n + "s*a", Show(s * a));
  Emit(n + "t*b", Show(t * b));
  // Dyads.
  Emit(n + "a.trace", Show(a.Trace()));
  Emit(n + "a.det", Show(a.Determinant()));
  Emit(n + "a.transpose", Show(a.Transpose()));
  Emit(n + "a.cofactors", Show(a.Cofactors()));
  Emit(n + "a.adjugate", Show(a.Adjugate()));
  Emit(n + "a.inverse", Show(a.Inverse()));
  Emit(n + "b.inverse", Show(b.Inverse()));
  Emit(n + "a.issym", Show(static_cast<int>(a.IsSymmetric())));
  Emit(n + "a.scale", Show(a * number));
  Emit(n + "a.scale2", Show(number * a));
  Emit(n + "a.div", Show(a / number));
  Emit(n + "a+b", Show(a + b));
  Emit(n + "a-b", Show(a - b));
  Emit(n + "a*p", Show(a * p));
  Emit(n + "a*q", Show(a * q));
  Emit(n + "a*u", Show(a * u));
  Emit(n + "b*v", Show(b * v));
  Emit(n + "a*s", Show(a * s));
  Emit(n + "b*t", Show(b * t));
  Emit(n + "a*b", Show(a * b));
  Emit(n + "b*a", Show(b * a));
  Emit(n + "a*a", Show(a * a));
  // Embeddings.
  const PhQ::Dyad<T> es{s};
  const PhQ::Dyad<T> et{t};
  Emit(n + "es.inverse", Show(es.Inverse()));
  Emit(n + "es.det", Show(es.Determinant()));
  Emit(n + "es.cofactors", Show(es.Cofactors()));
  Emit(n + "es*et", Show(es * et));
  Emit(n + "es*a", Show(es * a));
  Emit(n + "a*es", Show(a * es));
  Emit(n + "es*u", Show(es * u));
  Emit(n + "es*p", Show(es * p));
  // Inverse round trips.
  const std::optional<PhQ::Dyad<T>> ai = a.Inverse();
  if (ai.has_value()) {
    Emit(n + "ai*a", Show(ai.value() * a));
    Emit(n + "a*ai", Show(a * ai.value()));
    Emit(n + "ai.inverse", Show(ai.value().Inverse()));
  }
  const std::optional<PhQ::SymmetricDyad<T>> si = s.Inverse();
  if (si.has_value()) {
    Emit(n + "si*s", Show(si.value() * s));
    Emit(n + "s*si", Show(s * si.value()));
    Emit(n + "si.inverse", Show(si.value().Inverse()));
    Emit(n + "si*a", Show(si.value() * a));
  }
  // Compound assignment.
  PhQ::Dyad<T> c{a};
  c += b;
  Emit(n + "c+=", Show(c));
  c -= a;
  Emit(n + "c-=", Show(c));
  c *= number;
  Emit(n + "c*=", Show(c));
  c /= number;
  Emit(n + "c/=", Show(c));
  c = s;
  Emit(n + "c=s", Show(c));
  // Comparisons, hashing, and printing.
  Emit(n + "cmp", Show(static_cast<int>(a == b) + 2 * static_cast<int>(a != b)
                       + 4 * static_cast<int>(a < b) + 8 * static_cast<int>(a > b)
                       + 16 * static_cast<int>(a <= b) + 32 * static_cast<int>(a >= b)
                       + 64 * static_cast<int>(s == t) + 128 * static_cast<int>(s < t)));
  Emit(n + "hash.a", std::to_string(std::hash<PhQ::Dyad<T>>()(a)));
  Emit(n + "hash.s", std::to_string(std::hash<PhQ::SymmetricDyad<T>>()(s)));
  Emit(n + "print.a", a.Print() + a.JSON() + a.XML() + a.YAML());
  Emit(n + "print.ab", (a * b).Print());
  Emit(n + "print.inv", ai.has_value() ? ai.value().Print() : std::string("nullopt"));
  // Directions and a few physical quantities that are built on these operations.
  const PhQ::Direction<T> direction{u};
  const PhQ::PlanarDirection<T> planar_direction{p};
  Emit(n + "dir.dyadic", Show(direction.Dyadic(direction)));
  Emit(n + "dir.dyadic.v", Show(direction.Dyadic(v)));
  Emit(n + "v.dyadic.dir", Show(v.Dyadic(direction)));
  Emit(n + "pdir.dyadic", Show(planar_direction.Dyadic(planar_direction)));
  Emit(n + "q.dyadic.pdir", Show(q.Dyadic(planar_direction)));
  Emit(n + "a*dir", Show(a * direction));
  Emit(n + "s*dir", Show(s * direction));
  Emit(n + "a*pdir", Show(a * planar_direction));
  Emit(n + "s*pdir", Show(s * planar_direction));
  const PhQ::Stress<T> stress{s, PhQ::Unit::Pressure::Pascal};
  const PhQ::Traction<T> traction{stress, direction};
  Emit(n + "traction", Show(traction.Value()));
  const PhQ::VelocityGradient<T> velocity_gradient{a, PhQ::Unit::Frequency::Hertz};
  Emit(n + "strain_rate", Show(velocity_gradient.StrainRate().Value()));
}

template <typename T>
struct Samples {
  std::vector<T> values;
};

template <typename T>
void RunType() {
  const std::string n = std::string(TypeName<T>()) + ".";
  // Layout and type properties.
  Emit(n + "sizeof.Dyad", std::to_string(sizeof(PhQ::Dyad<T>)));
  Emit(n + "sizeof.SymmetricDyad", std::to_string(sizeof(PhQ::SymmetricDyad<T>)));
  Emit(n + "alignof.Dyad", std::to_string(alignof(PhQ::Dyad<T>)));
  Emit(n + "alignof.SymmetricDyad", std::to_string(alignof(PhQ::SymmetricDyad<T>)));
  Emit(n + "traits.Dyad",
       std::to_string(std::is_trivially_copyable_v<PhQ::Dyad<T>>)
           + std::to_string(std::is_standard_layout_v<PhQ::Dyad<T>>)
           + std::to_string(std::is_trivially_default_constructible_v<PhQ::Dyad<T>>)
           + std::to_string(std::is_trivially_destructible_v<PhQ::Dyad<T>>)
           + std::to_string(std::is_nothrow_move_constructible_v<PhQ::Dyad<T>>));
  Emit(n + "traits.SymmetricDyad",
       std::to_string(std::is_trivially_copyable_v<PhQ::SymmetricDyad<T>>)
           + std::to_string(std::is_standard_layout_v<PhQ::SymmetricDyad<T>>)
           + std::to_string(std::is_trivially_default_constructible_v<PhQ::SymmetricDyad<T>>)
           + std::to_string(std::is_trivially_destructible_v<PhQ::SymmetricDyad<T>>)
           + std::to_string(std::is_nothrow_move_constructible_v<PhQ::SymmetricDyad<T>>));
  {
    // The components are stored at the start of the object.
    const PhQ::Dyad<T> d{1, 2, 3, 4, 5, 6, 7, 8, 9};
    T raw[9];
    std::memcpy(raw, &d, sizeof(raw));
    std::string out;
    for (const T r : raw) {
      out += Hex(r) + " ";
    }
    Emit(n + "raw.Dyad", out);
    const PhQ::SymmetricDyad<T> s{1, 2, 3, 4, 5, 6};
    T raws[6];
    std::memcpy(raws, &s, sizeof(raws));
    out.clear();
    for (const T r : raws) {
      out += Hex(r) + " ";
    }
    Emit(n + "raw.SymmetricDyad", out);
  }

  // Compile-time evaluation.
  {
    constexpr PhQ::Dyad<T> d{2, 0, 1, -1, 3, 0, 0, 5, 4};
    constexpr PhQ::Vector<T> w{1, -2, 3};
    constexpr PhQ::PlanarVector<T> pw{4, -5};
    constexpr PhQ::SymmetricDyad<T> s{2, -1, 0, 3, 1, 4};
    constexpr PhQ::Dyad<T> dd = d * d;
    constexpr PhQ::Dyad<T> ds = d * s;
    constexpr PhQ::Dyad<T> sd = s * d;
    constexpr PhQ::Dyad<T> ss = s * s;
    constexpr PhQ::Vector<T> dw = d * w;
    constexpr PhQ::Vector<T> dp = d * pw;
    constexpr PhQ::Dyad<T> ww = w.Dyadic(w);
    constexpr PhQ::Dyad<T> pp = pw.Dyadic(pw);
    constexpr std::optional<PhQ::Dyad<T>> di = d.Inverse();
    Emit(n + "constexpr", Show(dd) + Show(ds) + Show(sd) + Show(ss) + Show(dw) + Show(dp)
                              + Show(ww) + Show(pp) + Show(di));
  }

  // Edge values.
  const T tiny = std::numeric_limits<T>::min();
  const T denorm = std::numeric_limits<T>::denorm_min();
  const T huge = std::numeric_limits<T>::max();
  const T eps = std::numeric_limits<T>::epsilon();
  const T inf = std::numeric_limits<T>::infinity();
  const T nan = std::numeric_limits<T>::quiet_NaN();
  const std::vector<T> edge{static_cast<T>(0),   -static_cast<T>(0),  static_cast<T>(1),
                            static_cast<T>(-1),  static_cast<T>(2),   static_cast<T>(-3),
                            static_cast<T>(0.5), static_cast<T>(0.1), tiny,
                            -tiny,               denorm,              huge,
                            -huge,               eps,                 static_cast<T>(1) + eps,
                            inf,                 -inf,                nan,
                            static_cast<T>(1e-20), static_cast<T>(1e20), static_cast<T>(7),
                            static_cast<T>(1) / static_cast<T>(3)};
  std::mt19937_64 generator(20240927);
  {
    std::uniform_int_distribution<std::size_t> pick(0, edge.size() - 1);
    for (int i = 0; i < 400; ++i) {
      auto e = [&]() { return edge[pick(generator)]; };
      const PhQ::PlanarVector<T> p{e(), e()};
      const PhQ::PlanarVector<T> q{e(), e()};
      const PhQ::Vector<T> u{e(), e(), e()};
      const PhQ::Vector<T> v{e(), e(), e()};
      const PhQ::SymmetricDyad<T> s{e(), e(), e(), e(), e(), e()};
      const PhQ::SymmetricDyad<T> t{e(), e(), e(), e(), e(), e()};
      const PhQ::Dyad<T> a{e(), e(), e(), e(), e(), e(), e(), e(), e()};
      const PhQ::Dyad<T> b{e(), e(), e(), e(), e(), e(), e(), e(), e()};
      g_verbose = i < 150;  // The remaining cases only contribute to the digest.
      Exercise<T>("edge" + std::to_string(i), p, q, u, v, s, t, a, b, e());
      g_verbose = true;
    }
  }
  // Small integers (including many singular tensors).
  {
    std::uniform_int_distribution<int> small(-3, 3);
    for (int i = 0; i < 600; ++i) {
      auto e = [&]() { return static_cast<T>(small(generator)); };
      const PhQ::PlanarVector<T> p{e(), e()};
      const PhQ::PlanarVector<T> q{e(), e()};
      const PhQ::Vector<T> u{e(), e(), e()};
      const PhQ::Vector<T> v{e(), e(), e()};
      const PhQ::SymmetricDyad<T> s{e(), e(), e(), e(), e(), e()};
      const PhQ::SymmetricDyad<T> t{e(), e(), e(), e(), e(), e()};
      const PhQ::Dyad<T> a{e(), e(), e(), e(), e(), e(), e(), e(), e()};
      const PhQ::Dyad<T> b{e(), e(), e(), e(), e(), e(), e(), e(), e()};
      T number = e();
      g_verbose = i < 150;
      Exercise<T>("int" + std::to_string(i), p, q, u, v, s, t, a, b, number);
      g_verbose = true;
    }
  }
  // Random reals over several magnitudes.
  {
    std::uniform_real_distribution<double> real(-1.0, 1.0);
    std::uniform_int_distribution<int> exponent(-30, 30);
    for (int i = 0; i < 1500; ++i) {
      const bool wide = (i % 3) == 0;
      auto e = [&]() {
        const double mantissa = real(generator);
        const double scale = wide ? std::ldexp(1.0, exponent(generator)) : 10.0;
        return static_cast<T>(mantissa * scale);
      };
      const PhQ::PlanarVector<T> p{e(), e()};
      const PhQ::PlanarVector<T> q{e(), e()};
      const PhQ::Vector<T> u{e(), e(), e()};
      const PhQ::Vector<T> v{e(), e(), e()};
      const PhQ::SymmetricDyad<T> s{e(), e(), e(), e(), e(), e()};
      const PhQ::SymmetricDyad<T> t{e(), e(), e(), e(), e(), e()};
      const PhQ::Dyad<T> a{e(), e(), e(), e(), e(), e(), e(), e(), e()};
      const PhQ::Dyad<T> b{e(), e(), e(), e(), e(), e(), e(), e(), e()};
      g_verbose = i < 300;
      Exercise<T>("real" + std::to_string(i), p, q, u, v, s, t, a, b, e());
      g_verbose = true;
    }
  }
  // Exhaustive small grid for the Inverse existence condition: entries in {-1, 0, 1}.
  {
    const T grid[3] = {static_cast<T>(-1), static_cast<T>(0), static_cast<T>(1)};
    g_verbose = false;
    unsigned long long singular = 0;
    unsigned long long singular_symmetric = 0;
    for (int code = 0; code < 19683; ++code) {
      T c[9];
      int k = code;
      for (T& x : c) {
        x = grid[k % 3];
        k /= 3;
      }
      const PhQ::Dyad<T> a{c[0], c[1], c[2], c[3], c[4], c[5], c[6], c[7], c[8]};
      const std::optional<PhQ::Dyad<T>> ai = a.Inverse();
      singular += ai.has_value() ? 0 : 1;
      Emit(n + "grid.a.inverse", Show(ai));
      const PhQ::Vector<T> u{c[0], c[4], c[8]};
      const PhQ::PlanarVector<T> p{c[1], c[3]};
      Emit(n + "grid.a*a^T", Show(a * a.Transpose()));
      Emit(n + "grid.a*u", Show(a * u));
      Emit(n + "grid.a*p", Show(a * p));
      if (code < 729) {
        const PhQ::SymmetricDyad<T> s{c[0], c[1], c[2], c[3], c[4], c[5]};
        const std::optional<PhQ::SymmetricDyad<T>> si = s.Inverse();
        singular_symmetric += si.has_value() ? 0 : 1;
        Emit(n + "grid.s.inverse", Show(si));
        Emit(n + "grid.s*s", Show(s * s));
        Emit(n + "grid.s*a", Show(s * PhQ::Dyad<T>{c[5], c[4], c[3], c[2], c[1], c[0], c[1], c[2],
                                                   c[3]}));
      }
    }
    g_verbose = true;
    Emit(n + "grid.singular", std::to_string(singular));
    Emit(n + "grid.singular_symmetric", std::to_string(singular_symmetric));
  }
}

}  // namespace

int main() {
  RunType<float>();
  RunType<double>();
  RunType<long double>();
  std::printf("count=%llu\n", g_count);
  std::printf("digest=%016llx\n", static_cast<unsigned long long>(g_digest));
  return 0;
}
