// Differential program for the C18r refactor: strain / strain rate as symmetric parts of the
// displacement / velocity gradients, volumetric thermal strain, von Mises stress, and static
// pressure as an isotropic stress (plus traction from those stresses).
#include <PhQ/Direction.hpp>
#include <PhQ/DisplacementGradient.hpp>
#include <PhQ/Dyad.hpp>
#include <PhQ/ScalarStress.hpp>
#include <PhQ/StaticPressure.hpp>
#include <PhQ/Strain.hpp>
#include <PhQ/StrainRate.hpp>
#include <PhQ/Stress.hpp>
#include <PhQ/SymmetricDyad.hpp>
#include <PhQ/TemperatureDifference.hpp>
#include <PhQ/Traction.hpp>
#include <PhQ/VelocityGradient.hpp>
#include <PhQ/VolumetricThermalExpansionCoefficient.hpp>

#include <cmath>
#include <cstdint>
#include <cstdio>
#include <cstring>
#include <limits>
#include <random>
#include <string>
#include <vector>

namespace {

template <typename T>
void PrintBits(const T value) {
  // Exact bit pattern (10 significant bytes for x87 long double) followed by a readable form.
  unsigned char bytes[sizeof(T)];
  std::memset(bytes, 0, sizeof(T));
  std::memcpy(bytes, &value, sizeof(T));
  const std::size_t used = std::is_same<T, long double>::value ? 10 : sizeof(T);
  for (std::size_t i = used; i-- > 0;) {
    std::printf("%02x", static_cast<unsigned>(bytes[i]));
  }
  std::printf("(%La) ", static_cast<long double>(value));
}

template <typename T>
void PrintSym(const char* tag, const PhQ::SymmetricDyad<T>& s) {
  std::printf("%s ", tag);
  PrintBits(s.xx());
  PrintBits(s.xy());
  PrintBits(s.xz());
  PrintBits(s.yx());
  PrintBits(s.yy());
  PrintBits(s.yz());
  PrintBits(s.zx());
  PrintBits(s.zy());
  PrintBits(s.zz());
  std::printf("\n");
}

template <typename T>
std::vector<T> EdgeValues() {
  using L = std::numeric_limits<T>;
  return {static_cast<T>(0),
          -static_cast<T>(0),
          static_cast<T>(1),
          static_cast<T>(-1),
          static_cast<T>(0.1L),
          static_cast<T>(-0.3L),
          static_cast<T>(3),
          static_cast<T>(1) / static_cast<T>(3),
          L::min(),
          -L::min(),
          L::denorm_min(),
          -L::denorm_min(),
          L::epsilon(),
          L::max(),
          -L::max(),
          L::max() / static_cast<T>(2),
          L::max() / static_cast<T>(3),
          std::sqrt(L::max()),
          std::sqrt(L::min()),
          static_cast<T>(1) + L::epsilon(),
          static_cast<T>(1) - L::epsilon() / static_cast<T>(2),
          L::infinity(),
          -L::infinity(),
          L::quiet_NaN()};
}

template <typename T>
T RandomValue(std::mt19937_64& gen, const int max_exponent) {
  std::uniform_real_distribution<long double> mantissa(1.0L, 2.0L);
  std::uniform_int_distribution<int> exponent(-max_exponent, max_exponent);
  std::uniform_int_distribution<int> sign(0, 3);
  const long double m = mantissa(gen);
  const int e = exponent(gen);
  const long double v = std::ldexp(m, e);
  return static_cast<T>(sign(gen) == 0 ? -v : v);
}

template <typename T>
void CheckGradients(const T (&c)[9]) {
  const PhQ::Dyad<T> dyad(c[0], c[1], c[2], c[3], c[4], c[5], c[6], c[7], c[8]);
  // Strain from displacement gradient, all routes.
  const PhQ::DisplacementGradient<T> dg(c[0], c[1], c[2], c[3], c[4], c[5], c[6], c[7], c[8]);
  const PhQ::Strain<T> e1{dg};
  const PhQ::Strain<T> e2 = dg.Strain();
  PrintSym("E1", e1.Value());
  PrintSym("E2", e2.Value());
  const PhQ::DisplacementGradient<T> dg2{dyad};
  PrintSym("E3", PhQ::Strain<T>(dg2).Value());
  // Strain rate from velocity gradient, several units.
  const PhQ::Unit::Frequency units[] = {PhQ::Unit::Frequency::Hertz,
                                        PhQ::Unit::Frequency::Kilohertz,
                                        PhQ::Unit::Frequency::PerMinute,
                                        PhQ::Unit::Frequency::PerHour};
  for (const PhQ::Unit::Frequency unit : units) {
    const PhQ::VelocityGradient<T> vg(dyad, unit);
    const PhQ::StrainRate<T> r1{vg};
    const PhQ::StrainRate<T> r2 = vg.StrainRate();
    PrintSym("R1", r1.Value());
    PrintSym("R2", r2.Value());
    PrintSym("R3", r1.Value(unit));
    std::printf("RP %s\n", r1.Print().c_str());
  }
  std::printf("EP %s\n", e1.Print().c_str());
}

template <typename T>
void CheckStress(const T (&c)[6], const T (&d)[3]) {
  const PhQ::SymmetricDyad<T> sym(c[0], c[1], c[2], c[3], c[4], c[5]);
  const PhQ::Unit::Pressure units[] = {PhQ::Unit::Pressure::Pascal,
                                       PhQ::Unit::Pressure::Kilopascal,
                                       PhQ::Unit::Pressure::Megapascal,
                                       PhQ::Unit::Pressure::Gigapascal,
                                       PhQ::Unit::Pressure::Bar,
                                       PhQ::Unit::Pressure::Atmosphere,
                                       PhQ::Unit::Pressure::PoundPerSquareFoot,
                                       PhQ::Unit::Pressure::PoundPerSquareInch};
  for (const PhQ::Unit::Pressure unit : units) {
    const PhQ::Stress<T> stress(sym, unit);
    const PhQ::ScalarStress<T> vm = stress.VonMises();
    std::printf("VM ");
    PrintBits(vm.Value());
    PrintBits(vm.Value(unit));
    std::printf("%s\n", vm.Print().c_str());

    // Static pressure as isotropic stress, both routes.
    const PhQ::StaticPressure<T> p(c[0], unit);
    const PhQ::Stress<T> s1{p};
    const PhQ::Stress<T> s2 = p.Stress();
    PrintSym("S1", s1.Value());
    PrintSym("S2", s2.Value());
    PrintSym("S3", s1.Value(unit));
    std::printf("SV ");
    PrintBits(s1.VonMises().Value());
    std::printf("%s\n", s1.Print().c_str());

    // Traction sigma . n from these stresses.
    const PhQ::Direction<T> n(d[0], d[1], d[2]);
    const PhQ::Traction<T> t1{stress, n};
    const PhQ::Traction<T> t2 = s1.Traction(n);
    std::printf("TR ");
    PrintBits(t1.Value().x());
    PrintBits(t1.Value().y());
    PrintBits(t1.Value().z());
    PrintBits(t2.Value().x());
    PrintBits(t2.Value().y());
    PrintBits(t2.Value().z());
    std::printf("\n");
  }
}

template <typename T>
void CheckThermal(const T beta_value, const T delta_value) {
  const PhQ::Unit::ReciprocalTemperature beta_units[] = {
      PhQ::Unit::ReciprocalTemperature::PerKelvin, PhQ::Unit::ReciprocalTemperature::PerCelsius,
      PhQ::Unit::ReciprocalTemperature::PerRankine,
      PhQ::Unit::ReciprocalTemperature::PerFahrenheit};
  const PhQ::Unit::TemperatureDifference delta_units[] = {
      PhQ::Unit::TemperatureDifference::Kelvin, PhQ::Unit::TemperatureDifference::Celsius,
      PhQ::Unit::TemperatureDifference::Rankine, PhQ::Unit::TemperatureDifference::Fahrenheit};
  for (const auto beta_unit : beta_units) {
    for (const auto delta_unit : delta_units) {
      const PhQ::VolumetricThermalExpansionCoefficient<T> beta(beta_value, beta_unit);
      const PhQ::TemperatureDifference<T> delta(delta_value, delta_unit);
      const PhQ::Strain<T> a{beta, delta};
      const PhQ::Strain<T> b = beta * delta;
      const PhQ::Strain<T> c = delta * beta;
      PrintSym("TA", a.Value());
      PrintSym("TB", b.Value());
      PrintSym("TC", c.Value());
      std::printf("TP %s\n", a.Print().c_str());
    }
  }
}

template <typename T>
void Run(const char* name, const std::uint64_t seed) {
  std::printf("==== %s ====\n", name);
  const std::vector<T> edges = EdgeValues<T>();
  std::mt19937_64 gen(seed);
  const int max_exponent = std::numeric_limits<T>::max_exponent - 2;

  // Edge cases: every ordered pair of edge values in the off-diagonal pairs, and cycling diagonal.
  for (std::size_t i = 0; i < edges.size(); ++i) {
    for (std::size_t j = 0; j < edges.size(); ++j) {
      const T a = edges[i];
      const T b = edges[j];
      const T k = edges[(i + j) % edges.size()];
      const T c9[9] = {a, a, b, b, k, k, a, b, b};
      CheckGradients<T>(c9);
      const T c9b[9] = {k, b, a, a, b, a, b, k, a};
      CheckGradients<T>(c9b);
      const T c6[6] = {a, b, k, b, a, k};
      const T d3[3] = {static_cast<T>(1), static_cast<T>(-2), static_cast<T>(0.5)};
      CheckStress<T>(c6, d3);
      CheckThermal<T>(a, b);
    }
  }

  // Random cases over many orders of magnitude (small, medium, and full exponent ranges).
  const int ranges[] = {4, 40, max_exponent};
  for (const int range : ranges) {
    for (int iteration = 0; iteration < 400; ++iteration) {
      T c9[9];
      for (T& v : c9) {
        v = RandomValue<T>(gen, range);
      }
      CheckGradients<T>(c9);
      T c6[6];
      for (T& v : c6) {
        v = RandomValue<T>(gen, range);
      }
      T d3[3];
      for (T& v : d3) {
        v = RandomValue<T>(gen, 4);
      }
      CheckStress<T>(c6, d3);
      CheckThermal<T>(RandomValue<T>(gen, range), RandomValue<T>(gen, range));
    }
  }
}

}  // namespace

int main() {
  Run<float>("float", 0xC18F10A7ULL);
  Run<double>("double", 0xC18D0B1EULL);
  Run<long double>("long double", 0xC1810D0BULL);
  return 0;
}
