"""C07 — each unit system is coherent."""
from .. import facts, affine, ev
from ..units_model import UnitModel, close, U
from ..facts import short
from ..frontend import NUMERIC


def system_bases(abbr):
    """Base-unit magnitudes (T, L, M, I, Theta, N, J) of a unit system from its name, e.g. ft·lbf·s·°R."""
    atoms = [a for a in abbr.replace("*", "·").replace("-", "·").split("·") if a]
    by = {}
    for a in atoms:
        rs = U.atom_readings(a)
        if not rs:
            raise U.ParseError("unknown atom %r in unit system name %r" % (a, abbr))
        m = rs[0]
        by[tuple(m.d)] = m
    Lm = by.get(U.dims(L=1))
    Tm = by.get(U.dims(T=1))
    Th = by.get(U.dims(Th=1))
    Mm = by.get(U.dims(M=1))
    Fm = by.get(U.FORCE)
    if Lm is None or Tm is None or Th is None:
        raise U.ParseError("unit system name %r lacks a length, time or temperature unit" % abbr)
    if Mm is None:
        if Fm is None:
            raise U.ParseError("unit system name %r has neither a mass nor a force unit" % abbr)
        Mm = Fm * Tm ** 2 / Lm
    one = U.Mag(1)
    return [Tm, Lm, Mm, one, Th, one, one]


def run(chk):
    chk.level = "proof"
    chk.technique = ("table rules over the AST of ConsistentUnits/RelatedUnitSystems + conversion factors from the affine "
                     "interpretation of the conversion bodies (C01) compared with products of the system's base units")
    chk.rule("R1", "factor(ConsistentUnits<U>[s]) = prod base_s[i]^dim_i(U) exactly, offset 0 (both from the code's conversion body and from the unit's symbol)")
    chk.rule("R2", "ConsistentUnits<U> has exactly the unit systems as keys, and maps the standard system to Standard<U>")
    chk.rule("R3", "RelatedUnitSystems<U> = { u -> s : u is the consistent unit of exactly one system s }")
    chk.rule("R4", "ConsistentUnit is .at() on the forward table; RelatedUnitSystem is a checked find returning nullopt when absent")
    F = facts.load("double", chk.tier)
    M = UnitModel(F)
    sys_t = "PhQ::UnitSystem"
    systems = M.T.enumerators(sys_t)
    sys_abbr = M.abbreviations(sys_t)
    std_sys = M.T.standard.get(sys_t)
    bases = {}
    for s in systems:
        try:
            bases[s] = system_bases(sys_abbr.get(s, ""))
        except U.ParseError as x:
            chk.inconclusive("R1", "system " + s, str(x), short(F.enums[sys_t]["loc"]))
    n_fw = n_rev = 0
    for ut in M.unit_types():
        rows = M.T.rows("consistent", ut)
        var = M.T.var("consistent", ut)
        loc = short(var["loc"]) if var else short(F.enums[ut]["loc"])
        su = M.short(ut)
        if rows is None:
            chk.violated("R2", su, "no ConsistentUnits table for this unit type (ConsistentUnit<U> would read an empty map: .at throws)", loc)
            continue
        fw = {}
        for k, v in rows:
            if isinstance(k, tuple) and isinstance(v, tuple):
                fw.setdefault(k[2], v[2])
        keys = [k[2] for k, v in rows if isinstance(k, tuple)]
        if sorted(set(keys)) != sorted(systems) or len(keys) != len(set(keys)):
            chk.violated("R2", su + ":keys", "keys %s, expected exactly %s" % (keys, systems), loc)
        else:
            chk.holds("R2", su + ":keys", "keys = %s" % keys, loc)
        if fw.get(std_sys) != M.T.standard.get(ut):
            chk.violated("R2", su + ":standard", "ConsistentUnits[%s] = %s but Standard<%s> = %s" % (std_sys, fw.get(std_sys), su, M.T.standard.get(ut)), loc)
        else:
            chk.holds("R2", su + ":standard", "%s -> %s" % (std_sys, fw.get(std_sys)), loc)
        dv = M.dims_vector(ut)
        abbrs = M.abbreviations(ut)
        for s in systems:
            if s not in fw or s not in bases:
                continue
            n_fw += 1
            x = fw[s]
            inst = "%s[%s]=%s" % (su, s, x)
            want = U.Mag(1)
            for b, e in zip(bases[s], dv):
                want = want * (b ** e)
            wantA = affine.num(want.q, want.k)
            bad = []
            for T in NUMERIC:
                a_to, f_to, d_to = UnitModel(facts.load(T, chk.tier)).conversion_affine(ut, x, "ToStandard") if T != "double" else M.conversion_affine(ut, x, "ToStandard")
                if a_to is None:
                    bad.append("%s: %s" % (T, d_to))
                    continue
                # relative to the standard unit's own SI magnitude (standard units are SI-coherent: checked via symbol below)
                if not close(a_to.A, wantA) or a_to.B != {}:
                    bad.append("%s: conversion body gives (%s)*v + (%s)" % (T, affine.n_show(a_to.A), affine.n_show(a_to.B)))
            ms, err = M.oracle_mag(ut, abbrs.get(x, ""))
            if ms is None:
                chk.inconclusive("R1", inst, "symbol %r: %s" % (abbrs.get(x), err), loc)
                continue
            if not ms:
                # the symbol is readable but none of its readings has the dimension the type declares (C06's business);
                # coherence is still decidable: compare the magnitudes of the readings with the coherent magnitude
                try:
                    ms = U.parse(abbrs.get(x, ""), primary_only=True)
                except U.ParseError as px:
                    chk.inconclusive("R1", inst, "symbol %r: %s" % (abbrs.get(x), px), loc)
                    continue
            if not any(m.q == want.q and m.k == want.k for m in ms):
                bad.append("symbol %r denotes %s" % (abbrs.get(x), ms[0]))
            detail = "system base units (T,L,M,I,Th,N,J) = %s; dims %s => coherent magnitude %s" % ([str(b.q) for b in bases[s]], dv, affine.n_show(wantA))
            if bad:
                chk.violated("R1", inst, detail + "; but " + "; ".join(bad), loc)
            else:
                chk.holds("R1", inst, detail, loc, nontrivial=(want.q != 1))
        # R3 reverse table
        rrows = M.T.rows("related", ut)
        rvar = M.T.var("related", ut)
        rloc = short(rvar["loc"]) if rvar else loc
        expect = {}
        for s in systems:
            if s in fw:
                expect.setdefault(fw[s], []).append(s)
        expect = {u: ss[0] for u, ss in expect.items() if len(ss) == 1}
        got = {}
        dups = []
        if rrows is not None:
            for k, v in rrows:
                if isinstance(k, tuple) and isinstance(v, tuple):
                    if k[2] in got:
                        dups.append(k[2])
                    got.setdefault(k[2], v[2])
        for u in M.T.enumerators(ut):
            n_rev += 1
            inst = "%s:%s" % (su, u)
            if got.get(u) != expect.get(u):
                chk.violated("R3", inst, "RelatedUnitSystems gives %s, but the forward table makes it the consistent unit of %s" % (got.get(u), expect.get(u, "no single system")), rloc)
            else:
                chk.holds("R3", inst, "-> %s" % got.get(u), rloc, nontrivial=u in got)
        if dups:
            chk.violated("R3", su + ":dups", "duplicate keys %s" % dups, rloc)
    # R4 idioms
    E = ev.Evaluator(F)
    for ut in M.unit_types():
        su = M.short(ut)
        fs = [f for f in F.by_name.get("PhQ::ConsistentUnit<%s>" % ut, [])]
        if len(fs) != 1:
            chk.inconclusive("R4", "ConsistentUnit<%s>" % su, "function not instantiated", "")
        else:
            f = fs[0]
            try:
                E = ev.Evaluator(F)
                r, _, _ = E.run_symbolic(f)
                var = M.T.var("consistent", ut)
                ok = isinstance(r, tuple) and r[:2] == ("fn", "lookup") and var is not None and r[2] == ("table", var["id"])
                (chk.holds if ok else chk.violated)("R4", "ConsistentUnit<%s>" % su, "returns " + ev.show(r)[:200], short(f["loc"]))
            except ev.Inconclusive as x:
                chk.inconclusive("R4", "ConsistentUnit<%s>" % su, str(x), short(f["loc"]))
        fs = [f for f in F.by_name.get("PhQ::RelatedUnitSystem<%s>" % ut, [])]
        if len(fs) != 1:
            chk.inconclusive("R4", "RelatedUnitSystem<%s>" % su, "function not instantiated", "")
            continue
        f = fs[0]
        try:
            E = ev.Evaluator(F)
            r, _, _ = E.run_symbolic(f)
            var = M.T.var("related", ut)
            ok = False
            if isinstance(r, tuple) and r[0] == "opt" and var is not None:
                found = ("b", "found", var["id"], ("enumsym", ut, "unit"))
                ok = (ev.assume(r[1], found, True) is True and ev.assume(r[1], found, False) is False
                      and ev.assume(r[2], found, True) == ("fn", "lookup", ("table", var["id"]), ("enumsym", ut, "unit")))
            (chk.holds if ok else chk.violated)("R4", "RelatedUnitSystem<%s>" % su, "returns " + ev.show(r)[:300], short(f["loc"]))
        except ev.Inconclusive as x:
            chk.inconclusive("R4", "RelatedUnitSystem<%s>" % su, str(x), short(f["loc"]))
    chk.floor("forward entries", n_fw, 140)
    chk.floor("reverse lookups", n_rev, 500)
    chk.coverage["forward_entries"] = n_fw
    chk.coverage["reverse_lookups"] = n_rev
