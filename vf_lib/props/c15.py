"""C15 — printing is lossless and canonical; serialisations are well-formed."""
import json
import math
import re
from fractions import Fraction

from .. import facts, ev, quant, tables
from ..facts import short, strip_cvref
from ..frontend import NUMERIC

MANT = {"float": 24, "double": 53, "long double": 64}
STO = {"float": "stof", "double": "stod", "long double": "stold"}
NAMES = {"planar": ["x", "y"], "vector": ["x", "y", "z"], "symdyad": ["xx", "xy", "xz", "yy", "yz", "zz"],
         "dyad": ["xx", "xy", "xz", "yx", "yy", "yz", "zx", "zy", "zz"]}
INF = Fraction(10) ** 400


def max_digits10(T):
    return math.ceil(1 + MANT[T] * math.log10(2))


def cval(t):
    if isinstance(t, int):
        return Fraction(t)
    if isinstance(t, tuple) and t and t[0] == "c":
        return t[1]
    if isinstance(t, tuple) and t and t[0] == "cast":
        return cval(t[2])
    return None


class Narrowed(Exception):
    pass


def is_abs_of(t, leaf, T=None):
    """Is t the magnitude |value| itself (possibly *widened*)?  A copy narrowed to a type with fewer significand
    bits than T is a different number: deciding the notation on it is a violation (raises Narrowed)."""
    while isinstance(t, tuple) and t and t[0] == "cast":
        if T is not None and t[1] in MANT and MANT[t[1]] < MANT[T]:
            inner = t[2]
            while isinstance(inner, tuple) and inner and inner[0] == "cast":
                inner = inner[2]
            if isinstance(inner, tuple) and inner[:2] == ("fn", "abs"):
                raise Narrowed("the notation is chosen from |value| narrowed to %s: %s values within half a %s ulp of an interval boundary "
                               "get the wrong notation/precision, and values too small for %s print as 0" % (t[1], T, t[1], t[1]))
        t = t[2]
    return isinstance(t, tuple) and t[:2] == ("fn", "abs") and t[2] == leaf


def _cap_hi(iv, k, closed):
    lo, lc, hi, hc = iv
    if k < hi:
        hi, hc = k, closed
    elif k == hi:
        hc = hc and closed
    return _nonempty((lo, lc, hi, hc))


def _cap_lo(iv, k, closed):
    lo, lc, hi, hc = iv
    if k > lo:
        lo, lc = k, closed
    elif k == lo:
        lc = lc and closed
    return _nonempty((lo, lc, hi, hc))


def _nonempty(iv):
    lo, lc, hi, hc = iv
    if lo > hi or (lo == hi and not (lc and hc)):
        return None
    return iv


def _contains(iv, k):
    lo, lc, hi, hc = iv
    return (lo < k or (lo == k and lc)) and (k < hi or (k == hi and hc))


def split(iv, op, k):
    """(part of iv where `|x| op k` holds, part where it does not); None = empty. Endpoints carry open/closed flags, so a
    boundary value that lands on the wrong side of a comparison (`>` for `>=`) is seen."""
    if op == "<":
        return _cap_hi(iv, k, False), _cap_lo(iv, k, True)
    if op == "<=":
        return _cap_hi(iv, k, True), _cap_lo(iv, k, False)
    if op == ">":
        return _cap_lo(iv, k, False), _cap_hi(iv, k, True)
    if op == ">=":
        return _cap_lo(iv, k, True), _cap_hi(iv, k, False)
    if op in ("==", "!="):
        if not _contains(iv, k):
            t, f = None, iv
        else:
            lo, lc, hi, hc = iv
            t = (k, True, k, True)
            if lo == k and hi == k:
                f = None
            elif lo == k:
                f = (lo, False, hi, hc)
            elif hi == k:
                f = (lo, lc, hi, False)
            else:
                raise ev.Inconclusive("equality test in the interior of an interval")
        return (t, f) if op == "==" else (f, t)
    raise ev.Inconclusive("Print compares |value| with operator " + op)


def walk_tree(t, leaf, iv, out, T=None):
    """t: gamma tree whose leaves are Arr of stream insertions; iv = (lo, lo_closed, hi, hi_closed) over |value|."""
    if isinstance(t, tuple) and t and t[0] == "g":
        c = t[1]
        neg = False
        while isinstance(c, tuple) and c[0] == "not":
            c, neg = c[1], not neg
        if isinstance(c, tuple) and c[0] in ("and", "or"):
            # a && b ? X : Y  =  a ? (b ? X : Y) : Y ;   a || b ? X : Y  =  a ? X : (b ? X : Y)
            X, Y = (t[3], t[2]) if neg else (t[2], t[3])
            if c[0] == "and":
                return walk_tree(("g", c[1], ("g", c[2], X, Y), Y), leaf, iv, out, T)
            return walk_tree(("g", c[1], X, ("g", c[2], X, Y)), leaf, iv, out, T)
        if not (isinstance(c, tuple) and c[0] == "cmp"):
            raise ev.Inconclusive("Print branches on %s (expected comparisons of |value| with constants)" % ev.show(t[1])[:120])
        op, x, y = c[1], c[2], c[3]
        if cval(x) is not None and is_abs_of(y, leaf, T):      # constant on the left: k op |x|
            x, y = y, x
            op = {"<": ">", ">": "<", "<=": ">=", ">=": "<="}.get(op, op)
        if not (is_abs_of(x, leaf, T) and cval(y) is not None):
            raise ev.Inconclusive("Print branches on %s (expected comparisons of |value| with constants)" % ev.show(t[1])[:120])
        k = cval(y)
        a, b = (t[3], t[2]) if neg else (t[2], t[3])   # a: branch where the comparison is true
        iv_t, iv_f = split(iv, op, k)
        if iv_t is not None:
            walk_tree(a, leaf, iv_t, out, T)
        if iv_f is not None:
            walk_tree(b, leaf, iv_f, out, T)
        return
    # a leaf may still hold conditional *values* (a precision chosen by a ternary chain on |value|): lift the first such
    # condition out of the leaf, split the interval on it and simplify both copies
    inner = _find_abs_condition(t, leaf, T)
    if inner is not None:
        op, k, cond = inner
        t_true, t_false = ev.assume(t, cond, True), ev.assume(t, cond, False)
        if _find_abs_condition(t_true, leaf, T) == inner or _find_abs_condition(t_false, leaf, T) == inner:
            raise ev.Inconclusive("a conditional value inside a Print branch could not be resolved: %s" % ev.show(cond)[:100])
        iv_t, iv_f = split(iv, op, k)
        if iv_t is not None:
            walk_tree(t_true, leaf, iv_t, out, T)
        if iv_f is not None:
            walk_tree(t_false, leaf, iv_f, out, T)
        return
    out.append((iv, t))


def _find_abs_condition(t, leaf, T):
    """First comparison `|value| op constant` that decides a conditional value inside t: (op, k, condition term)."""
    stack = [t]
    while stack:
        x = stack.pop()
        if isinstance(x, ev.Str):
            stack.extend(x.parts)
        elif isinstance(x, ev.Arr):
            stack.extend(x.items)
        elif isinstance(x, ev.Obj):
            stack.extend(x.f.values())
        elif isinstance(x, tuple) and x:
            if x[0] == "g":
                c = x[1]
                while isinstance(c, tuple) and c and c[0] == "not":
                    c = c[1]
                if isinstance(c, tuple) and c and c[0] == "cmp":
                    op, a, b = c[1], c[2], c[3]
                    if cval(a) is not None and is_abs_of(b, leaf, T):
                        a, b = b, a
                        op = {"<": ">", ">": "<", "<=": ">=", ">=": "<="}.get(op, op)
                    if is_abs_of(a, leaf, T) and cval(b) is not None:
                        return op, cval(b), c
            stack.extend(y for y in x if isinstance(y, (tuple, ev.Str, ev.Arr, ev.Obj)))
    return None


def within(iv, lo2, hi2):
    """Is iv a subset of [lo2, hi2)?"""
    lo, lc, hi, hc = iv
    return lo >= lo2 and (hi < hi2 or (hi == hi2 and not hc))


def decade(iv):
    """k such that iv is inside [10^k, 10^(k+1)), else None."""
    lo = iv[0]
    if lo <= 0:
        return None
    k = math.floor(math.log10(float(lo)) + 1e-12)
    for kk in (k - 1, k, k + 1):
        if within(iv, Fraction(10) ** kk, Fraction(10) ** (kk + 1)):
            return kk
    return None


def show_iv(iv):
    lo, lc, hi, hc = iv
    return "|x| in %s%s, %s%s" % ("[" if lc else "(", float(lo), "inf" if hi == INF else float(hi), "]" if hc else ")")


def manip_of(F, item):
    if isinstance(item, tuple) and item and item[0] == "fnref":
        g = F.fns.get(item[1])
        if g is not None and g["name"] in ("std::fixed", "std::scientific"):
            return ("manip", g["sname"])
    return item


EXP_DIGITS = {"": 3, "l": 3, "L": 4}     # most decimal digits of the exponent of a double / long double in %e notation (IEEE double, x87 extended)


def snprintf_truncations(t):
    """Format-length analysis of the snprintf calls inside an evaluated term: for a scientific conversion `%.*e` / `%.*Le` with a
    concrete precision p and a concrete buffer size n, the longest output is sign + digit + point + p digits + 'e' + sign +
    exponent digits; when that (plus the terminator) exceeds n, snprintf truncates and the printed number loses its last
    characters.  (Fixed conversions are not bounded here: their length depends on the magnitude.)"""
    out, seen = [], set()

    def walk(x):
        if isinstance(x, tuple) and x:
            if x[0] == "fn" and isinstance(x[1], str) and x[1].lstrip("?").split("::")[-1] == "snprintf" and len(x) >= 6 and id(x) not in seen:
                seen.add(id(x))
                size, fmt, prec = x[3], x[4], x[5]
                text = "".join(p for p in fmt.parts if isinstance(p, str)) if isinstance(fmt, ev.Str) else None
                m = re.fullmatch(r"%\.\*(l|L)?e", text or "")
                if m and isinstance(size, int) and isinstance(prec, int):
                    need = 1 + 1 + 1 + prec + 1 + 1 + EXP_DIGITS[m.group(1) or ""] + 1
                    if size < need:
                        out.append("snprintf(buffer, %d, \"%s\", %d, value) can produce %d characters plus the terminator (a negative value with a %d-digit "
                                   "exponent): the output is truncated and the printed number loses its last exponent digit, so it no longer parses "
                                   "back to the value" % (size, text, prec, need - 1, EXP_DIGITS[m.group(1) or ""]))
            for y in x:
                walk(y)
        elif isinstance(x, ev.Obj):
            for y in x.f.values():
                walk(y)
        elif isinstance(x, ev.Arr):
            for y in x.items:
                walk(y)
        elif isinstance(x, ev.Str):
            for y in x.parts:
                walk(y)
    walk(t)
    return out


def check_print_number(chk, F, T):
    fs = [f for f in F.by_qname.get("PhQ::Print", []) if "body" in f and len(f["params"]) == 1 and strip_cvref(F.T(f["params"][0]["t"])) == T]
    inst = "PhQ::Print<%s>" % T
    if len(fs) != 1:
        chk.inconclusive("R1", inst, "expected one instantiation, found %d" % len(fs), "PhQ/Base.hpp")
        return
    f = fs[0]
    loc = short(f["loc"])
    try:
        E = ev.Evaluator(F)
        res, _, _ = E.run_symbolic(f, arg_prefixes=["value"])
        r = E.rv(res)
        leaf = ("leaf", "value")
        leaves = []
        trunc = snprintf_truncations(r)
        if trunc:
            chk.violated("R1", inst, trunc[0], loc)
            return
        try:
            walk_tree(r, leaf, (Fraction(0), True, INF, False), leaves, T)
        except Narrowed as x:
            chk.violated("R1", inst, str(x), loc)
            return
        md = max_digits10(T)
        bad = []
        covered_zero = False
        for iv, items in leaves:
            lo, lc, hi, hc = iv
            if isinstance(items, ev.Str) and len(items.parts) == 1 and isinstance(items.parts[0], tuple) and items.parts[0][0] == "stream":
                items = items.parts[0][1]
            if isinstance(items, ev.Arr):
                items = items.items
            items = tuple(manip_of(F, i) for i in items) if isinstance(items, tuple) and not (items and items[0] == "g") else None
            desc = show_iv(iv)
            if items is None:
                bad.append("leaf %s is not a sequence of insertions" % desc)
                continue
            if lo == 0 and hi == 0:
                covered_zero = True
                if items != (0,):
                    bad.append("zero prints %s instead of 0" % ([ev.show(i) for i in items],))
                continue
            if lo == 0 and lc:
                bad.append("%s: zero is not printed by a branch of its own" % desc)
                continue
            if len(items) != 3 or not (isinstance(items[0], tuple) and items[0][0] == "manip") or not (isinstance(items[1], tuple) and items[1][:2] == ("manip", "setprecision")):
                bad.append("%s: inserts %s, expected notation, setprecision, value" % (desc, [ev.show(i)[:30] for i in items]))
                continue
            notation, prec, val = items[0][1], items[1][2], items[2]
            if val != leaf:
                bad.append("%s: inserts %s instead of the value itself" % (desc, ev.show(val)[:60]))
            inside = within(iv, Fraction(1, 1000), Fraction(10000))
            outside = within(iv, Fraction(0), Fraction(1, 1000)) or lo > 10000 or (lo == 10000 and lc) or lo >= 10000
            if inside:
                k = decade(iv)
                if notation != "fixed":
                    bad.append("%s: %s notation, expected fixed" % (desc, notation))
                elif k is None:
                    bad.append("%s: the branch is not inside one decade [10^k, 10^(k+1)), so the number of significant digits varies" % desc)
                elif prec != md - k:
                    bad.append("%s: fixed precision %s gives %s significant digits, expected precision %d (max_digits10 + 1 = %d digits)" % (desc, prec, prec + k + 1 if isinstance(prec, int) else "?", md - k, md + 1))
            elif outside:
                if notation != "scientific":
                    bad.append("%s: %s notation, expected scientific" % (desc, notation))
                elif prec != md:
                    bad.append("%s: scientific precision %s, expected max_digits10 = %d" % (desc, prec, md))
            else:
                bad.append("%s straddles a notation boundary (0.001 or 10000)" % desc)
        if not covered_zero:
            bad.append("no branch prints 0 for |x| == 0")
        if bad:
            chk.violated("R1", inst, "; ".join(bad[:3]), loc)
        else:
            chk.holds("R1", inst, "%d leaves partition [0, inf): fixed with max_digits10-k decimals on [10^k,10^(k+1)) for 0.001 <= |x| < 10000, scientific/max_digits10 outside, 0 for zero (max_digits10 = %d)" % (len(leaves), md), loc)
            chk.sample({"print_leaves": [show_iv(iv) for iv, _ in leaves]})
    except ev.Inconclusive as x:
        chk.inconclusive("R1", inst, str(x), loc)


def check_parse_number(chk, F, T):
    fs = [f for f in F.by_qname.get("PhQ::ParseNumber", []) if "body" in f and T == (f.get("targs") or [None])[0]]
    inst = "PhQ::ParseNumber<%s>" % T
    if len(fs) != 1:
        chk.inconclusive("R1", inst, "expected one specialisation, found %d" % len(fs), "PhQ/Base.hpp")
        return
    f = fs[0]
    try:
        E = ev.Evaluator(F)
        res, _, _ = E.run_symbolic(f)
        r = E.rv(res)
        ok = isinstance(r, tuple) and r[0] == "opt" and r[1] is True and isinstance(r[2], tuple) and r[2][:2] == ("fn", STO[T]) and r[2][2] == ev.Str([("strsym", f["params"][0]["n"])])
        (chk.holds if ok else chk.violated)("R1", inst, "on success returns %s(string)" % STO[T] if ok else "returns %s, expected std::%s of the argument" % (ev.show(r)[:160], STO[T]), short(f["loc"]))
    except ev.Inconclusive as x:
        chk.inconclusive("R1", inst, str(x), short(f["loc"]))


def render(s, numfmt="0", keep_holes=False):
    """Literal text of a string template, with each number hole replaced by numfmt."""
    out = ""
    if isinstance(s, ev.Str):
        for p in s.parts:
            if isinstance(p, str):
                out += p
            elif isinstance(p, ev.Str):
                out += render(p, numfmt)
            elif isinstance(p, tuple) and p[0] == "num":
                out += numfmt
            else:
                out += "\x00"
    return out


def nums_of(s):
    out = []
    if isinstance(s, ev.Str):
        for p in s.parts:
            if isinstance(p, tuple) and p and p[0] == "num":
                out.append(p[1])
            elif isinstance(p, ev.Str):
                out += nums_of(p)
    return out


def precision_problem(r, T):
    """The numbers of a composite form must be printed by PhQ::Print<T> from values that never passed through a narrower type."""
    from ..models import narrowing_casts
    probs = []

    def rec(s_):
        if isinstance(s_, ev.Str):
            for p in s_.parts:
                if isinstance(p, tuple) and p and p[0] == "num":
                    pt = p[2] if len(p) > 2 else T
                    if pt != T:
                        probs.append("a component is printed by PhQ::Print<%s> instead of PhQ::Print<%s>: it gets %s's number of digits, not %s's" % (pt, T, pt, T))
                    nar = narrowing_casts(p[1], T)
                    if nar:
                        probs.append("a component passes through %s before it is printed (%s)" % (nar[0][0], ev.show(nar[0][1])[:80]))
                elif isinstance(p, ev.Str):
                    rec(p)
    rec(r)
    return probs[0] if probs else None


def check_format(kind, text, names, unit_abbr):
    """text: the template with numbers replaced by 0. names: component labels (None for scalars)."""
    if kind == "JSON":
        try:
            doc = json.loads(text, object_pairs_hook=list)
        except Exception as x:
            return "not valid JSON (%s): %r" % (x, text[:80])
        def keys(d):
            return [k for k, _ in d] if isinstance(d, list) else None
        if unit_abbr is not None:
            if keys(doc) != ["value", "unit"]:
                return "fields %s, expected value, unit" % keys(doc)
            if dict(doc)["unit"] != unit_abbr:
                return "unit field %r, expected %r" % (dict(doc)["unit"], unit_abbr)
            doc = dict(doc)["value"]
        if names is None:
            return None if doc == 0 else "scalar value is %r" % (doc,)
        if keys(doc) != names:
            return "component fields %s, expected %s" % (keys(doc), names)
        return None
    if kind == "YAML":
        body = text
        if unit_abbr is not None:
            m = re.fullmatch(r'\{value:(.*),unit:"(.*)"\}', body, re.S)
            if not m:
                return "not of the form {value:...,unit:\"...\"}: %r" % text[:80]
            if m.group(2) != unit_abbr:
                return "unit %r, expected %r" % (m.group(2), unit_abbr)
            body = m.group(1)
        if names is None:
            return None if body == "0" else "scalar value text %r" % body
        want = "{" + ",".join("%s:0" % n for n in names) + "}"
        return None if body == want else "component text %r, expected %r" % (body[:80], want)
    if kind == "XML":
        body = text
        if unit_abbr is not None:
            m = re.fullmatch(r"<value>(.*)</value><unit>(.*)</unit>", body, re.S)
            if not m:
                return "not of the form <value>...</value><unit>...</unit>: %r" % text[:80]
            if m.group(2) != unit_abbr:
                return "unit %r, expected %r" % (m.group(2), unit_abbr)
            body = m.group(1)
        if names is None:
            return None if body == "0" else "scalar value text %r" % body
        want = "".join("<%s>0</%s>" % (n, n) for n in names)
        return None if body == want else "component text %r, expected %r" % (body[:80], want)
    if kind == "Print":
        body = text
        if unit_abbr is not None:
            if not body.endswith(" " + unit_abbr):
                return "does not end with ' %s'" % unit_abbr
            body = body[: -len(unit_abbr) - 1]
        if names is None:
            return None if body == "0" else "scalar value text %r" % body
        inner = body.strip("()")
        parts = [p.strip() for p in re.split(r"[;,]", inner)]
        return None if body.startswith("(") and body.endswith(")") and parts == ["0"] * len(names) else "component text %r, expected %d numbers in parentheses" % (body[:80], len(names))
    return "unknown format"


def run(chk):
    chk.level = "other"
    chk.technique = ("interval analysis of the decision tree of PhQ::Print<T> (path conditions over |value| give leaf intervals; notation and "
                     "precision per leaf compared with max_digits10 - k per decade); string-template evaluation of Print/JSON/XML/YAML of "
                     "every tensor and quantity class (number holes in slot order, literal text parsed as JSON / matched as XML, YAML); "
                     "operator<< shown to insert exactly Print()")
    chk.rule("R1", "Print<T>: leaves partition [0,inf); 0 for zero; fixed with precision max_digits10-k on each decade [10^k,10^(k+1)) inside [0.001,10000); "
                   "scientific with precision max_digits10 outside; the value itself is inserted; ParseNumber<T> uses the T-matching sto*")
    chk.rule("R2", "Print/JSON/XML/YAML of tensors and quantities consist of PhQ::Print(slot_i) in declared order with the declared labels and the standard unit's abbreviation; JSON is valid JSON")
    chk.rule("R3", "operator<< of every PhQ type inserts exactly Print()")
    chk.assumptions += [">= max_digits10 significant digits round-trip bit-exactly by the IEEE-754 round-trip theorem given correctly rounded printf/strto* (trusted libc); "
                        "libc's digit generation itself (the exhaustive 2^32 float sweep of the statement) is a dynamic experiment and is NOT reproduced",
                        "max_digits10 = ceil(1 + p log10 2): 9, 17, 21"]
    n2 = n3 = 0
    for T in NUMERIC:
        F = facts.load(T, chk.tier)
        check_print_number(chk, F, T)
        check_parse_number(chk, F, T)
        TT = tables.Tables(F)
        inv = quant.inventory(F)
        print_hook = lambda E_, fn, this_lv, args: ev.Str([("num", E_.rv(args[0]), strip_cvref(E_.F.T(fn["params"][0]["t"])))])
        for name, q in sorted(inv.items()):
            if q.kind == "base":
                continue
            names = NAMES.get(q.shape)
            unit_abbr = None
            if q.kind == "quantity" and q.unit is not None:
                std = TT.standard.get(q.unit)
                rows = dict((k[2], v) for k, v in (TT.rows("abbr", q.unit) or []) if isinstance(k, tuple))
                unit_abbr = rows.get(std)
            E0 = ev.Evaluator(F)
            slots = [t for _, t in ev.flatten(E0.symbolic(name, "self"))]
            prints = {}
            for kind in ("Print", "JSON", "XML", "YAML"):
                ms = quant.find_method(F, name, kind, lambda f: len(f["params"]) == 0)
                inst = "%s::%s()" % (name, kind)
                if not ms:
                    chk.violated("R2", inst, "member not found", short(q.rec["loc"]))
                    continue
                f = ms[0]
                n2 += 1
                try:
                    E = ev.Evaluator(F)
                    E.hooks["PhQ::Print"] = print_hook
                    res, _, _ = E.run_symbolic(f, this_prefix="self")
                    r = E.rv(res)
                    if kind == "Print":
                        prints[name] = r
                    ns = nums_of(r)
                    if ns != slots:
                        chk.violated("R2", inst, "prints %s, expected the stored components in declared order" % [ev.show(x)[:40] for x in ns][:9], short(f["loc"]))
                        continue
                    pp = precision_problem(r, T)
                    if pp:
                        chk.violated("R2", inst, pp, short(f["loc"]))
                        continue
                    text = render(r)
                    if "\x00" in text:
                        chk.inconclusive("R2", inst, "template contains a hole that is not a number: %s" % ev.show(r)[:160], short(f["loc"]))
                        continue
                    why = check_format(kind, text, names, unit_abbr)
                    if why:
                        chk.violated("R2", inst, why, short(f["loc"]))
                    else:
                        chk.holds("R2", inst, "template %r" % text[:70], short(f["loc"]))
                except ev.Inconclusive as x:
                    chk.inconclusive("R2", inst, str(x), short(f["loc"]))
            # R2 (unit-argument forms): same templates with the abbreviation of the *given* unit
            if q.kind == "quantity" and q.unit is not None:
                units = [e["n"] for e in F.enums[q.unit]["enumerators"]]
                std = TT.standard.get(q.unit)
                others = [u for u in units if u != std]
                if others:
                    x = others[(chk.seed + len(name)) % len(others)]
                    xabbr = dict((k[2], v) for k, v in (TT.rows("abbr", q.unit) or []) if isinstance(k, tuple)).get(x)
                    for kind in ("Print", "JSON", "XML", "YAML"):
                        ms = quant.find_method(F, name, kind, lambda f: len(f["params"]) == 1)
                        if not ms:
                            continue
                        f = ms[0]
                        inst = "%s::%s(%s)" % (name, kind, x)
                        n2 += 1
                        try:
                            E = ev.Evaluator(F)
                            E.hooks["PhQ::Print"] = print_hook
                            res, _, _ = E.run_symbolic(f, this_prefix="self", concrete={0: ("enum", q.unit, x)})
                            r = E.rv(res)
                            if len(nums_of(r)) != len(slots):
                                chk.violated("R2", inst, "prints %d numbers for %d components" % (len(nums_of(r)), len(slots)), short(f["loc"]))
                                continue
                            pp = precision_problem(r, T)
                            if pp:
                                chk.violated("R2", inst, pp, short(f["loc"]))
                                continue
                            text = render(r)
                            why = check_format(kind, text, names, xabbr) if "\x00" not in text else "template contains a non-number hole"
                            if why:
                                chk.violated("R2", inst, why, short(f["loc"]))
                            else:
                                chk.holds("R2", inst, "template %r" % text[:70], short(f["loc"]))
                        except ev.Inconclusive as x2:
                            chk.inconclusive("R2", inst, str(x2), short(f["loc"]))
            # R3 operator<<
            ops = [f for f in F.by_qname.get("PhQ::operator<<", []) if "body" in f and len(f["params"]) == 2 and strip_cvref(F.T(f["params"][1]["t"])) == name]
            inst = "operator<<(ostream, %s)" % name
            if len(ops) != 1:
                chk.violated("R3", inst, "expected one stream insertion operator, found %d" % len(ops), short(q.rec["loc"]))
                continue
            f = ops[0]
            n3 += 1
            try:
                E = ev.Evaluator(F)
                E.hooks["PhQ::Print"] = print_hook
                res, _, args = E.run_symbolic(f, arg_prefixes=["stream", "self"])
                st = E.load(args[0])
                items = st.f["out"].items if isinstance(st, ev.Obj) else None
                ok = items is not None and len(items) == 1 and items[0] == prints.get(name) and isinstance(res, ev.LV) and res.loc == args[0].loc
                (chk.holds if ok else chk.violated)("R3", inst, "inserts Print()" if ok else "stream receives %s" % ev.show(st)[:200], short(f["loc"]))
            except ev.Inconclusive as x:
                chk.inconclusive("R3", inst, str(x), short(f["loc"]))
    chk.floor("composite formatters (x3)", n2, 1100)
    chk.floor("stream operators (x3)", n3, 280)
    chk.coverage["composite_formatters"] = n2
    chk.coverage["stream_operators"] = n3
