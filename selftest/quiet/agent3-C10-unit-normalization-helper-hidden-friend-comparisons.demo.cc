// Differential program for the C10 structural refactor (directions as unit vectors).
// Prints every result exactly (hexfloat through long double, which is exact for all three types).
#include <PhQ/Acceleration.hpp>
#include <PhQ/Angle.hpp>
#include <PhQ/Area.hpp>
#include <PhQ/Direction.hpp>
#include <PhQ/Displacement.hpp>
#include <PhQ/Force.hpp>
#include <PhQ/HeatFlux.hpp>
#include <PhQ/Length.hpp>
#include <PhQ/PlanarAcceleration.hpp>
#include <PhQ/PlanarDirection.hpp>
#include <PhQ/PlanarDisplacement.hpp>
#include <PhQ/PlanarForce.hpp>
#include <PhQ/PlanarHeatFlux.hpp>
#include <PhQ/PlanarPosition.hpp>
#include <PhQ/PlanarTemperatureGradient.hpp>
#include <PhQ/PlanarTraction.hpp>
#include <PhQ/PlanarVector.hpp>
#include <PhQ/PlanarVelocity.hpp>
#include <PhQ/Position.hpp>
#include <PhQ/ScalarAcceleration.hpp>
#include <PhQ/ScalarForce.hpp>
#include <PhQ/ScalarHeatFlux.hpp>
#include <PhQ/ScalarTemperatureGradient.hpp>
#include <PhQ/ScalarTraction.hpp>
#include <PhQ/Speed.hpp>
#include <PhQ/TemperatureGradient.hpp>
#include <PhQ/Traction.hpp>
#include <PhQ/Vector.hpp>
#include <PhQ/VectorArea.hpp>
#include <PhQ/Velocity.hpp>

#include <array>
#include <cmath>
#include <cstdint>
#include <cstdio>
#include <functional>
#include <iostream>
#include <limits>
#include <random>
#include <set>
#include <sstream>
#include <string>
#include <vector>

namespace {

template <typename T>
void P(const char* tag, const T v) {
  std::printf(" %s=%La", tag, static_cast<long double>(v));
}

template <typename T>
void PV(const char* tag, const PhQ::Vector<T>& v) {
  std::printf(" %s=(%La,%La,%La)", tag, static_cast<long double>(v.x()),
              static_cast<long double>(v.y()), static_cast<long double>(v.z()));
}

template <typename T>
void PV(const char* tag, const PhQ::PlanarVector<T>& v) {
  std::printf(" %s=(%La,%La)", tag, static_cast<long double>(v.x()),
              static_cast<long double>(v.y()));
}

template <typename T>
void PD(const char* tag, const PhQ::Direction<T>& d) {
  PV(tag, d.Value());
  std::printf("[%La,%La,%La|%La,%La]", static_cast<long double>(d.x()),
              static_cast<long double>(d.y()), static_cast<long double>(d.z()),
              static_cast<long double>(d.MagnitudeSquared()),
              static_cast<long double>(d.Magnitude()));
}

template <typename T>
void PD(const char* tag, const PhQ::PlanarDirection<T>& d) {
  PV(tag, d.Value());
  std::printf("[%La,%La|%La,%La]", static_cast<long double>(d.x()),
              static_cast<long double>(d.y()), static_cast<long double>(d.MagnitudeSquared()),
              static_cast<long double>(d.Magnitude()));
}

template <typename A>
void Cmp(const char* tag, const A& a, const A& b) {
  std::printf(" %s=%d%d%d%d%d%d", tag, static_cast<int>(a == b), static_cast<int>(a != b),
              static_cast<int>(a < b), static_cast<int>(a > b), static_cast<int>(a <= b),
              static_cast<int>(a >= b));
}

// Three-dimensional vector quantity: Quantity, its scalar type and its unit type.
template <typename T, typename Quantity, typename Scalar, typename UnitT>
void Spatial(const char* name, const PhQ::Vector<T>& v, const bool has_direction_times_scalar) {
  const Quantity q(v, PhQ::Standard<UnitT>);
  std::printf("\n  %s:", name);
  const Scalar magnitude = q.Magnitude();
  P("mag", magnitude.Value());
  P("x", q.x().Value());
  P("y", q.y().Value());
  P("z", q.z().Value());
  const PhQ::Direction<T> d1 = q.Direction();
  const PhQ::Direction<T> d2(q);
  PD("dir", d1);
  PD("dirctor", d2);
  Cmp("cmp", d1, d2);
  const Quantity r1(magnitude, d1);
  PV("ctor", r1.Value());
  const auto r2 = magnitude * d1;
  PV("s*d", r2.Value());
  if (has_direction_times_scalar) {
    const auto r3 = d1 * magnitude;
    PV("d*s", r3.Value());
  }
}

template <typename T, typename Quantity, typename Scalar, typename UnitT>
void Planar(const char* name, const PhQ::PlanarVector<T>& v, const bool has_direction_times_scalar) {
  const Quantity q(v, PhQ::Standard<UnitT>);
  std::printf("\n  %s:", name);
  const Scalar magnitude = q.Magnitude();
  P("mag", magnitude.Value());
  P("x", q.x().Value());
  P("y", q.y().Value());
  const PhQ::PlanarDirection<T> d1 = q.PlanarDirection();
  const PhQ::PlanarDirection<T> d2(q);
  PD("dir", d1);
  PD("dirctor", d2);
  Cmp("cmp", d1, d2);
  const Quantity r1(magnitude, d1);
  PV("ctor", r1.Value());
  const auto r2 = magnitude * d1;
  PV("s*d", r2.Value());
  if (has_direction_times_scalar) {
    const auto r3 = d1 * magnitude;
    PV("d*s", r3.Value());
  }
}

template <typename T>
std::vector<std::array<T, 3>> Inputs(const int max_binade, const int random_count) {
  using L = std::numeric_limits<T>;
  std::vector<std::array<T, 3>> in;
  const T zero = static_cast<T>(0);
  const T nzero = -zero;
  const T one = static_cast<T>(1);
  const T specials[] = {zero,
                        nzero,
                        one,
                        -one,
                        static_cast<T>(3),
                        static_cast<T>(-4),
                        static_cast<T>(0.1L),
                        L::denorm_min(),
                        -L::denorm_min(),
                        L::min(),
                        L::epsilon(),
                        L::max(),
                        -L::max(),
                        std::sqrt(L::max()),
                        std::sqrt(L::min()),
                        L::infinity(),
                        L::quiet_NaN()};
  for (const T a : specials) {
    for (const T b : specials) {
      in.push_back({a, b, zero});
      in.push_back({a, nzero, b});
      in.push_back({one, a, b});
    }
  }
  // 3-4-5 style, axis aligned and near-degenerate cases.
  in.push_back({static_cast<T>(3), static_cast<T>(4), zero});
  in.push_back({static_cast<T>(2), static_cast<T>(-3), static_cast<T>(6)});
  in.push_back({one, L::epsilon(), L::epsilon()});
  in.push_back({one, std::sqrt(L::epsilon()), -std::sqrt(L::epsilon())});
  in.push_back({L::epsilon(), one, L::min()});
  std::mt19937_64 rng(20260927ULL);
  std::uniform_real_distribution<long double> uni(-1.0L, 1.0L);
  std::uniform_int_distribution<int> binade(-max_binade, max_binade);
  for (int i = 0; i < random_count; ++i) {
    const int k = binade(rng);
    const T x = static_cast<T>(std::ldexp(uni(rng), k));
    const T y = static_cast<T>(std::ldexp(uni(rng), k));
    const T z = static_cast<T>(std::ldexp(uni(rng), k));
    in.push_back({x, y, z});
    // Positive rescaling by a power of two and by a non-power of two.
    in.push_back({x * static_cast<T>(8), y * static_cast<T>(8), z * static_cast<T>(8)});
    in.push_back({x * static_cast<T>(3), y * static_cast<T>(3), z * static_cast<T>(3)});
    // Components of very different sizes.
    in.push_back({x, static_cast<T>(std::ldexp(static_cast<long double>(y), -binade(rng) / 4)),
                  static_cast<T>(std::ldexp(static_cast<long double>(z), binade(rng) / 8))});
  }
  return in;
}

template <typename T, typename U1, typename U2>
void Run(const char* type_name, const int max_binade, const int random_count) {
  const std::vector<std::array<T, 3>> inputs = Inputs<T>(max_binade, random_count);
  std::printf("=== %s: %zu inputs\n", type_name, inputs.size());
  PhQ::Direction<T> previous_direction;
  PhQ::PlanarDirection<T> previous_planar_direction;
  std::set<PhQ::Direction<T>> ordered;
  std::set<PhQ::PlanarDirection<T>> planar_ordered;
  std::size_t index = 0;
  for (const std::array<T, 3>& in : inputs) {
    const T x = in[0];
    const T y = in[1];
    const T z = in[2];
    const PhQ::Vector<T> v(x, y, z);
    const PhQ::PlanarVector<T> pv(x, y);
    std::printf("#%zu", index++);
    PV("in", v);

    // Three-dimensional construction paths.
    const PhQ::Direction<T> a(x, y, z);
    const PhQ::Direction<T> b(in);
    const PhQ::Direction<T> c(v);
    PhQ::Direction<T> d;
    d.Set(x, y, z);
    PhQ::Direction<T> e = PhQ::Direction<T>::Zero();
    e.Set(in);
    PhQ::Direction<T> f(static_cast<T>(1), static_cast<T>(2), static_cast<T>(3));
    f.Set(v);
    const PhQ::Direction<T> g = v.Direction();
    PD("a", a);
    PD("b", b);
    PD("c", c);
    PD("d", d);
    PD("e", e);
    PD("f", f);
    PD("g", g);
    Cmp("a~b", a, b);
    Cmp("a~prev", a, previous_direction);
    Cmp("prev~a", previous_direction, a);
    {
      std::ostringstream stream;
      stream << a << "|" << a.Print() << "|" << a.JSON();
      std::printf(" str=%s", stream.str().c_str());
    }
    std::printf(" hash=%zu", std::hash<PhQ::Direction<T>>()(a));
    PD("cross", a.Cross(previous_direction));
    PV("crossv", a.Cross(previous_direction.Value()));
    PV("vcross", v.Cross(previous_direction));
    P("dot", a.Dot(previous_direction));
    P("dotv", a.Dot(v));
    P("vdot", v.Dot(a));
    P("angle", a.Angle(previous_direction).Value());
    P("anglev", a.Angle(v).Value());
    P("vangle", v.Angle(a).Value());
    const T magnitude = v.Magnitude();
    P("mag", magnitude);
    P("mag2", v.MagnitudeSquared());
    PV("recomposed", PhQ::Vector<T>(magnitude, a));
    PV("times", a.Value() * magnitude);
    const PhQ::Direction<U1> u1(a);
    const PhQ::Direction<U2> u2(a);
    PD("u1", u1);
    PD("u2", u2);
    PhQ::Direction<T> back;
    back = u1;
    PD("back1", back);
    back = u2;
    PD("back2", back);
    ordered.insert(a);

    // Two-dimensional construction paths.
    const std::array<T, 2> in2{x, y};
    const PhQ::PlanarDirection<T> pa(x, y);
    const PhQ::PlanarDirection<T> pb(in2);
    const PhQ::PlanarDirection<T> pc(pv);
    PhQ::PlanarDirection<T> pd;
    pd.Set(x, y);
    PhQ::PlanarDirection<T> pe = PhQ::PlanarDirection<T>::Zero();
    pe.Set(in2);
    PhQ::PlanarDirection<T> pf(static_cast<T>(1), static_cast<T>(2));
    pf.Set(pv);
    const PhQ::PlanarDirection<T> pg = pv.PlanarDirection();
    std::printf("\n  planar:");
    PD("a", pa);
    PD("b", pb);
    PD("c", pc);
    PD("d", pd);
    PD("e", pe);
    PD("f", pf);
    PD("g", pg);
    Cmp("a~b", pa, pb);
    Cmp("a~prev", pa, previous_planar_direction);
    Cmp("prev~a", previous_planar_direction, pa);
    {
      std::ostringstream stream;
      stream << pa << "|" << pa.Print() << "|" << pa.YAML();
      std::printf(" str=%s", stream.str().c_str());
    }
    std::printf(" hash=%zu", std::hash<PhQ::PlanarDirection<T>>()(pa));
    PD("cross", pa.Cross(previous_planar_direction));
    PV("crossv", pa.Cross(previous_planar_direction.Value()));
    P("dot", pa.Dot(previous_planar_direction));
    P("angle", pa.Angle(previous_planar_direction).Value());
    P("anglev", pa.Angle(pv).Value());
    const T planar_magnitude = pv.Magnitude();
    P("mag", planar_magnitude);
    PV("recomposed", PhQ::PlanarVector<T>(planar_magnitude, pa));
    const PhQ::PlanarDirection<U1> pu1(pa);
    const PhQ::PlanarDirection<U2> pu2(pa);
    PD("u1", pu1);
    PD("u2", pu2);
    PhQ::PlanarDirection<T> planar_back;
    planar_back = pu1;
    PD("back1", planar_back);
    planar_back = pu2;
    PD("back2", planar_back);
    planar_ordered.insert(pa);

    // Conversions between two and three dimensions.
    PD("3from2", PhQ::Direction<T>(pa));
    PD("2from3", PhQ::PlanarDirection<T>(a));

    // All seventeen vector quantities.
    Spatial<T, PhQ::Acceleration<T>, PhQ::ScalarAcceleration<T>, PhQ::Unit::Acceleration>(
        "Acceleration", v, true);
    Spatial<T, PhQ::Displacement<T>, PhQ::Length<T>, PhQ::Unit::Length>("Displacement", v, false);
    Spatial<T, PhQ::Force<T>, PhQ::ScalarForce<T>, PhQ::Unit::Force>("Force", v, true);
    Spatial<T, PhQ::HeatFlux<T>, PhQ::ScalarHeatFlux<T>, PhQ::Unit::EnergyFlux>(
        "HeatFlux", v, true);
    Spatial<T, PhQ::Position<T>, PhQ::Length<T>, PhQ::Unit::Length>("Position", v, true);
    Spatial<T, PhQ::TemperatureGradient<T>, PhQ::ScalarTemperatureGradient<T>,
            PhQ::Unit::TemperatureGradient>("TemperatureGradient", v, true);
    Spatial<T, PhQ::Traction<T>, PhQ::ScalarTraction<T>, PhQ::Unit::Pressure>("Traction", v, true);
    Spatial<T, PhQ::VectorArea<T>, PhQ::Area<T>, PhQ::Unit::Area>("VectorArea", v, true);
    Spatial<T, PhQ::Velocity<T>, PhQ::Speed<T>, PhQ::Unit::Speed>("Velocity", v, true);
    Planar<T, PhQ::PlanarAcceleration<T>, PhQ::ScalarAcceleration<T>, PhQ::Unit::Acceleration>(
        "PlanarAcceleration", pv, true);
    Planar<T, PhQ::PlanarDisplacement<T>, PhQ::Length<T>, PhQ::Unit::Length>(
        "PlanarDisplacement", pv, false);
    Planar<T, PhQ::PlanarForce<T>, PhQ::ScalarForce<T>, PhQ::Unit::Force>("PlanarForce", pv, true);
    Planar<T, PhQ::PlanarHeatFlux<T>, PhQ::ScalarHeatFlux<T>, PhQ::Unit::EnergyFlux>(
        "PlanarHeatFlux", pv, true);
    Planar<T, PhQ::PlanarPosition<T>, PhQ::Length<T>, PhQ::Unit::Length>(
        "PlanarPosition", pv, true);
    Planar<T, PhQ::PlanarTemperatureGradient<T>, PhQ::ScalarTemperatureGradient<T>,
           PhQ::Unit::TemperatureGradient>("PlanarTemperatureGradient", pv, true);
    Planar<T, PhQ::PlanarTraction<T>, PhQ::ScalarTraction<T>, PhQ::Unit::Pressure>(
        "PlanarTraction", pv, true);
    Planar<T, PhQ::PlanarVelocity<T>, PhQ::Speed<T>, PhQ::Unit::Speed>("PlanarVelocity", pv, true);

    // A non-standard unit on the way in.
    {
      const PhQ::Force<T> pound(v, PhQ::Unit::Force::Pound);
      PD("\n  lbf", pound.Direction());
      P("lbfmag", pound.Magnitude().Value());
      PV("lbfre", (pound.Magnitude() * pound.Direction()).Value());
      const PhQ::PlanarVelocity<T> knot(pv, PhQ::Unit::Speed::Knot);
      PD("kn", knot.PlanarDirection());
      PV("knre", (knot.PlanarDirection() * knot.Magnitude()).Value());
    }
    std::printf("\n");
    previous_direction = a;
    previous_planar_direction = pa;
  }
  // Ordering through operator< (std::set with std::less).
  std::printf("ordered %zu:", ordered.size());
  for (const PhQ::Direction<T>& direction : ordered) {
    PV("", direction.Value());
  }
  std::printf("\nplanar ordered %zu:", planar_ordered.size());
  for (const PhQ::PlanarDirection<T>& direction : planar_ordered) {
    PV("", direction.Value());
  }
  std::printf("\n");
}

}  // namespace

int main() {
  Run<float, double, long double>("float", 60, 150);
  Run<double, float, long double>("double", 500, 150);
  Run<long double, float, double>("long double", 8000, 150);
  return 0;
}
