// Differential program for the refactor of PhQ::Convert / ConvertInPlace / ConvertStatically.
// Prints digests (FNV-1a over the value bytes) of every result, plus some full-precision samples.
#include <PhQ/Unit/Acceleration.hpp>
#include <PhQ/Unit/Angle.hpp>
#include <PhQ/Unit/AngularAcceleration.hpp>
#include <PhQ/Unit/AngularSpeed.hpp>
#include <PhQ/Unit/Area.hpp>
#include <PhQ/Unit/Diffusivity.hpp>
#include <PhQ/Unit/DynamicViscosity.hpp>
#include <PhQ/Unit/ElectricCharge.hpp>
#include <PhQ/Unit/ElectricCurrent.hpp>
#include <PhQ/Unit/Energy.hpp>
#include <PhQ/Unit/EnergyFlux.hpp>
#include <PhQ/Unit/Force.hpp>
#include <PhQ/Unit/Frequency.hpp>
#include <PhQ/Unit/HeatCapacity.hpp>
#include <PhQ/Unit/Length.hpp>
#include <PhQ/Unit/Mass.hpp>
#include <PhQ/Unit/MassDensity.hpp>
#include <PhQ/Unit/MassRate.hpp>
#include <PhQ/Unit/Memory.hpp>
#include <PhQ/Unit/MemoryRate.hpp>
#include <PhQ/Unit/Power.hpp>
#include <PhQ/Unit/Pressure.hpp>
#include <PhQ/Unit/ReciprocalTemperature.hpp>
#include <PhQ/Unit/SolidAngle.hpp>
#include <PhQ/Unit/SpecificEnergy.hpp>
#include <PhQ/Unit/SpecificHeatCapacity.hpp>
#include <PhQ/Unit/SpecificPower.hpp>
#include <PhQ/Unit/Speed.hpp>
#include <PhQ/Unit/SubstanceAmount.hpp>
#include <PhQ/Unit/Temperature.hpp>
#include <PhQ/Unit/TemperatureDifference.hpp>
#include <PhQ/Unit/TemperatureGradient.hpp>
#include <PhQ/Unit/ThermalConductivity.hpp>
#include <PhQ/Unit/Time.hpp>
#include <PhQ/Unit/TransportEnergyConsumption.hpp>
#include <PhQ/Unit/Volume.hpp>
#include <PhQ/Unit/VolumeRate.hpp>

#include <PhQ/Force.hpp>
#include <PhQ/Length.hpp>
#include <PhQ/Position.hpp>
#include <PhQ/Stress.hpp>
#include <PhQ/Temperature.hpp>
#include <PhQ/Velocity.hpp>
#include <PhQ/VelocityGradient.hpp>

#include <array>
#include <cstdint>
#include <cstdio>
#include <cstring>
#include <limits>
#include <random>
#include <string>
#include <utility>
#include <vector>

#define UNIT_TYPES(X)                                                                        \
  X(Acceleration, 39) X(Angle, 5) X(AngularAcceleration, 15) X(AngularSpeed, 15) X(Area, 15) \
  X(Diffusivity, 15) X(DynamicViscosity, 7) X(ElectricCharge, 25) X(ElectricCurrent, 11)     \
  X(Energy, 32) X(EnergyFlux, 4) X(Force, 9) X(Frequency, 6) X(HeatCapacity, 4)              \
  X(Length, 13) X(Mass, 5) X(MassDensity, 6) X(MassRate, 15) X(Memory, 22)                   \
  X(MemoryRate, 66) X(Power, 9) X(Pressure, 8) X(ReciprocalTemperature, 4)                   \
  X(SolidAngle, 4) X(SpecificEnergy, 4) X(SpecificHeatCapacity, 4) X(SpecificPower, 4)       \
  X(Speed, 39) X(SubstanceAmount, 5) X(Temperature, 4) X(TemperatureDifference, 4)           \
  X(TemperatureGradient, 8) X(ThermalConductivity, 3) X(Time, 6)                             \
  X(TransportEnergyConsumption, 19) X(Volume, 15) X(VolumeRate, 45)

namespace {

struct Digest {
  std::uint64_t h = 1469598103934665603ULL;
  std::uint64_t count = 0;
  void bytes(const void* p, std::size_t n) {
    const unsigned char* c = static_cast<const unsigned char*>(p);
    for (std::size_t i = 0; i < n; ++i) {
      h ^= c[i];
      h *= 1099511628211ULL;
    }
  }
  template <typename T>
  void value(const T v) {
    // long double: only the 10 value bytes are meaningful on x86-64, the rest is padding.
    constexpr std::size_t n = std::is_same<T, long double>::value ? 10 : sizeof(T);
    unsigned char buffer[sizeof(T)];
    std::memcpy(buffer, &v, sizeof(T));
    bytes(buffer, n);
    ++count;
  }
  template <typename T, std::size_t N>
  void value(const std::array<T, N>& a) {
    for (const T v : a) {
      value(v);
    }
  }
  template <typename T>
  void value(const std::vector<T>& a) {
    const std::uint64_t n = a.size();
    bytes(&n, sizeof(n));
    for (const T v : a) {
      value(v);
    }
  }
  template <typename T>
  void value(const PhQ::PlanarVector<T>& v) {
    value(v.x_y());
  }
  template <typename T>
  void value(const PhQ::Vector<T>& v) {
    value(v.x_y_z());
  }
  template <typename T>
  void value(const PhQ::SymmetricDyad<T>& v) {
    value(v.xx_xy_xz_yy_yz_zz());
  }
  template <typename T>
  void value(const PhQ::Dyad<T>& v) {
    value(v.xx_xy_xz_yx_yy_yz_zx_zy_zz());
  }
};

template <typename T>
const char* TypeName() {
  if (std::is_same<T, float>::value) return "float";
  if (std::is_same<T, double>::value) return "double";
  return "long double";
}

template <typename T>
std::string Hex(const T v) {
  char buffer[128];
  std::snprintf(buffer, sizeof(buffer), "%La", static_cast<long double>(v));
  return buffer;
}

template <typename T>
std::vector<T> Inputs() {
  using L = std::numeric_limits<T>;
  std::vector<T> in{
      static_cast<T>(0),
      -static_cast<T>(0),
      L::denorm_min(),
      -L::denorm_min(),
      L::min(),
      -L::min(),
      L::min() * static_cast<T>(1000),
      L::epsilon(),
      static_cast<T>(1),
      static_cast<T>(-1),
      static_cast<T>(1.2345678901234567890L),
      static_cast<T>(-1.2345678901234567890L),
      static_cast<T>(273.15L),
      static_cast<T>(-273.15L),
      static_cast<T>(459.67L),
      static_cast<T>(-459.67L),
      static_cast<T>(32),
      static_cast<T>(-40),
      static_cast<T>(0.1L),
      static_cast<T>(1.0e-7L),
      static_cast<T>(3.0e8L),
      static_cast<T>(6.02214076e23L),
      L::max(),
      -L::max(),
      L::max() / static_cast<T>(1.0e6L),
      -L::max() / static_cast<T>(3.0e9L),
      L::infinity(),
      -L::infinity(),
      L::quiet_NaN(),
  };
  std::mt19937_64 gen(20260927ULL + sizeof(T));
  std::uniform_real_distribution<long double> mantissa(-10.0L, 10.0L);
  std::uniform_int_distribution<int> exponent(-30, 30);
  for (int i = 0; i < 14; ++i) {
    long double v = mantissa(gen);
    const int e = exponent(gen);
    for (int k = 0; k < (e < 0 ? -e : e); ++k) {
      v = e < 0 ? v / 10.0L : v * 10.0L;
    }
    in.push_back(static_cast<T>(v));
  }
  return in;
}

// ---------------------------------------------------------------------------------------------
// Run-time entry points: every ordered pair of units of every unit type, every shape.
// ---------------------------------------------------------------------------------------------
template <typename U, typename T>
void RunTime(const char* name, const std::size_t expected_count) {
  std::vector<U> units;
  for (const auto& entry : PhQ::Internal::MapOfConversionsToStandard<U, T>) {
    units.push_back(entry.first);
  }
  if (units.size() != expected_count
      || PhQ::Internal::MapOfConversionsFromStandard<U, T>.size() != expected_count) {
    std::printf("COUNT MISMATCH %s\n", name);
  }
  const std::vector<T> in = Inputs<T>();
  const std::size_t n = in.size();
  Digest scalar, scalar_ip, arr, arr_ip, vec, vec_ip, pv, pv_ip, v3, v3_ip, sd, sd_ip, dy, dy_ip,
      untouched;
  for (const U a : units) {
    for (const U b : units) {
      // The vector of all inputs at once, and empty / single-element vectors.
      {
        const std::vector<T> all = PhQ::Convert<U, T>(in, a, b);
        vec.value(all);
        untouched.value(in);
        std::vector<T> copy{in};
        PhQ::ConvertInPlace<U, T>(copy, a, b);
        vec_ip.value(copy);
        std::vector<T> empty;
        vec.value(PhQ::Convert<U, T>(empty, a, b));
        PhQ::ConvertInPlace<U, T>(empty, a, b);
        vec_ip.value(empty);
        std::vector<T> one{in[10]};
        vec.value(PhQ::Convert<U, T>(one, a, b));
        PhQ::ConvertInPlace<U, T>(one, a, b);
        vec_ip.value(one);
      }
      for (std::size_t i = 0; i < n; ++i) {
        const T x0 = in[i];
        const T x1 = in[(i + 1) % n];
        const T x2 = in[(i + 5) % n];
        const T x3 = in[(i + 11) % n];
        const T x4 = in[(i + 17) % n];
        const T x5 = in[(i + 23) % n];
        const T x6 = in[(i + 29) % n];
        const T x7 = in[(i + 31) % n];
        const T x8 = in[(i + 37) % n];
        // Scalars.
        scalar.value(PhQ::Convert<U, T>(x0, a, b));
        T s = x0;
        PhQ::ConvertInPlace<U, T>(s, a, b);
        scalar_ip.value(s);
        // Arrays.
        const std::array<T, 5> a5{x0, x1, x2, x3, x4};
        arr.value(PhQ::Convert<U, 5, T>(a5, a, b));
        untouched.value(a5);
        std::array<T, 5> a5c{a5};
        PhQ::ConvertInPlace<U, 5, T>(a5c, a, b);
        arr_ip.value(a5c);
        const std::array<T, 1> a1{x3};
        arr.value(PhQ::Convert<U, 1, T>(a1, a, b));
        // Planar vectors.
        const PhQ::PlanarVector<T> p{x0, x1};
        pv.value(PhQ::Convert<U, T>(p, a, b));
        untouched.value(p);
        PhQ::PlanarVector<T> pc{p};
        PhQ::ConvertInPlace<U, T>(pc, a, b);
        pv_ip.value(pc);
        // Vectors.
        const PhQ::Vector<T> v{x0, x1, x2};
        v3.value(PhQ::Convert<U, T>(v, a, b));
        untouched.value(v);
        PhQ::Vector<T> vc{v};
        PhQ::ConvertInPlace<U, T>(vc, a, b);
        v3_ip.value(vc);
        // Symmetric dyads.
        const PhQ::SymmetricDyad<T> d6{x0, x1, x2, x3, x4, x5};
        sd.value(PhQ::Convert<U, T>(d6, a, b));
        untouched.value(d6);
        PhQ::SymmetricDyad<T> d6c{d6};
        PhQ::ConvertInPlace<U, T>(d6c, a, b);
        sd_ip.value(d6c);
        // Dyads.
        const PhQ::Dyad<T> d9{x0, x1, x2, x3, x4, x5, x6, x7, x8};
        dy.value(PhQ::Convert<U, T>(d9, a, b));
        untouched.value(d9);
        PhQ::Dyad<T> d9c{d9};
        PhQ::ConvertInPlace<U, T>(d9c, a, b);
        dy_ip.value(d9c);
      }
    }
  }
  std::printf(
      "RT %-26s %-11s n=%llu scalar=%016llx/%016llx array=%016llx/%016llx vector=%016llx/%016llx "
      "planar=%016llx/%016llx vec3=%016llx/%016llx symdyad=%016llx/%016llx dyad=%016llx/%016llx "
      "inputs=%016llx\n",
      name, TypeName<T>(), static_cast<unsigned long long>(scalar.count),
      (unsigned long long)scalar.h, (unsigned long long)scalar_ip.h, (unsigned long long)arr.h,
      (unsigned long long)arr_ip.h, (unsigned long long)vec.h, (unsigned long long)vec_ip.h,
      (unsigned long long)pv.h, (unsigned long long)pv_ip.h, (unsigned long long)v3.h,
      (unsigned long long)v3_ip.h, (unsigned long long)sd.h, (unsigned long long)sd_ip.h,
      (unsigned long long)dy.h, (unsigned long long)dy_ip.h, (unsigned long long)untouched.h);
  // A few full-precision samples: first unit -> last unit and back, a handful of inputs.
  const U first = units.front();
  const U last = units.back();
  for (const std::size_t i : {std::size_t{10}, std::size_t{12}, std::size_t{20}, n - 1}) {
    std::printf("  sample %s %s in=%s fwd=%s back=%s\n", name, TypeName<T>(), Hex(in[i]).c_str(),
                Hex(PhQ::Convert<U, T>(in[i], first, last)).c_str(),
                Hex(PhQ::Convert<U, T>(in[i], last, first)).c_str());
  }
}

// ---------------------------------------------------------------------------------------------
// Compile-time entry points: selected pairs of units of every unit type, every shape.
// ---------------------------------------------------------------------------------------------
template <typename U, U A, U B, typename T>
void StaticPair(const std::vector<T>& in, Digest& digest, Digest& cross) {
  const std::size_t n = in.size();
  for (std::size_t i = 0; i < n; ++i) {
    const T x0 = in[i];
    const T x1 = in[(i + 1) % n];
    const T x2 = in[(i + 5) % n];
    const T x3 = in[(i + 11) % n];
    const T x4 = in[(i + 17) % n];
    const T x5 = in[(i + 23) % n];
    const T x6 = in[(i + 29) % n];
    const T x7 = in[(i + 31) % n];
    const T x8 = in[(i + 37) % n];
    const T s = PhQ::ConvertStatically<U, A, B, T>(x0);
    digest.value(s);
    digest.value(PhQ::ConvertStatically<U, A, B, 5, T>(std::array<T, 5>{x0, x1, x2, x3, x4}));
    digest.value(PhQ::ConvertStatically<U, A, B, 1, T>(std::array<T, 1>{x2}));
    digest.value(PhQ::ConvertStatically<U, A, B, T>(PhQ::PlanarVector<T>{x0, x1}));
    digest.value(PhQ::ConvertStatically<U, A, B, T>(PhQ::Vector<T>{x0, x1, x2}));
    digest.value(
        PhQ::ConvertStatically<U, A, B, T>(PhQ::SymmetricDyad<T>{x0, x1, x2, x3, x4, x5}));
    digest.value(
        PhQ::ConvertStatically<U, A, B, T>(PhQ::Dyad<T>{x0, x1, x2, x3, x4, x5, x6, x7, x8}));
    // The run-time form for the same pair, hashed separately.
    cross.value(PhQ::Convert<U, T>(x0, A, B));
  }
}

template <typename U, std::size_t N, typename T, std::size_t I>
void StaticUnit(const std::vector<T>& in, Digest& digest, Digest& cross) {
  constexpr U kThis = static_cast<U>(I);
  constexpr U kZero = static_cast<U>(0);
  constexpr U kNext = static_cast<U>((I + 1) % N);
  constexpr U kFar = static_cast<U>((I * 7 + 3) % N);
  StaticPair<U, kThis, kZero, T>(in, digest, cross);
  StaticPair<U, kZero, kThis, T>(in, digest, cross);
  StaticPair<U, kThis, kNext, T>(in, digest, cross);
  StaticPair<U, kThis, kFar, T>(in, digest, cross);
  StaticPair<U, kThis, kThis, T>(in, digest, cross);
  StaticPair<U, kThis, PhQ::Standard<U>, T>(in, digest, cross);
  StaticPair<U, PhQ::Standard<U>, kThis, T>(in, digest, cross);
}

template <typename U, std::size_t N, typename T, std::size_t... I>
void StaticAll(const char* name, std::index_sequence<I...>) {
  const std::vector<T> in = Inputs<T>();
  Digest digest, cross;
  (StaticUnit<U, N, T, I>(in, digest, cross), ...);
  std::printf("ST %-26s %-11s n=%llu static=%016llx runtime_scalar=%016llx\n", name, TypeName<T>(),
              static_cast<unsigned long long>(digest.count), (unsigned long long)digest.h,
              (unsigned long long)cross.h);
}

template <typename U, std::size_t N>
void UnitType(const char* name) {
  RunTime<U, float>(name, N);
  RunTime<U, double>(name, N);
  RunTime<U, long double>(name, N);
  StaticAll<U, N, float>(name, std::make_index_sequence<N>{});
  StaticAll<U, N, double>(name, std::make_index_sequence<N>{});
  StaticAll<U, N, long double>(name, std::make_index_sequence<N>{});
}

// Constant-expression use of the compile-time forms.
constexpr double kFootInMetres =
    PhQ::ConvertStatically<PhQ::Unit::Length, PhQ::Unit::Length::Foot, PhQ::Unit::Length::Metre>(
        1.0);
constexpr float kFahrenheitInCelsius =
    PhQ::ConvertStatically<PhQ::Unit::Temperature, PhQ::Unit::Temperature::Fahrenheit,
                           PhQ::Unit::Temperature::Celsius>(98.6F);
constexpr std::array<long double, 3> kMilesInInches =
    PhQ::ConvertStatically<PhQ::Unit::Length, PhQ::Unit::Length::Mile, PhQ::Unit::Length::Inch, 3,
                           long double>(std::array<long double, 3>{1.0L, -2.5L, 0.0L});
constexpr PhQ::Vector<double> kKnots =
    PhQ::ConvertStatically<PhQ::Unit::Speed, PhQ::Unit::Speed::MilePerHour,
                           PhQ::Unit::Speed::Knot, double>(PhQ::Vector<double>{1.0, -2.0, 3.5});
constexpr PhQ::PlanarVector<float> kPlanar =
    PhQ::ConvertStatically<PhQ::Unit::Force, PhQ::Unit::Force::Pound, PhQ::Unit::Force::Newton,
                           float>(PhQ::PlanarVector<float>{1.0F, -2.0F});
constexpr PhQ::SymmetricDyad<double> kSym =
    PhQ::ConvertStatically<PhQ::Unit::Pressure, PhQ::Unit::Pressure::PoundPerSquareInch,
                           PhQ::Unit::Pressure::Kilopascal, double>(
        PhQ::SymmetricDyad<double>{1.0, 2.0, 3.0, 4.0, 5.0, 6.0});
constexpr PhQ::Dyad<long double> kDyad =
    PhQ::ConvertStatically<PhQ::Unit::Frequency, PhQ::Unit::Frequency::PerMinute,
                           PhQ::Unit::Frequency::Kilohertz, long double>(
        PhQ::Dyad<long double>{1.0L, 2.0L, 3.0L, 4.0L, 5.0L, 6.0L, 7.0L, 8.0L, 9.0L});

template <typename T>
void Quantities() {
  const std::vector<T> in = Inputs<T>();
  Digest digest;
  for (const T x : in) {
    const PhQ::Length<T> length(x, PhQ::Unit::Length::Foot);
    digest.value(length.Value());
    digest.value(length.Value(PhQ::Unit::Length::Mile));
    digest.value(length.template StaticValue<PhQ::Unit::Length::Inch>());
    const PhQ::Temperature<T> temperature(x, PhQ::Unit::Temperature::Fahrenheit);
    digest.value(temperature.Value());
    digest.value(temperature.Value(PhQ::Unit::Temperature::Celsius));
    digest.value(temperature.template StaticValue<PhQ::Unit::Temperature::Rankine>());
    const PhQ::Position<T> position({x, -x, x / static_cast<T>(3)}, PhQ::Unit::Length::Yard);
    digest.value(position.Value());
    digest.value(position.Value(PhQ::Unit::Length::Millimetre));
    digest.value(position.template StaticValue<PhQ::Unit::Length::Mile>());
    const PhQ::Velocity<T> velocity({x, x, -x}, PhQ::Unit::Speed::Knot);
    digest.value(velocity.Value());
    digest.value(velocity.Value(PhQ::Unit::Speed::FootPerSecond));
    const PhQ::Force<T> force({x, x, -x}, PhQ::Unit::Force::Pound);
    digest.value(force.Value());
    digest.value(force.Value(PhQ::Unit::Force::Kilonewton));
    const PhQ::Stress<T> stress(
        {x, -x, x, x, -x, x / static_cast<T>(7)}, PhQ::Unit::Pressure::PoundPerSquareFoot);
    digest.value(stress.Value());
    digest.value(stress.Value(PhQ::Unit::Pressure::Bar));
    digest.value(stress.template StaticValue<PhQ::Unit::Pressure::Megapascal>());
    const PhQ::VelocityGradient<T> gradient(
        {x, -x, x, x, -x, x, x, -x, x / static_cast<T>(9)}, PhQ::Unit::Frequency::PerHour);
    digest.value(gradient.Value());
    digest.value(gradient.Value(PhQ::Unit::Frequency::PerMinute));
    digest.value(gradient.template StaticValue<PhQ::Unit::Frequency::Kilohertz>());
  }
  std::printf("QT %-11s n=%llu digest=%016llx\n", TypeName<T>(),
              static_cast<unsigned long long>(digest.count), (unsigned long long)digest.h);
}

}  // namespace

int main() {
#define X(NAME, COUNT) UnitType<PhQ::Unit::NAME, COUNT>(#NAME);
  UNIT_TYPES(X)
#undef X
  std::printf("CE foot=%s fahrenheit=%s miles=%s,%s,%s\n", Hex(kFootInMetres).c_str(),
              Hex(kFahrenheitInCelsius).c_str(), Hex(kMilesInInches[0]).c_str(),
              Hex(kMilesInInches[1]).c_str(), Hex(kMilesInInches[2]).c_str());
  std::printf("CE knots=%s,%s,%s planar=%s,%s\n", Hex(kKnots.x()).c_str(), Hex(kKnots.y()).c_str(),
              Hex(kKnots.z()).c_str(), Hex(kPlanar.x()).c_str(), Hex(kPlanar.y()).c_str());
  Digest ce;
  ce.value(kSym);
  ce.value(kDyad);
  std::printf("CE sym/dyad digest=%016llx sym.xx=%s dyad.zz=%s\n", (unsigned long long)ce.h,
              Hex(kSym.xx()).c_str(), Hex(kDyad.zz()).c_str());
  Quantities<float>();
  Quantities<double>();
  Quantities<long double>();
  return 0;
}
