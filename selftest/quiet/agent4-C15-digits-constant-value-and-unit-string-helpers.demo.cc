// Differential program for the C15t refactor: PhQ::Print and the Print/JSON/XML/YAML members of
// DimensionalScalar (through several concrete scalar quantities), plus a few composite quantities.
#include <PhQ/Base.hpp>
#include <PhQ/Energy.hpp>
#include <PhQ/Force.hpp>
#include <PhQ/Length.hpp>
#include <PhQ/Mass.hpp>
#include <PhQ/Position.hpp>
#include <PhQ/StaticPressure.hpp>
#include <PhQ/Stress.hpp>
#include <PhQ/Temperature.hpp>
#include <PhQ/Time.hpp>
#include <PhQ/Vector.hpp>

#include <cmath>
#include <cstdint>
#include <iostream>
#include <limits>
#include <random>
#include <sstream>
#include <string>
#include <vector>

static std::uint64_t g_hash = 1469598103934665603ULL;
static std::uint64_t g_count = 0;

static void Feed(const std::string& text) {
  for (const char c : text) {
    g_hash ^= static_cast<unsigned char>(c);
    g_hash *= 1099511628211ULL;
  }
  g_hash ^= 0xFFU;
  g_hash *= 1099511628211ULL;
  ++g_count;
}

static void Digest(const char* label) {
  std::cout << label << " count=" << g_count << " fnv=" << std::hex << g_hash << std::dec << "\n";
}

template <typename T>
static std::vector<T> EdgeValues() {
  using L = std::numeric_limits<T>;
  std::vector<T> v{static_cast<T>(0.0), static_cast<T>(-0.0), L::min(), -L::min(), L::denorm_min(),
                   -L::denorm_min(), L::max(), L::lowest(), L::epsilon(), L::infinity(),
                   -L::infinity(), L::quiet_NaN(), static_cast<T>(1.0), static_cast<T>(-1.0),
                   static_cast<T>(273.15), static_cast<T>(-273.15), static_cast<T>(459.67),
                   static_cast<T>(1.0) / static_cast<T>(3.0), static_cast<T>(2.0) / static_cast<T>(3.0),
                   static_cast<T>(123456789.0), static_cast<T>(-0.000123456789)};
  const T boundaries[] = {static_cast<T>(0.001), static_cast<T>(0.01), static_cast<T>(0.1),
                          static_cast<T>(1.0), static_cast<T>(10.0), static_cast<T>(100.0),
                          static_cast<T>(1000.0), static_cast<T>(10000.0), static_cast<T>(0.001L),
                          static_cast<T>(0.0009999999L), static_cast<T>(9999.99999999L),
                          static_cast<T>(0.99999999999L), static_cast<T>(9.9999999999L),
                          static_cast<T>(99.999999999L), static_cast<T>(999.99999999L)};
  for (const T b : boundaries) {
    T down = b;
    T up = b;
    v.push_back(b);
    v.push_back(-b);
    for (int i = 0; i < 4; ++i) {
      down = std::nextafter(down, static_cast<T>(0.0));
      up = std::nextafter(up, L::infinity());
      v.push_back(down);
      v.push_back(up);
      v.push_back(-down);
      v.push_back(-up);
    }
  }
  return v;
}

template <typename T>
static std::vector<T> RandomValues(const int n, const unsigned seed) {
  std::mt19937_64 gen(seed);
  std::uniform_real_distribution<double> mantissa(1.0, 10.0);
  std::uniform_int_distribution<int> exponent(-12, 12);
  std::uniform_int_distribution<int> wide(std::numeric_limits<T>::min_exponent10 + 1,
                                          std::numeric_limits<T>::max_exponent10 - 1);
  std::uniform_int_distribution<int> coin(0, 1);
  std::vector<T> v;
  for (int i = 0; i < n; ++i) {
    const int e = (i % 4 == 0) ? wide(gen) : exponent(gen);
    T x = static_cast<T>(mantissa(gen)) * std::pow(static_cast<T>(10.0), static_cast<T>(e));
    // Perturb the low bits so that long double values use the full mantissa.
    x = x * (static_cast<T>(1.0) + std::numeric_limits<T>::epsilon() * static_cast<T>(i % 7));
    v.push_back(coin(gen) != 0 ? x : -x);
  }
  return v;
}

template <typename T>
static void NumberPrinting(const char* label) {
  std::cout << "== PhQ::Print " << label << "\n";
  const std::vector<T> edges = EdgeValues<T>();
  for (const T x : edges) {
    const std::string s = PhQ::Print(x);
    Feed(s);
    std::cout << s << "\n";
  }
  for (const T x : RandomValues<T>(200000, 12345U)) {
    Feed(PhQ::Print(x));
  }
  Digest(label);
}

template <typename Quantity, typename UnitType, typename T>
static void ScalarForms(const char* label, const std::vector<T>& values, const bool show) {
  std::vector<UnitType> units;
  for (const auto& entry : PhQ::Internal::Abbreviations<UnitType>) {
    units.push_back(entry.first);
  }
  std::size_t index = 0;
  for (const T x : values) {
    const UnitType in = units[index % units.size()];
    ++index;
    const Quantity q(x, in);
    std::ostringstream stream;
    stream << q;
    const std::string forms[] = {q.Print(), q.JSON(), q.XML(), q.YAML(), stream.str()};
    for (const std::string& s : forms) {
      Feed(s);
      if (show && index <= 6) {
        std::cout << s << "\n";
      }
    }
    for (const UnitType out : units) {
      const std::string converted[] = {q.Print(out), q.JSON(out), q.XML(out), q.YAML(out)};
      for (const std::string& s : converted) {
        Feed(s);
        if (show && index <= 2) {
          std::cout << s << "\n";
        }
      }
    }
  }
  Digest(label);
}

template <typename T>
static void Quantities(const char* label) {
  std::cout << "== quantities " << label << "\n";
  std::vector<T> values = EdgeValues<T>();
  const std::vector<T> random = RandomValues<T>(3000, 777U);
  values.insert(values.end(), random.begin(), random.end());
  ScalarForms<PhQ::Length<T>, PhQ::Unit::Length, T>("Length", values, true);
  ScalarForms<PhQ::Time<T>, PhQ::Unit::Time, T>("Time", values, true);
  ScalarForms<PhQ::Temperature<T>, PhQ::Unit::Temperature, T>("Temperature", values, true);
  ScalarForms<PhQ::Mass<T>, PhQ::Unit::Mass, T>("Mass", values, false);
  ScalarForms<PhQ::StaticPressure<T>, PhQ::Unit::Pressure, T>("StaticPressure", values, false);
  ScalarForms<PhQ::Energy<T>, PhQ::Unit::Energy, T>("Energy", values, true);

  // Composite quantities: not refactored themselves, but they are built from PhQ::Print.
  for (std::size_t i = 0; i + 5 < values.size(); i += 3) {
    const PhQ::Vector<T> vector(values[i], values[i + 1], values[i + 2]);
    const PhQ::Position<T> position(vector, PhQ::Unit::Length::Foot);
    const PhQ::Force<T> force(vector, PhQ::Unit::Force::Pound);
    const PhQ::Stress<T> stress(
        PhQ::SymmetricDyad<T>(values[i], values[i + 1], values[i + 2], values[i + 3],
                              values[i + 4], values[i + 5]),
        PhQ::Unit::Pressure::PoundPerSquareInch);
    std::ostringstream stream;
    stream << vector << position << force << stress;
    const std::string forms[] = {
        vector.Print(), vector.JSON(), vector.XML(), vector.YAML(), position.Print(),
        position.JSON(), position.XML(), position.YAML(),
        position.Print(PhQ::Unit::Length::Inch), position.JSON(PhQ::Unit::Length::Mile),
        position.XML(PhQ::Unit::Length::Millimetre), position.YAML(PhQ::Unit::Length::Yard),
        force.Print(), force.JSON(PhQ::Unit::Force::Newton), stress.Print(), stress.JSON(),
        stress.XML(PhQ::Unit::Pressure::Bar), stress.YAML(PhQ::Unit::Pressure::Kilopascal),
        stream.str()};
    for (const std::string& s : forms) {
      Feed(s);
      if (i == 0 || i == 300) {
        std::cout << s << "\n";
      }
    }
  }
  Digest("composite");
}

int main() {
  NumberPrinting<float>("float");
  NumberPrinting<double>("double");
  NumberPrinting<long double>("long double");
  Quantities<float>("float");
  Quantities<double>("double");
  Quantities<long double>("long double");
  Digest("final");
  return 0;
}
