"""Syntactic walks over extracted bodies: references, call graph, reachability."""


def walk(node, fn):
    """Pre-order walk over every dict node of a body/initialiser tree."""
    stack = [node]
    while stack:
        n = stack.pop()
        if isinstance(n, dict):
            fn(n)
            stack.extend(n.values())
        elif isinstance(n, list):
            stack.extend(n)


def body_nodes(f):
    out = []
    for part in (f.get("body"), f.get("inits")):
        if part is not None:
            walk(part, out.append)
    return out


def callees(f):
    out = set()
    for n in body_nodes(f):
        if n.get("k") in ("call", "ctor", "fnref", "methref", "lambda", "inhctor") and "f" in n:
            out.add(n["f"])
    return out


def gvar_refs(f):
    return {n["v"] for n in body_nodes(f) if n.get("k") == "gvar"}


def tree_gvar_refs(tree):
    out = set()
    walk(tree, lambda n: out.add(n["v"]) if n.get("k") == "gvar" else None)
    return out


def tree_callees(tree):
    out = set()
    walk(tree, lambda n: out.add(n["f"]) if n.get("k") in ("call", "ctor", "fnref", "methref", "lambda") and "f" in n else None)
    return out


def reachable(F, roots):
    seen = set()
    stack = list(roots)
    while stack:
        i = stack.pop()
        if i in seen or i not in F.fns:
            continue
        seen.add(i)
        stack.extend(callees(F.fns[i]))
    return seen


def recursive_groups(F, is_library):
    """Strongly connected components of the resolved call graph restricted to library functions with a body:
    [sorted list of function ids] for every component that contains a cycle (several functions, or one that calls itself)."""
    ids = [i for i, f in F.fns.items() if "body" in f and is_library(f)]
    idset = set(ids)
    succ = {i: sorted(c for c in callees(F.fns[i]) if c in idset) for i in ids}
    index, low, on, st, out = {}, {}, set(), [], []
    counter = [0]
    for root in ids:
        if root in index:
            continue
        work = [(root, 0)]
        while work:
            v, k = work.pop()
            if k == 0:
                index[v] = low[v] = counter[0]
                counter[0] += 1
                st.append(v)
                on.add(v)
            nxt = succ[v]
            recursed = False
            for j in range(k, len(nxt)):
                w = nxt[j]
                if w not in index:
                    work.append((v, j + 1))
                    work.append((w, 0))
                    recursed = True
                    break
                if w in on:
                    low[v] = min(low[v], index[w])
            if recursed:
                continue
            if low[v] == index[v]:
                comp = []
                while True:
                    w = st.pop()
                    on.discard(w)
                    comp.append(w)
                    if w == v:
                        break
                if len(comp) > 1 or v in succ[v]:
                    out.append(sorted(comp))
            if work:
                u = work[-1][0]
                low[u] = min(low[u], low[v])
    return out
