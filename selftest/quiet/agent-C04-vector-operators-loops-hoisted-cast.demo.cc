// Differential program for the C04q refactor: Vector<> arithmetic operators and Speed<> arithmetic
// operators (plus the quantities built on them: Velocity, Displacement, Acceleration, Length, Time,
// Frequency, SoundSpeed, MachNumber).
#include <PhQ/Acceleration.hpp>
#include <PhQ/Displacement.hpp>
#include <PhQ/Frequency.hpp>
#include <PhQ/Length.hpp>
#include <PhQ/MachNumber.hpp>
#include <PhQ/SoundSpeed.hpp>
#include <PhQ/Speed.hpp>
#include <PhQ/Time.hpp>
#include <PhQ/Vector.hpp>
#include <PhQ/Velocity.hpp>

#include <cmath>
#include <cstdint>
#include <cstdio>
#include <cstring>
#include <limits>
#include <random>
#include <string>
#include <vector>

namespace {

std::uint64_t digest = 1469598103934665603ULL;
unsigned long long printed = 0;

template <typename T>
void Emit(const char* tag, const T v) {
  // Exact bytes of the value representation (10 bytes for x87 long double) plus a hexfloat print.
  unsigned char bytes[sizeof(T)];
  std::memset(bytes, 0, sizeof(T));
  std::memcpy(bytes, &v, sizeof(T));
  const std::size_t n = std::is_same<T, long double>::value ? 10 : sizeof(T);
  for (std::size_t i = 0; i < n; ++i) {
    digest = (digest ^ bytes[i]) * 1099511628211ULL;
  }
  if (printed < 60000) {
    ++printed;
    std::printf("%s %La\n", tag, static_cast<long double>(v));
  }
}

template <typename T>
void EmitV(const char* tag, const PhQ::Vector<T>& v) {
  Emit(tag, v.x());
  Emit(tag, v.y());
  Emit(tag, v.z());
}

template <typename T>
std::vector<T> Samples(std::mt19937_64& gen, const int random_count) {
  using L = std::numeric_limits<T>;
  std::vector<T> s{static_cast<T>(0),
                   -static_cast<T>(0),
                   static_cast<T>(1),
                   static_cast<T>(-1),
                   static_cast<T>(8),
                   static_cast<T>(2),
                   static_cast<T>(0.1L),
                   static_cast<T>(-0.3L),
                   static_cast<T>(1) / static_cast<T>(3),
                   L::min(),
                   -L::min(),
                   L::denorm_min(),
                   -L::denorm_min(),
                   L::max(),
                   -L::max(),
                   L::epsilon(),
                   static_cast<T>(1) + L::epsilon(),
                   L::infinity(),
                   -L::infinity(),
                   L::max() / static_cast<T>(3),
                   L::min() * static_cast<T>(7)};
  std::uniform_real_distribution<double> mant(-1.0, 1.0);
  std::uniform_int_distribution<int> expo(-40, 40);
  for (int i = 0; i < random_count; ++i) {
    const long double m = static_cast<long double>(mant(gen)) + 1e-19L * mant(gen);
    s.push_back(static_cast<T>(std::ldexp(m, expo(gen))));
  }
  return s;
}

template <typename T>
void TestVector(std::mt19937_64& gen) {
  const std::vector<T> s = Samples<T>(gen, 60);
  std::uniform_int_distribution<std::size_t> pick(0, s.size() - 1);
  for (int it = 0; it < 6000; ++it) {
    const PhQ::Vector<T> a{s[pick(gen)], s[pick(gen)], s[pick(gen)]};
    const PhQ::Vector<T> b{s[pick(gen)], s[pick(gen)], s[pick(gen)]};
    const T n = s[pick(gen)];
    EmitV("V+", a + b);
    EmitV("V+r", b + a);
    EmitV("V-", a - b);
    EmitV("V*n", a * n);
    EmitV("n*V", n * a);
    EmitV("V/n", a / n);
    // Mixed numeric types of the scalar.
    const float nf = static_cast<float>(n);
    const double nd = static_cast<double>(n);
    const long double nl = static_cast<long double>(n) * 1.0000000000000000001L;
    EmitV("V*f", a * nf);
    EmitV("f*V", nf * a);
    EmitV("V/f", a / nf);
    EmitV("V*d", a * nd);
    EmitV("d*V", nd * a);
    EmitV("V/d", a / nd);
    EmitV("V*l", a * nl);
    EmitV("l*V", nl * a);
    EmitV("V/l", a / nl);
    EmitV("V*i", a * 3);
    EmitV("i*V", -7 * a);
    EmitV("V/i", a / 3);
    // Compound assignments, random interleaving.
    PhQ::Vector<T> c = a;
    for (int k = 0; k < 6; ++k) {
      switch (pick(gen) % 8) {
        case 0:
          c += b;
          break;
        case 1:
          c -= b;
          break;
        case 2:
          c *= n;
          break;
        case 3:
          c /= n;
          break;
        case 4:
          c *= nd;
          break;
        case 5:
          c /= nl;
          break;
        case 6:
          c *= nf;
          break;
        default:
          c /= 3;
          break;
      }
      EmitV("Vc", c);
    }
    // Self-aliasing.
    PhQ::Vector<T> d = a;
    d += d;
    EmitV("Vd+", d);
    d -= d;
    EmitV("Vd-", d);
    EmitV("Vaa", a + a);
    EmitV("Va-a", a - a);
  }
  // constexpr evaluation.
  constexpr PhQ::Vector<T> ca{static_cast<T>(1), static_cast<T>(-2), static_cast<T>(3)};
  constexpr PhQ::Vector<T> cb{static_cast<T>(0.5), static_cast<T>(4), static_cast<T>(-8)};
  constexpr PhQ::Vector<T> cs = ca + cb;
  constexpr PhQ::Vector<T> cd = ca - cb;
  constexpr PhQ::Vector<T> cm = ca * static_cast<T>(3);
  constexpr PhQ::Vector<T> cn = 3.0 * ca;
  constexpr PhQ::Vector<T> cq = ca / static_cast<T>(3);
  EmitV("cV", cs);
  EmitV("cV", cd);
  EmitV("cV", cm);
  EmitV("cV", cn);
  EmitV("cV", cq);
}

template <typename T>
void TestSpeed(std::mt19937_64& gen) {
  const std::vector<T> s = Samples<T>(gen, 60);
  std::uniform_int_distribution<std::size_t> pick(0, s.size() - 1);
  const PhQ::Unit::Speed units[] = {PhQ::Unit::Speed::MetrePerSecond,
                                    PhQ::Unit::Speed::MillimetrePerSecond,
                                    PhQ::Unit::Speed::FootPerSecond,
                                    PhQ::Unit::Speed::KilometrePerHour,
                                    PhQ::Unit::Speed::Knot,
                                    PhQ::Unit::Speed::MilePerHour};
  for (int it = 0; it < 6000; ++it) {
    const PhQ::Unit::Speed u = units[pick(gen) % 6];
    const PhQ::Speed<T> a(s[pick(gen)], u);
    const PhQ::Speed<T> b(s[pick(gen)], PhQ::Unit::Speed::MetrePerSecond);
    const PhQ::SoundSpeed<T> ss(s[pick(gen)], PhQ::Unit::Speed::MetrePerSecond);
    const PhQ::Length<T> len(s[pick(gen)], PhQ::Unit::Length::Metre);
    const PhQ::Time<T> t(s[pick(gen)], PhQ::Unit::Time::Second);
    const PhQ::Frequency<T> f(s[pick(gen)], PhQ::Unit::Frequency::Hertz);
    const T n = s[pick(gen)];
    Emit("S", a.Value());
    Emit("S+", (a + b).Value());
    Emit("S+r", (b + a).Value());
    Emit("S-", (a - b).Value());
    Emit("S*n", (a * n).Value());
    Emit("n*S", (n * a).Value());
    Emit("S/n", (a / n).Value());
    Emit("S/S", a / b);
    Emit("S+ss", (a + ss).Value());
    Emit("S-ss", (a - ss).Value());
    Emit("ss+S", (ss + a).Value());
    Emit("ss-S", (ss - a).Value());
    Emit("S/ss", (a / ss).Value());
    Emit("S*t", (a * t).Value());
    Emit("S/f", (a / f).Value());
    Emit("S/L", (a / len).Value());
    Emit("S*f", (a * f).Value());
    Emit("S/t", (a / t).Value());
    Emit("L/t", (len / t).Value());
    Emit("Slt", PhQ::Speed<T>(len, t).Value());
    Emit("L*f", (len * f).Value());
    Emit("f*L", (f * len).Value());
    Emit("Slf", PhQ::Speed<T>(len, f).Value());
    Emit("L/S", (len / a).Value());
    PhQ::Speed<T> c = a;
    for (int k = 0; k < 6; ++k) {
      switch (pick(gen) % 6) {
        case 0:
          c += b;
          break;
        case 1:
          c -= b;
          break;
        case 2:
          c *= n;
          break;
        case 3:
          c /= n;
          break;
        case 4:
          c += ss;
          break;
        default:
          c -= ss;
          break;
      }
      Emit("Sc", c.Value());
    }
    PhQ::Speed<T> d = a;
    d += d;
    Emit("Sd+", d.Value());
    d -= d;
    Emit("Sd-", d.Value());
    Emit("S/self", a / a);

    // Vector-valued quantities that sit on top of Vector<> and Speed<>.
    const PhQ::Velocity<T> va({s[pick(gen)], s[pick(gen)], s[pick(gen)]}, u);
    const PhQ::Velocity<T> vb(a, b, PhQ::Speed<T>(n, PhQ::Unit::Speed::MetrePerSecond));
    EmitV("Q+", (va + vb).Value());
    EmitV("Q-", (va - vb).Value());
    EmitV("Q*n", (va * n).Value());
    EmitV("n*Q", (n * va).Value());
    EmitV("Q/n", (va / n).Value());
    EmitV("Q*t", (va * t).Value());
    EmitV("t*Q", (t * va).Value());
    EmitV("Q/f", (va / f).Value());
    EmitV("Q*f", (va * f).Value());
    EmitV("Q/t", (va / t).Value());
    Emit("Qm", va.Magnitude().Value());
    PhQ::Velocity<T> vc = va;
    vc += vb;
    EmitV("Qc", vc.Value());
    vc *= n;
    EmitV("Qc", vc.Value());
    vc -= va;
    EmitV("Qc", vc.Value());
    vc /= n;
    EmitV("Qc", vc.Value());
    const PhQ::Displacement<T> da({s[pick(gen)], s[pick(gen)], s[pick(gen)]},
                                  PhQ::Unit::Length::Metre);
    EmitV("D/t", (da / t).Value());
    EmitV("D*f", (da * f).Value());
    EmitV("f*D", (f * da).Value());
    EmitV("Vdt", PhQ::Velocity<T>(da, t).Value());
    EmitV("Vdf", PhQ::Velocity<T>(da, f).Value());
  }
  constexpr PhQ::Speed<T> z = PhQ::Speed<T>::Zero();
  constexpr PhQ::Speed<T> one =
      PhQ::Speed<T>::template Create<PhQ::Unit::Speed::MetrePerSecond>(static_cast<T>(1.25));
  constexpr PhQ::Speed<T> sum = z + one;
  constexpr PhQ::Speed<T> dif = z - one;
  constexpr PhQ::Speed<T> mul = one * static_cast<T>(3);
  constexpr PhQ::Speed<T> quo = one / static_cast<T>(3);
  constexpr T rat = one / mul;
  Emit("cS", sum.Value());
  Emit("cS", dif.Value());
  Emit("cS", mul.Value());
  Emit("cS", quo.Value());
  Emit("cS", rat);
}

}  // namespace

int main() {
  std::mt19937_64 gen(0xC04C04ULL);
  TestVector<float>(gen);
  TestVector<double>(gen);
  TestVector<long double>(gen);
  TestSpeed<float>(gen);
  TestSpeed<double>(gen);
  TestSpeed<long double>(gen);
  std::printf("digest %016llx\n", static_cast<unsigned long long>(digest));
  return 0;
}
