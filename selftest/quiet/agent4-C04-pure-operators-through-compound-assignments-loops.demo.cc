// Differential program for the arithmetic operators of PlanarVector / Vector / SymmetricDyad /
// Dyad (pure and compound, including the OtherNumericType forms) and quantities built on them.
#include <PhQ/Displacement.hpp>
#include <PhQ/Dyad.hpp>
#include <PhQ/Force.hpp>
#include <PhQ/PlanarForce.hpp>
#include <PhQ/PlanarVector.hpp>
#include <PhQ/Stress.hpp>
#include <PhQ/SymmetricDyad.hpp>
#include <PhQ/Time.hpp>
#include <PhQ/Vector.hpp>
#include <PhQ/VelocityGradient.hpp>

#include <array>
#include <cstdint>
#include <cstdio>
#include <limits>
#include <random>
#include <string>
#include <vector>

namespace {

std::uint64_t digest = 1469598103934665603ULL;
bool verbose = true;
std::size_t printed = 0;

void Feed(const std::string& text) {
  for (const char c : text) {
    digest ^= static_cast<unsigned char>(c);
    digest *= 1099511628211ULL;
  }
}

template <typename T>
std::string Hex(const T value) {
  char buffer[96];
  std::snprintf(buffer, sizeof(buffer), "%La", static_cast<long double>(value));
  return buffer;
}

void Emit(const std::string& label, const std::string& values) {
  const std::string line = label + " " + values;
  Feed(line);
  if (verbose) {
    std::printf("%s\n", line.c_str());
    ++printed;
  }
}

template <typename T>
std::string S(const PhQ::PlanarVector<T>& v) {
  return Hex(v.x()) + " " + Hex(v.y());
}
template <typename T>
std::string S(const PhQ::Vector<T>& v) {
  return Hex(v.x()) + " " + Hex(v.y()) + " " + Hex(v.z());
}
template <typename T>
std::string S(const PhQ::SymmetricDyad<T>& v) {
  std::string r;
  for (const T c : v.xx_xy_xz_yy_yz_zz()) r += Hex(c) + " ";
  r += Hex(v.yx()) + " " + Hex(v.zx()) + " " + Hex(v.zy());
  return r;
}
template <typename T>
std::string S(const PhQ::Dyad<T>& v) {
  std::string r;
  for (const T c : v.xx_xy_xz_yx_yy_yz_zx_zy_zz()) r += Hex(c) + " ";
  return r;
}

template <typename T>
std::vector<T> Specials() {
  using L = std::numeric_limits<T>;
  return {T(0), -T(0), T(1), T(-1), T(3), T(1) / T(3), T(-2) / T(7), L::min(), -L::min(),
          L::denorm_min(), -L::denorm_min(), L::max(), -L::max(), L::epsilon(), L::infinity(),
          -L::infinity(), T(1e-30L), T(-1e30L), T(0.1L), T(1) + L::epsilon()};
}

template <typename T>
struct Source {
  std::mt19937_64 engine;
  std::vector<T> specials = Specials<T>();
  explicit Source(const std::uint64_t seed) : engine(seed) {}
  T Next() {
    const std::uint64_t r = engine();
    const unsigned kind = r % 16;
    if (kind == 0) return specials[(r >> 8) % specials.size()];
    const long double mantissa =
        static_cast<long double>(static_cast<std::int64_t>(engine())) / 9223372036854775808.0L;
    int exponent = 0;
    if (kind < 10) {
      exponent = static_cast<int>((r >> 8) % 21) - 10;
    } else if (kind < 14) {
      exponent = static_cast<int>((r >> 8) % 121) - 60;
    } else {
      const int range = std::numeric_limits<T>::max_exponent - 2;
      exponent = static_cast<int>((r >> 8) % (2 * range)) - range;
    }
    return static_cast<T>(std::ldexp(mantissa, exponent));
  }
  template <std::size_t N>
  std::array<T, N> Array() {
    std::array<T, N> a{};
    for (T& c : a) c = Next();
    return a;
  }
};

template <typename T, std::size_t N>
std::array<T, N> Fill(const T value, const std::size_t position, const T other) {
  std::array<T, N> a{};
  for (std::size_t i = 0; i < N; ++i) a[i] = (i == position % N) ? other : value;
  return a;
}

// Exercises every operator of one value class with one pair of operands and a set of numbers.
template <typename T, typename Shape, typename F, typename D, typename LD>
void Exercise(const std::string& tag, const Shape& a, const Shape& b, const F nf, const D nd,
              const LD nl, const int ni) {
  Emit(tag + " a+b", S(a + b));
  Emit(tag + " b+a", S(b + a));
  Emit(tag + " a-b", S(a - b));
  Emit(tag + " b-a", S(b - a));
  Emit(tag + " a*f", S(a * nf));
  Emit(tag + " a*d", S(a * nd));
  Emit(tag + " a*l", S(a * nl));
  Emit(tag + " a*i", S(a * ni));
  Emit(tag + " f*a", S(nf * a));
  Emit(tag + " d*a", S(nd * a));
  Emit(tag + " l*a", S(nl * a));
  Emit(tag + " i*a", S(ni * a));
  Emit(tag + " a/f", S(a / nf));
  Emit(tag + " a/d", S(a / nd));
  Emit(tag + " a/l", S(a / nl));
  Emit(tag + " a/i", S(a / ni));
  Emit(tag + " (a+b)-b*d", S((a + b) - b * nd));
  Emit(tag + " (a-b)/l+a", S((a - b) / nl + a));
  {
    Shape c{a};
    c += b;
    Emit(tag + " +=", S(c));
    c -= a;
    Emit(tag + " -=", S(c));
    c *= nf;
    Emit(tag + " *=f", S(c));
    c /= nd;
    Emit(tag + " /=d", S(c));
    c *= nl;
    Emit(tag + " *=l", S(c));
    c /= ni;
    Emit(tag + " /=i", S(c));
    c *= nd;
    c /= nf;
    c += c;
    Emit(tag + " self+=", S(c));
    c -= c;
    Emit(tag + " self-=", S(c));
  }
  {
    Shape c{b};
    c /= nl;
    c *= ni;
    c -= a;
    c += b;
    c *= static_cast<T>(nd);
    c /= static_cast<T>(nf);
    Emit(tag + " chain", S(c));
  }
}

template <typename T>
void Quantities(const std::string& tag, Source<T>& source) {
  const T n = source.Next();
  const T m = source.Next();
  {
    const PhQ::Displacement<T> a(PhQ::Vector<T>(source.template Array<3>()), PhQ::Unit::Length::Metre);
    const PhQ::Displacement<T> b(PhQ::Vector<T>(source.template Array<3>()), PhQ::Unit::Length::Metre);
    PhQ::Displacement<T> c = a + b;
    Emit(tag + " Disp+", S(c.Value()));
    Emit(tag + " Disp-", S((a - b).Value()));
    Emit(tag + " Disp*n", S((a * n).Value()));
    Emit(tag + " n*Disp", S((n * a).Value()));
    Emit(tag + " Disp/n", S((a / n).Value()));
    c += a;
    c -= b;
    c *= n;
    c /= m;
    Emit(tag + " Disp chain", S(c.Value()));
  }
  {
    const PhQ::PlanarForce<T> a(PhQ::PlanarVector<T>(source.template Array<2>()), PhQ::Unit::Force::Newton);
    const PhQ::PlanarForce<T> b(PhQ::PlanarVector<T>(source.template Array<2>()), PhQ::Unit::Force::Newton);
    PhQ::PlanarForce<T> c = a + b;
    Emit(tag + " PF+", S(c.Value()));
    Emit(tag + " PF-", S((a - b).Value()));
    Emit(tag + " PF*n", S((a * n).Value()));
    Emit(tag + " n*PF", S((n * a).Value()));
    Emit(tag + " PF/n", S((a / n).Value()));
    c += a;
    c -= b;
    c *= n;
    c /= m;
    Emit(tag + " PF chain", S(c.Value()));
  }
  {
    const PhQ::Stress<T> a(PhQ::SymmetricDyad<T>(source.template Array<6>()), PhQ::Unit::Pressure::Pascal);
    const PhQ::Stress<T> b(PhQ::SymmetricDyad<T>(source.template Array<6>()), PhQ::Unit::Pressure::Pascal);
    PhQ::Stress<T> c = a + b;
    Emit(tag + " Stress+", S(c.Value()));
    Emit(tag + " Stress-", S((a - b).Value()));
    Emit(tag + " Stress*n", S((a * n).Value()));
    Emit(tag + " n*Stress", S((n * a).Value()));
    Emit(tag + " Stress/n", S((a / n).Value()));
    c += a;
    c -= b;
    c *= n;
    c /= m;
    Emit(tag + " Stress chain", S(c.Value()));
  }
  {
    const PhQ::VelocityGradient<T> a(PhQ::Dyad<T>(source.template Array<9>()), PhQ::Unit::Frequency::Hertz);
    const PhQ::VelocityGradient<T> b(PhQ::Dyad<T>(source.template Array<9>()), PhQ::Unit::Frequency::Hertz);
    const PhQ::Time<T> t(m, PhQ::Unit::Time::Second);
    PhQ::VelocityGradient<T> c = a + b;
    Emit(tag + " VG+", S(c.Value()));
    Emit(tag + " VG-", S((a - b).Value()));
    Emit(tag + " VG*n", S((a * n).Value()));
    Emit(tag + " n*VG", S((n * a).Value()));
    Emit(tag + " VG/n", S((a / n).Value()));
    Emit(tag + " VG*t", S((a * t).Value()));
    c += a;
    c -= b;
    c *= n;
    c /= m;
    Emit(tag + " VG chain", S(c.Value()));
  }
}

template <typename T>
void Run(const std::string& type) {
  const std::vector<T> specials = Specials<T>();
  const std::vector<float> sf = Specials<float>();
  const std::vector<double> sd = Specials<double>();
  const std::vector<long double> sl = Specials<long double>();

  // Edge cases, printed in full for a limited number of lines and digested for the rest.
  verbose = true;
  std::size_t count = 0;
  for (std::size_t i = 0; i < specials.size(); ++i) {
    for (std::size_t j = 0; j < specials.size(); ++j) {
      verbose = (count++ % 40 == 0);
      const T u = specials[i];
      const T v = specials[j];
      const float nf = sf[(i + 2 * j) % sf.size()];
      const double nd = sd[(3 * i + j + 1) % sd.size()];
      const long double nl = sl[(i + j + 5) % sl.size()];
      const int ni = static_cast<int>((i * 7 + j * 3) % 11) - 5;
      Exercise<T>(type + " PV", PhQ::PlanarVector<T>(Fill<T, 2>(u, i, v)),
                  PhQ::PlanarVector<T>(Fill<T, 2>(v, j, u)), nf, nd, nl, ni);
      Exercise<T>(type + " V", PhQ::Vector<T>(Fill<T, 3>(u, i, v)),
                  PhQ::Vector<T>(Fill<T, 3>(v, j, u)), nf, nd, nl, ni);
      Exercise<T>(type + " SD", PhQ::SymmetricDyad<T>(Fill<T, 6>(u, i, v)),
                  PhQ::SymmetricDyad<T>(Fill<T, 6>(v, j, u)), nf, nd, nl, ni);
      Exercise<T>(type + " D", PhQ::Dyad<T>(Fill<T, 9>(u, i, v)),
                  PhQ::Dyad<T>(Fill<T, 9>(v, j, u)), nf, nd, nl, ni);
    }
  }

  // Random operands.
  Source<T> source(0xC04ULL + sizeof(T));
  Source<float> rf(11);
  Source<double> rd(12);
  Source<long double> rl(13);
  for (int iteration = 0; iteration < 4000; ++iteration) {
    verbose = (iteration % 400 == 0);
    const float nf = rf.Next();
    const double nd = rd.Next();
    const long double nl = rl.Next();
    const int ni = static_cast<int>(source.engine() % 2001) - 1000;
    Exercise<T>(type + " rPV", PhQ::PlanarVector<T>(source.template Array<2>()),
                PhQ::PlanarVector<T>(source.template Array<2>()), nf, nd, nl, ni);
    Exercise<T>(type + " rV", PhQ::Vector<T>(source.template Array<3>()),
                PhQ::Vector<T>(source.template Array<3>()), nf, nd, nl, ni);
    Exercise<T>(type + " rSD", PhQ::SymmetricDyad<T>(source.template Array<6>()),
                PhQ::SymmetricDyad<T>(source.template Array<6>()), nf, nd, nl, ni);
    Exercise<T>(type + " rD", PhQ::Dyad<T>(source.template Array<9>()),
                PhQ::Dyad<T>(source.template Array<9>()), nf, nd, nl, ni);
    Quantities<T>(type + " q", source);
  }
  verbose = true;
  std::printf("%s digest %016llx\n", type.c_str(), static_cast<unsigned long long>(digest));
}

// Constant-expression use of the pure operators.
constexpr PhQ::PlanarVector<double> kPV =
    (PhQ::PlanarVector<double>(1.5, -2.25) + PhQ::PlanarVector<double>(0.1, 0.2)) * 3.0F / 7;
constexpr PhQ::Vector<float> kV =
    2.0 * (PhQ::Vector<float>(1.5F, -2.25F, 0.3F) - PhQ::Vector<float>(0.1F, 0.2F, 9.0F)) / 3.0L;
constexpr PhQ::SymmetricDyad<long double> kSD =
    (PhQ::SymmetricDyad<long double>(1.0L, 2.0L, 3.0L, 4.0L, 5.0L, 6.0L)
     - PhQ::SymmetricDyad<long double>(0.1L, 0.2L, 0.3L, 0.4L, 0.5L, 0.6L))
    * 0.7 / 3.0F;
constexpr PhQ::Dyad<double> kD =
    (PhQ::Dyad<double>(1.0, 2.0, 3.0, 4.0, 5.0, 6.0, 7.0, 8.0, 9.0)
     + PhQ::Dyad<double>(0.1, 0.2, 0.3, 0.4, 0.5, 0.6, 0.7, 0.8, 0.9))
    * 0.7L / 3;

}  // namespace

int main() {
  Emit("constexpr PV", S(kPV));
  Emit("constexpr V", S(kV));
  Emit("constexpr SD", S(kSD));
  Emit("constexpr D", S(kD));
  Run<float>("float");
  Run<double>("double");
  Run<long double>("longdouble");
  std::printf("final digest %016llx\n", static_cast<unsigned long long>(digest));
  return 0;
}
