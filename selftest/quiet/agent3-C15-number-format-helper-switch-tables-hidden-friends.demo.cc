// Differential program for the C15 structural refactor: number printing/parsing and the composite
// printed / JSON / XML / YAML / streamed forms.
#include <PhQ/Base.hpp>
#include <PhQ/Dyad.hpp>
#include <PhQ/Force.hpp>
#include <PhQ/Length.hpp>
#include <PhQ/PlanarForce.hpp>
#include <PhQ/PlanarVector.hpp>
#include <PhQ/PlanarVelocity.hpp>
#include <PhQ/Position.hpp>
#include <PhQ/ReynoldsNumber.hpp>
#include <PhQ/Stress.hpp>
#include <PhQ/SymmetricDyad.hpp>
#include <PhQ/Temperature.hpp>
#include <PhQ/Time.hpp>
#include <PhQ/Vector.hpp>
#include <PhQ/Velocity.hpp>
#include <PhQ/VelocityGradient.hpp>

#include <cmath>
#include <cstdint>
#include <cstring>
#include <iomanip>
#include <iostream>
#include <limits>
#include <random>
#include <sstream>
#include <string>
#include <typeinfo>
#include <vector>

namespace {

struct Digest {
  std::uint64_t hash{1469598103934665603ULL};
  std::uint64_t count{0};
  void Add(const std::string& text) {
    for (const unsigned char character : text) {
      hash ^= character;
      hash *= 1099511628211ULL;
    }
    hash ^= 0xFFU;
    hash *= 1099511628211ULL;
    ++count;
  }
  void Report(const std::string& label) const {
    std::cout << label << ": count=" << count << " fnv=" << std::hex << hash << std::dec << "\n";
  }
};

template <typename T>
std::string Hex(const T value) {
  std::ostringstream stream;
  stream << std::hexfloat << value;
  return stream.str();
}

template <typename T>
std::string ParseBack(const std::string& text) {
  const std::optional<T> parsed{PhQ::ParseNumber<T>(text)};
  if (!parsed.has_value()) {
    return "nullopt";
  }
  return Hex(parsed.value());
}

template <typename T>
std::vector<T> EdgeValues() {
  using L = std::numeric_limits<T>;
  std::vector<T> values{
    static_cast<T>(0), -static_cast<T>(0), L::min(), -L::min(), L::denorm_min(), -L::denorm_min(),
    L::max(), L::lowest(), L::epsilon(), L::infinity(), -L::infinity(), L::quiet_NaN(),
    -L::quiet_NaN(), static_cast<T>(1) / static_cast<T>(3), static_cast<T>(2) / static_cast<T>(3),
    static_cast<T>(-1.23456789e12L), static_cast<T>(1.23456789e-12L), static_cast<T>(9999.99999L),
    static_cast<T>(0.000999999999L), static_cast<T>(123.456L), static_cast<T>(-0.0625L)};
  // Neighbourhoods of every notation boundary, approached both through the double literal (as the
  // library compares against double constants) and through the native-type literal.
  const double bounds_d[] = {0.001, 0.01, 0.1, 1.0, 10.0, 100.0, 1000.0, 10000.0, 100000.0, 1.0e-4};
  const long double bounds_l[] = {0.001L, 0.01L, 0.1L, 1.0L, 10.0L, 100.0L, 1000.0L, 10000.0L,
                                  100000.0L, 1.0e-4L};
  for (int k = 0; k < 10; ++k) {
    const T centres[] = {static_cast<T>(bounds_d[k]), static_cast<T>(bounds_l[k])};
    for (const T centre : centres) {
      T up{centre};
      T down{centre};
      values.push_back(centre);
      values.push_back(-centre);
      for (int step = 0; step < 6; ++step) {
        up = std::nextafter(up, L::infinity());
        down = std::nextafter(down, -L::infinity());
        values.push_back(up);
        values.push_back(down);
        values.push_back(-up);
        values.push_back(-down);
      }
    }
  }
  return values;
}

template <typename T>
T RandomValue(std::mt19937_64& generator) {
  // Log-uniform magnitude over the whole exponent range with extra weight near the notation
  // intervals, random sign.
  std::uniform_real_distribution<long double> mantissa(1.0L, 10.0L);
  const int selector = static_cast<int>(generator() % 4);
  int exponent;
  if (selector < 2) {
    exponent = static_cast<int>(generator() % 12) - 6;
  } else {
    const int range = std::numeric_limits<T>::max_exponent10;
    exponent = static_cast<int>(generator() % (2 * range)) - range;
  }
  long double magnitude = mantissa(generator) * std::pow(10.0L, static_cast<long double>(exponent));
  if ((generator() & 1U) != 0U) {
    magnitude = -magnitude;
  }
  return static_cast<T>(magnitude);
}

template <typename T>
void NumberSection(const std::string& name, const std::size_t random_count) {
  Digest digest;
  const std::vector<T> edges{EdgeValues<T>()};
  std::size_t shown{0};
  for (const T value : edges) {
    const std::string printed{PhQ::Print(value)};
    const std::string line{Hex(value) + " -> " + printed + " -> " + ParseBack<T>(printed)};
    digest.Add(line);
    if (shown < 40) {
      std::cout << name << " " << line << "\n";
      ++shown;
    }
  }
  std::mt19937_64 generator(20240927U);
  for (std::size_t i = 0; i < random_count; ++i) {
    const T value{RandomValue<T>(generator)};
    const std::string printed{PhQ::Print(value)};
    digest.Add(Hex(value) + " -> " + printed + " -> " + ParseBack<T>(printed));
    if (i < 12) {
      std::cout << name << " random " << Hex(value) << " -> " << printed << "\n";
    }
  }
  // Raw random bit patterns for float and double.
  if (sizeof(T) <= 8) {
    for (std::size_t i = 0; i < random_count; ++i) {
      T value;
      const std::uint64_t bits{generator()};
      std::memcpy(&value, &bits, sizeof(T));
      const std::string printed{PhQ::Print(value)};
      digest.Add(printed + " -> " + ParseBack<T>(printed));
    }
  }
  // Parsing of assorted strings.
  const char* const texts[] = {"", " ", "Hello world!", "NaN", "-NaN", "nan", "infinity", "inf",
    "-infinity", "-inf", "-1.0e1000000", "1.0e1000000", "1e-1000000", "1e-40", "1e-310", "1e-4940",
    "1e39", "1e309", "1e4933", "-1.23456789e12", "-100", "-1.23456789", "-0", "0", "+0.0", "1.23456789",
    "100", "1.23456789e12", "  42", "42abc", "abc42", "0x1.8p3", "1e", ".5", "5.", "1,5", "--1",
    "3.4028235e38", "3.4028236e38", "1.7976931348623157e308", "1.7976931348623159e308",
    "1.17549435e-38", "2.2250738585072014e-308", "4.9406564584124654e-324"};
  for (const char* const text : texts) {
    const std::string line{std::string{"parse '"} + text + "' -> " + ParseBack<T>(text)};
    digest.Add(line);
    std::cout << name << " " << line << "\n";
  }
  digest.Report(name + " numbers");
}

template <typename Object>
std::string Streamed(const Object& object) {
  std::ostringstream stream;
  stream << object;
  return stream.str();
}

template <typename Object>
void AddForms(Digest& digest, const Object& object, const bool show) {
  const std::string forms[] = {
    object.Print(), object.JSON(), object.XML(), object.YAML(), Streamed(object)};
  for (const std::string& form : forms) {
    digest.Add(form);
    if (show) {
      std::cout << "  " << form << "\n";
    }
  }
  digest.Add(forms[0] == forms[4] ? "stream==print" : "stream!=print");
}

template <typename Object, typename Unit>
void AddUnitForms(Digest& digest, const Object& object, const Unit unit, const bool show) {
  const std::string forms[] = {
    object.Print(unit), object.JSON(unit), object.XML(unit), object.YAML(unit)};
  for (const std::string& form : forms) {
    digest.Add(form);
    if (show) {
      std::cout << "  " << form << "\n";
    }
  }
}

template <typename T>
void CompositeSection(const std::string& name, const std::size_t count) {
  Digest digest;
  std::mt19937_64 generator(977U);
  const std::vector<T> edges{EdgeValues<T>()};
  std::size_t cursor{0};
  const auto next = [&]() -> T {
    // Alternate between edge cases and random values.
    if ((generator() % 3U) == 0U) {
      const T value{edges[cursor % edges.size()]};
      ++cursor;
      return value;
    }
    return RandomValue<T>(generator);
  };
  const auto moderate = [&]() -> T {
    // Values that survive unit conversions without overflowing.
    std::uniform_real_distribution<long double> mantissa(-10.0L, 10.0L);
    const int exponent = static_cast<int>(generator() % 12) - 6;
    return static_cast<T>(mantissa(generator) * std::pow(10.0L, static_cast<long double>(exponent)));
  };
  for (std::size_t i = 0; i < count; ++i) {
    const bool show{i < 2};
    if (show) {
      std::cout << name << " sample " << i << "\n";
    }
    const PhQ::PlanarVector<T> planar_vector{next(), next()};
    const PhQ::Vector<T> vector{next(), next(), next()};
    const PhQ::SymmetricDyad<T> symmetric{next(), next(), next(), next(), next(), next()};
    const PhQ::Dyad<T> dyad{next(), next(), next(), next(), next(), next(), next(), next(), next()};
    AddForms(digest, planar_vector, show);
    AddForms(digest, vector, show);
    AddForms(digest, symmetric, show);
    AddForms(digest, dyad, show);

    const PhQ::ReynoldsNumber<T> reynolds{next()};
    AddForms(digest, reynolds, show);

    const PhQ::Length<T> length{moderate(), PhQ::Unit::Length::Foot};
    AddForms(digest, length, show);
    for (const PhQ::Unit::Length unit :
         {PhQ::Unit::Length::Metre, PhQ::Unit::Length::Mile, PhQ::Unit::Length::Millimetre,
          PhQ::Unit::Length::Inch, PhQ::Unit::Length::Micrometre, PhQ::Unit::Length::Kilometre}) {
      AddUnitForms(digest, length, unit, show && unit == PhQ::Unit::Length::Inch);
    }
    const PhQ::Time<T> time{moderate(), PhQ::Unit::Time::Minute};
    AddForms(digest, time, show);
    AddUnitForms(digest, time, PhQ::Unit::Time::Hour, show);
    AddUnitForms(digest, time, PhQ::Unit::Time::Millisecond, false);
    const PhQ::Temperature<T> temperature{moderate(), PhQ::Unit::Temperature::Fahrenheit};
    AddForms(digest, temperature, show);
    AddUnitForms(digest, temperature, PhQ::Unit::Temperature::Celsius, show);
    AddUnitForms(digest, temperature, PhQ::Unit::Temperature::Rankine, false);

    const PhQ::Force<T> force{{moderate(), moderate(), moderate()}, PhQ::Unit::Force::Pound};
    AddForms(digest, force, show);
    AddUnitForms(digest, force, PhQ::Unit::Force::Newton, false);
    AddUnitForms(digest, force, PhQ::Unit::Force::Kilonewton, show);
    const PhQ::PlanarForce<T> planar_force{{moderate(), moderate()}, PhQ::Unit::Force::Micronewton};
    AddForms(digest, planar_force, show);
    AddUnitForms(digest, planar_force, PhQ::Unit::Force::Pound, show);
    const PhQ::Velocity<T> velocity{
      {moderate(), moderate(), moderate()}, PhQ::Unit::Speed::MilePerHour};
    AddForms(digest, velocity, show);
    AddUnitForms(digest, velocity, PhQ::Unit::Speed::KilometrePerHour, show);
    AddUnitForms(digest, velocity, PhQ::Unit::Speed::FootPerSecond, false);
    const PhQ::PlanarVelocity<T> planar_velocity{
      {moderate(), moderate()}, PhQ::Unit::Speed::Knot};
    AddForms(digest, planar_velocity, show);
    AddUnitForms(digest, planar_velocity, PhQ::Unit::Speed::MetrePerSecond, false);
    const PhQ::Position<T> position{
      {moderate(), moderate(), moderate()}, PhQ::Unit::Length::Yard};
    AddForms(digest, position, show);
    AddUnitForms(digest, position, PhQ::Unit::Length::Centimetre, show);
    const PhQ::Stress<T> stress{
      {moderate(), moderate(), moderate(), moderate(), moderate(), moderate()},
      PhQ::Unit::Pressure::PoundPerSquareInch};
    AddForms(digest, stress, show);
    AddUnitForms(digest, stress, PhQ::Unit::Pressure::Megapascal, show);
    AddUnitForms(digest, stress, PhQ::Unit::Pressure::Bar, false);
    const PhQ::VelocityGradient<T> velocity_gradient{
      {moderate(), moderate(), moderate(), moderate(), moderate(), moderate(), moderate(),
       moderate(), moderate()},
      PhQ::Unit::Frequency::PerMinute};
    AddForms(digest, velocity_gradient, show);
    AddUnitForms(digest, velocity_gradient, PhQ::Unit::Frequency::Kilohertz, show);
  }
  digest.Report(name + " composites");
}

}  // namespace

int main() {
  NumberSection<float>("float", 300000);
  NumberSection<double>("double", 300000);
  NumberSection<long double>("long double", 300000);
  CompositeSection<float>("float", 3000);
  CompositeSection<double>("double", 3000);
  CompositeSection<long double>("long double", 3000);
  return 0;
}
