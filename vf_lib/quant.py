"""Inventory of PhQ's quantity / tensor classes in one numeric-type shard."""
import re
from .frontend import AnalysisBroken

SHAPE_N = {"scalar": 1, "planar": 2, "vector": 3, "symdyad": 6, "dyad": 9}
BASES = {
    "PhQ::DimensionalScalar": "scalar", "PhQ::DimensionalPlanarVector": "planar", "PhQ::DimensionalVector": "vector",
    "PhQ::DimensionalSymmetricDyad": "symdyad", "PhQ::DimensionalDyad": "dyad",
    "PhQ::DimensionlessScalar": "scalar", "PhQ::DimensionlessPlanarVector": "planar", "PhQ::DimensionlessVector": "vector",
    "PhQ::DimensionlessSymmetricDyad": "symdyad", "PhQ::DimensionlessDyad": "dyad",
}
TENSORS = {"PhQ::PlanarVector": "planar", "PhQ::Vector": "vector", "PhQ::SymmetricDyad": "symdyad", "PhQ::Dyad": "dyad"}


class Q:
    def __init__(self, name, rec):
        self.name = name          # PhQ::Speed<double>
        self.rec = rec
        self.short = re.sub(r"<.*", "", name).replace("PhQ::", "")
        self.template = rec.get("template")
        self.shape = None
        self.unit = None          # unit enum type or None
        self.base = None          # name of the Dimensional*/Dimensionless* base record
        self.kind = None          # 'quantity' | 'base' | 'tensor'


def inventory(F):
    """All records PhQ::X<T> (T = F.numeric) that are quantities, their bases, or tensor types."""
    T = F.numeric
    out = {}
    for name, rec in F.records.items():
        tm = rec.get("template")
        if not tm or not tm.startswith("PhQ::") or tm.startswith("PhQ::Internal") or tm.startswith("PhQ::ConstitutiveModel"):
            continue
        targs = rec.get("targs", [])
        if not targs or targs[-1] != T:
            continue
        q = Q(name, rec)
        if tm in TENSORS:
            q.kind, q.shape = "tensor", TENSORS[tm]
        elif tm in BASES:
            q.kind, q.shape = "base", BASES[tm]
            q.unit = targs[0] if len(targs) == 2 else None
        else:
            # walk the base chain
            cur = rec
            depth = 0
            while cur is not None and depth < 5:
                nxt = None
                for b in cur["bases"]:
                    bn = F.T(b["t"])
                    br = F.records.get(bn)
                    if br is None:
                        continue
                    if br.get("template") in BASES:
                        q.kind, q.shape, q.base = "quantity", BASES[br["template"]], bn
                        ta = br.get("targs", [])
                        q.unit = ta[0] if len(ta) == 2 else None
                    nxt = br
                if q.kind:
                    break
                cur = nxt
                depth += 1
            if not q.kind:
                continue
        out[name] = q
    return out


def all_fields(F, name):
    """[(field name, type, declaring record)] along the inheritance chain."""
    r = F.records.get(name)
    if r is None:
        return []
    out = []
    for b in r["bases"]:
        out += all_fields(F, F.T(b["t"]))
    for f in r["fields"]:
        out.append((f["n"], F.T(f["t"]), name))
    return out


def find_method(F, name, sname, pred=None, _self=None):
    """Methods called `sname` visible in record `name` (most-derived class that declares any wins).
    A method found in a base is returned as a copy annotated with `_self_type`, the class it was looked up in:
    Evaluator.run_symbolic then makes `this` an object of that class (a CRTP base casts `this` down to it)."""
    r = F.records.get(name)
    if r is None:
        return []
    ms = [f for f in F.methods(name, sname) if pred is None or pred(f)]
    if ms:
        return [dict(f, _self_type=_self) for f in ms] if _self else ms
    for b in r["bases"]:
        ms = find_method(F, F.T(b["t"]), sname, pred, _self or name)
        if ms:
            return ms
    return []
