"""C12 — an elastic isotropic solid is the same material from any modulus pair."""
import sympy
from sympy import Symbol

from .. import facts, ev, nf, models
from ..models import EL
from ..facts import short, strip_cvref
from ..frontend import NUMERIC


def tname_short(t, T):
    return strip_cvref(t).replace("PhQ::", "").replace("<%s>" % T, "")


def split_radicals(expr):
    """Replace each distinct sqrt(arg) by a symbol R_k; returns (expr', {R_k: arg})."""
    rad = {}
    def repl(e):
        if e.is_Pow and e.exp == sympy.Rational(1, 2):
            for R, a in rad.items():
                if sympy.expand(a - e.base) == 0:
                    return R
            R = Symbol("R%d" % len(rad), positive=True)
            rad[R] = e.base
            return R
        if e.is_Pow and e.exp == sympy.Rational(-1, 2):
            return 1 / repl(sympy.sqrt(e.base))
        return None
    def walk(e):
        r = repl(e)
        if r is not None:
            return r
        if e.args:
            return e.func(*[walk(a) for a in e.args])
        return e
    return walk(expr), rad


def zero_mod_radicals(expr):
    """Is expr == 0 given R_k^2 = D_k (each radical treated as an algebraic element)?"""
    e, rad = split_radicals(sympy.together(expr))
    num, den = sympy.fraction(sympy.together(e))
    num = sympy.expand(num)
    for R, D in rad.items():
        Dn, Dd = sympy.fraction(sympy.together(D))
        # R^2 * Dd - Dn = 0
        num = sympy.rem(sympy.expand(num * Dd ** sympy.degree(num, R)), sympy.expand(R ** 2 * Dd - Dn), R) if sympy.degree(num, R) >= 2 else num
    return sympy.expand(num) == 0, rad


def run(chk):
    chk.level = "other"
    chk.technique = ("term evaluation of the 20 constructors, 7 accessors and every Stress/Strain/StrainRate overload of "
                     "ElasticIsotropicSolid<T>; identities of isotropic elasticity decided by polynomial normalisation modulo the "
                     "radicals (R^2 = D), root selection by exact evaluation of the *terms* at rational admissible materials; "
                     "override completeness from the resolved virtual-function table")
    chk.rule("R1", "each constructor stores (mu, lambda) such that the defining identities of its two input moduli hold at (mu, lambda) (modulo R^2 = D), "
                   "and at rational admissible materials the stored pair is exactly that material (root selection)")
    chk.rule("R2", "the seven modulus accessors equal E = mu(3 lam+2 mu)/(lam+mu), K = lam+2mu/3, M = lam+2mu, nu = lam/(2(lam+mu)), G = mu, lam")
    chk.rule("R3", "Stress(eps) = 2 mu eps + lam tr(eps) I; Strain(sigma) is its inverse; Stress(eps, eps_dot) ignores eps_dot; Stress(eps_dot) and StrainRate(sigma) are Zero()")
    chk.rule("R4", "every pure virtual of ConstitutiveModel is overridden; the float/double/long double overloads all satisfy R3 (hence agree)")
    chk.assumptions += ["accuracy in each precision is NOT decided; the decided part is which real function is computed",
                        "admissible materials: mu > 0, 0 <= nu < 1/2"]
    n_ctor = 0
    for T in NUMERIC:
        F = facts.load(T, chk.tier)
        mname = "PhQ::ConstitutiveModel::ElasticIsotropicSolid<%s>" % T
        if mname not in F.records:
            chk.inconclusive("R1", mname, "class not instantiated", "")
            continue
        models.overrides_complete(chk, F, mname, "R4")
        mu, lam = Symbol("mu", positive=True), Symbol("lam", positive=True)
        # R1 constructors
        for f in F.methods(mname):
            if f["kind"] != "ctor" or "body" not in f or len(f["params"]) != 2:
                continue
            names = [tname_short(t, T) for t in F.param_types(f)]
            if not all(n in EL.MODULI for n in names):
                continue
            n_ctor += 1
            inst = "%s(%s, %s)" % (mname.replace("PhQ::ConstitutiveModel::", ""), names[0], names[1])
            loc = short(f.get("def_loc", f["loc"]))
            try:
                E = ev.Evaluator(F)
                _, this_lv, _ = E.run_symbolic(f, arg_prefixes=["p0", "p1"])
                obj = E.load(this_lv)
                conv = nf.Conv(positive=True)
                mu_c = conv(ev.flatten(obj.f["shear_modulus"])[0][1])
                lam_c = conv(ev.flatten(obj.f["lame_first_modulus"])[0][1])
                p = [nf.sym("p0.value", True), nf.sym("p1.value", True)]
                bad = None
                for i, nme in enumerate(names):
                    ident = EL.MODULI[nme](mu_c, lam_c) - p[i]
                    ok, rad = zero_mod_radicals(ident)
                    if not ok:
                        bad = "with the stored (mu, lambda) = (%s, %s) the identity for %s gives %s instead of the input" % (
                            sympy.simplify(mu_c), sympy.simplify(lam_c), nme, sympy.simplify(EL.MODULI[nme](mu_c, lam_c)))
                        break
                if bad is None:
                    # root selection / exactness at rational materials
                    for (m0, l0) in EL.admissible_materials(chk.seed):
                        sub = {p[0]: EL.MODULI[names[0]](m0, l0), p[1]: EL.MODULI[names[1]](m0, l0)}
                        try:
                            gm = sympy.nsimplify(sympy.simplify(mu_c.subs(sub)))
                            gl = sympy.nsimplify(sympy.simplify(lam_c.subs(sub)))
                        except Exception as x:   # division by zero at a degenerate sample
                            continue
                        if gm.has(sympy.zoo, sympy.nan) or gl.has(sympy.zoo, sympy.nan):
                            continue
                        if sympy.simplify(gm - m0) != 0 or sympy.simplify(gl - l0) != 0:
                            bad = "for the material (mu, lambda) = (%s, %s), i.e. inputs %s = %s, %s = %s, the constructor stores (%s, %s): wrong root or formula" % (
                                m0, l0, names[0], sub[p[0]], names[1], sub[p[1]], gm, gl)
                            break
                if bad:
                    chk.violated("R1", inst, bad, loc)
                else:
                    chk.holds("R1", inst, "identities of both inputs hold; exact at %d rational materials" % len(EL.admissible_materials(chk.seed)), loc)
                    chk.sample({"constructor": inst, "mu": str(sympy.simplify(mu_c))[:120], "lambda": str(sympy.simplify(lam_c))[:120]})
            except ev.Inconclusive as x:
                chk.inconclusive("R1", inst, str(x), loc)
        # R2 accessors
        for acc, formula in EL.MODULI.items():
            fs = [f for f in F.methods(mname, acc) if "body" in f and not f["params"]]
            inst = "%s::%s()" % (mname.replace("PhQ::ConstitutiveModel::", ""), acc)
            if len(fs) != 1:
                chk.violated("R2", inst, "accessor not found", short(F.records[mname]["loc"]))
                continue
            f = fs[0]
            try:
                E, res = models.eval_method(F, f, mname, [])
                conv = nf.Conv(positive=True)
                got = conv(ev.flatten(res)[0][1])
                ms, ls = nf.sym("self.shear_modulus.value", True), nf.sym("self.lame_first_modulus.value", True)
                want = formula(ms, ls)
                rt = tname_short(F.T(f["ret"]), T)
                if rt != acc:
                    chk.violated("R2", inst, "returns a %s" % rt, short(f["loc"]))
                elif nf.equal(got, want):
                    chk.holds("R2", inst, "= %s" % sympy.simplify(want), short(f["loc"]))
                else:
                    chk.violated("R2", inst, "computes %s, identity is %s" % (sympy.simplify(got), sympy.simplify(want)), short(f["loc"]), witness=nf.witness(got, want))
            except ev.Inconclusive as x:
                chk.inconclusive("R2", inst, str(x), short(f["loc"]))
        # R3 stress / strain
        ms, ls = nf.sym("self.shear_modulus.value", True), nf.sym("self.lame_first_modulus.value", True)
        stress1 = [f for f in models.tensor_methods(F, mname, "Stress", 1)]
        for f in stress1:
            pt = strip_cvref(F.T(f["params"][0]["t"]))
            if pt.startswith("PhQ::Strain<"):
                models.check_linear_map(chk, "R3", F, mname, f, 2 * ms, ls, False, None)
            elif pt.startswith("PhQ::StrainRate<"):
                models.check_zero(chk, "R3", F, mname, f)
        for f in models.tensor_methods(F, mname, "Strain", 1):
            models.check_linear_map(chk, "R3", F, mname, f, 2 * ms, ls, True, None)
        for f in models.tensor_methods(F, mname, "StrainRate", 1):
            models.check_zero(chk, "R3", F, mname, f)
        for f in models.tensor_methods(F, mname, "Stress", 2):
            models.check_two_arg(chk, "R3", F, mname, f, 0, stress1)
        n3 = sum(1 for o in chk.obs if o["rule"] == "R3" and mname.replace("PhQ::ConstitutiveModel::", "") in o["instance"] or mname in o["instance"])
    chk.floor("constructors (x3)", n_ctor, 60)
    chk.floor("R3 overloads", sum(1 for o in chk.obs if o["rule"] == "R3"), 45)
    chk.coverage["constructors"] = n_ctor
    if chk.tier == "thorough":
        compositions(chk)


def compositions(chk):
    """Thorough: build -> report -> rebuild, all 20 x 7 compositions at rational materials."""
    T = "double"
    F = facts.load(T, chk.tier)
    mname = "PhQ::ConstitutiveModel::ElasticIsotropicSolid<%s>" % T
    n = 0
    for f in F.methods(mname):
        if f["kind"] != "ctor" or "body" not in f or len(f["params"]) != 2:
            continue
        names = [tname_short(t, T) for t in F.param_types(f)]
        if not all(nm in EL.MODULI for nm in names):
            continue
        E = ev.Evaluator(F)
        _, this_lv, _ = E.run_symbolic(f, arg_prefixes=["p0", "p1"])
        obj = E.load(this_lv)
        conv = nf.Conv(positive=True)
        mu_c = conv(ev.flatten(obj.f["shear_modulus"])[0][1])
        lam_c = conv(ev.flatten(obj.f["lame_first_modulus"])[0][1])
        p = [nf.sym("p0.value", True), nf.sym("p1.value", True)]
        for acc in EL.MODULI:
            g = [x for x in F.methods(mname, acc) if "body" in x and not x["params"]][0]
            E2, res = models.eval_method(F, g, mname, [])
            aexpr = conv(ev.flatten(res)[0][1]).subs({nf.sym("self.shear_modulus.value", True): mu_c, nf.sym("self.lame_first_modulus.value", True): lam_c})
            bad = None
            for (m0, l0) in EL.admissible_materials(chk.seed, 4):
                sub = {p[0]: EL.MODULI[names[0]](m0, l0), p[1]: EL.MODULI[names[1]](m0, l0)}
                got = sympy.simplify(aexpr.subs(sub))
                want = EL.MODULI[acc](m0, l0)
                if got.has(sympy.zoo, sympy.nan):
                    continue
                if sympy.simplify(got - want) != 0:
                    bad = "material (%s,%s): %s reported as %s, expected %s" % (m0, l0, acc, got, want)
                    break
            n += 1
            inst = "build(%s,%s) -> %s()" % (names[0], names[1], acc)
            (chk.violated if bad else chk.holds)("R2", inst, bad or "exact at rational materials", short(f["loc"]))
    chk.coverage["compositions"] = n
