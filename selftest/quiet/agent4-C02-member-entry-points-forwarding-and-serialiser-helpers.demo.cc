// Differential program for the C02t refactor: exercises Value(unit), StaticValue<unit>(),
// Create<unit>(...), the (value, unit) constructors and Print/JSON/XML/YAML(unit) of
// DimensionalScalar and DimensionalVector based quantities for float, double and long double.
#include <PhQ/Force.hpp>
#include <PhQ/Length.hpp>
#include <PhQ/Position.hpp>
#include <PhQ/Temperature.hpp>
#include <PhQ/Time.hpp>

#include <cstdint>
#include <cstdio>
#include <limits>
#include <random>
#include <string>
#include <vector>

namespace {

std::uint64_t g_digest = 1469598103934665603ULL;
std::uint64_t g_count = 0;
bool g_verbose = false;

void Emit(const std::string& text) {
  for (const char c : text) {
    g_digest ^= static_cast<unsigned char>(c);
    g_digest *= 1099511628211ULL;
  }
  g_digest ^= 0xffU;
  g_digest *= 1099511628211ULL;
  ++g_count;
  if (g_verbose) {
    std::printf("  %s\n", text.c_str());
  }
}

template <typename T>
std::string Hex(const T value) {
  char buffer[128];
  std::snprintf(buffer, sizeof(buffer), "%La", static_cast<long double>(value));
  return buffer;
}

template <typename T>
std::string Hex(const PhQ::Vector<T>& v) {
  return Hex(v.x()) + "," + Hex(v.y()) + "," + Hex(v.z());
}

void Section(const std::string& name) {
  std::printf("%s count=%llu digest=%016llx\n", name.c_str(),
              static_cast<unsigned long long>(g_count), static_cast<unsigned long long>(g_digest));
  g_digest = 1469598103934665603ULL;
  g_count = 0;
}

template <typename T>
std::vector<T> Values(const bool edge) {
  std::vector<T> values;
  if (edge) {
    const T list[] = {static_cast<T>(0),
                      -static_cast<T>(0),
                      static_cast<T>(1),
                      static_cast<T>(-1),
                      static_cast<T>(0.1L),
                      static_cast<T>(-273.15L),
                      static_cast<T>(459.67L),
                      static_cast<T>(1.0L / 3.0L),
                      static_cast<T>(123456.789L),
                      std::numeric_limits<T>::min(),
                      -std::numeric_limits<T>::min(),
                      std::numeric_limits<T>::denorm_min(),
                      std::numeric_limits<T>::epsilon(),
                      std::numeric_limits<T>::max(),
                      std::numeric_limits<T>::lowest(),
                      std::numeric_limits<T>::max() / static_cast<T>(1000),
                      static_cast<T>(1.0e-30L),
                      static_cast<T>(1.0e30L),
                      static_cast<T>(-7.25e-12L),
                      std::numeric_limits<T>::infinity(),
                      -std::numeric_limits<T>::infinity()};
    for (const T v : list) {
      values.push_back(v);
    }
  } else {
    std::mt19937_64 generator(20240917ULL);
    std::uniform_real_distribution<long double> mantissa(-1.0L, 1.0L);
    std::uniform_int_distribution<int> exponent(-30, 30);
    for (int i = 0; i < 300; ++i) {
      long double v = mantissa(generator);
      const int e = exponent(generator);
      for (int k = 0; k < (e < 0 ? -e : e); ++k) {
        v = e < 0 ? v / 10.0L : v * 10.0L;
      }
      values.push_back(static_cast<T>(v));
    }
  }
  return values;
}

// ---- Scalars --------------------------------------------------------------------------------

template <template <typename> class Quantity, typename UnitType, typename T, int Count, int I>
struct ScalarStatic {
  static void Run(const std::vector<T>& values) {
    constexpr UnitType kUnit = static_cast<UnitType>(I);
    for (const T v : values) {
      const Quantity<T> created = Quantity<T>::template Create<kUnit>(v);
      Emit("create " + std::to_string(I) + " " + Hex(v) + " -> " + Hex(created.Value()));
      Emit("create-static " + Hex(created.template StaticValue<kUnit>()));
      const Quantity<T> standard{v, PhQ::Standard<UnitType>};
      Emit("static " + std::to_string(I) + " " + Hex(standard.template StaticValue<kUnit>()));
      const Quantity<T> constructed{v, kUnit};
      Emit("ctor-static " + Hex(constructed.template StaticValue<kUnit>()));
    }
    if constexpr (I + 1 < Count) {
      ScalarStatic<Quantity, UnitType, T, Count, I + 1>::Run(values);
    }
  }
};

template <template <typename> class Quantity, typename UnitType, typename T, int Count>
void Scalar(const std::string& name) {
  for (const bool edge : {true, false}) {
    g_verbose = false;
    const std::vector<T> values = Values<T>(edge);
    ScalarStatic<Quantity, UnitType, T, Count, 0>::Run(values);
    Section(name + (edge ? " static edge" : " static random"));
    for (int i = 0; i < Count; ++i) {
      const UnitType unit = static_cast<UnitType>(i);
      for (const T v : values) {
        const T input = v;
        const Quantity<T> q{input, unit};
        Emit("ctor " + std::to_string(i) + " " + Hex(input) + " -> " + Hex(q.Value()));
        Emit("roundtrip " + Hex(q.Value(unit)));
        for (int j = 0; j < Count; ++j) {
          const UnitType other = static_cast<UnitType>(j);
          Emit("value " + std::to_string(j) + " " + Hex(q.Value(other)));
          Emit(q.Print(other));
          Emit(q.JSON(other));
          Emit(q.XML(other));
          Emit(q.YAML(other));
        }
        Emit(q.Print());
        Emit(q.JSON());
        Emit(q.XML());
        Emit(q.YAML());
        Emit("after " + Hex(q.Value()) + " " + Hex(input));
      }
    }
    Section(name + (edge ? " dynamic edge" : " dynamic random"));
  }
  // A few fully printed samples.
  g_verbose = true;
  std::printf("%s samples\n", name.c_str());
  const std::vector<T> values = Values<T>(true);
  for (int i = 0; i < Count; ++i) {
    const UnitType unit = static_cast<UnitType>(i);
    for (std::size_t k = 2; k < 10; k += 3) {
      const Quantity<T> q{values[k], unit};
      const UnitType other = static_cast<UnitType>((i + 1) % Count);
      Emit(Hex(q.Value()) + " | " + Hex(q.Value(other)) + " | " + q.Print(other) + " | "
           + q.JSON(other) + " | " + q.XML(other) + " | " + q.YAML(other) + " | " + q.Print());
    }
  }
  g_verbose = false;
  Section(name + " samples");
}

// ---- Vectors --------------------------------------------------------------------------------

template <template <typename> class Quantity, typename UnitType, typename T, int Count, int I>
struct VectorStatic {
  static void Run(const std::vector<T>& values) {
    constexpr UnitType kUnit = static_cast<UnitType>(I);
    const std::size_t n = values.size();
    for (std::size_t k = 0; k < n; ++k) {
      const T x = values[k];
      const T y = values[(k * 7 + 3) % n];
      const T z = values[(k * 11 + 5) % n];
      const std::array<T, 3> array{x, y, z};
      const PhQ::Vector<T> vector{x, y, z};
      const Quantity<T> a = Quantity<T>::template Create<kUnit>(x, y, z);
      const Quantity<T> b = Quantity<T>::template Create<kUnit>(array);
      const Quantity<T> c = Quantity<T>::template Create<kUnit>(vector);
      Emit("create3 " + std::to_string(I) + " " + Hex(vector) + " -> " + Hex(a.Value()));
      Emit("createA " + Hex(b.Value()));
      Emit("createV " + Hex(c.Value()));
      Emit("input " + Hex(vector) + " " + Hex(array[0]) + Hex(array[1]) + Hex(array[2]));
      Emit("create-static " + Hex(a.template StaticValue<kUnit>()));
      const Quantity<T> standard{vector, PhQ::Standard<UnitType>};
      Emit("static " + std::to_string(I) + " " + Hex(standard.template StaticValue<kUnit>()));
      const Quantity<T> constructed{vector, kUnit};
      Emit("ctor-static " + Hex(constructed.template StaticValue<kUnit>()));
    }
    if constexpr (I + 1 < Count) {
      VectorStatic<Quantity, UnitType, T, Count, I + 1>::Run(values);
    }
  }
};

template <template <typename> class Quantity, typename UnitType, typename T, int Count>
void Vector3(const std::string& name) {
  for (const bool edge : {true, false}) {
    g_verbose = false;
    const std::vector<T> values = Values<T>(edge);
    const std::size_t n = values.size();
    VectorStatic<Quantity, UnitType, T, Count, 0>::Run(values);
    Section(name + (edge ? " static edge" : " static random"));
    for (int i = 0; i < Count; ++i) {
      const UnitType unit = static_cast<UnitType>(i);
      for (std::size_t k = 0; k < n; ++k) {
        const PhQ::Vector<T> input{values[k], values[(k * 5 + 1) % n], values[(k * 13 + 2) % n]};
        const Quantity<T> q{input, unit};
        Emit("ctor " + std::to_string(i) + " " + Hex(input) + " -> " + Hex(q.Value()));
        Emit("roundtrip " + Hex(q.Value(unit)));
        for (int j = 0; j < Count; ++j) {
          const UnitType other = static_cast<UnitType>(j);
          Emit("value " + std::to_string(j) + " " + Hex(q.Value(other)));
          Emit(q.Print(other));
          Emit(q.JSON(other));
          Emit(q.XML(other));
          Emit(q.YAML(other));
        }
        Emit(q.Print());
        Emit(q.JSON());
        Emit(q.XML());
        Emit(q.YAML());
        Emit("after " + Hex(q.Value()) + " " + Hex(input));
      }
    }
    Section(name + (edge ? " dynamic edge" : " dynamic random"));
  }
  g_verbose = true;
  std::printf("%s samples\n", name.c_str());
  const std::vector<T> values = Values<T>(true);
  for (int i = 0; i < Count; ++i) {
    const UnitType unit = static_cast<UnitType>(i);
    const PhQ::Vector<T> input{values[4], values[5], values[8]};
    const Quantity<T> q{input, unit};
    const UnitType other = static_cast<UnitType>((i + 1) % Count);
    Emit(Hex(q.Value()) + " | " + Hex(q.Value(other)) + " | " + q.Print(other) + " | "
         + q.JSON(other) + " | " + q.XML(other) + " | " + q.YAML(other) + " | " + q.Print());
  }
  g_verbose = false;
  Section(name + " samples");
}

// Compile-time evaluation must still be possible and give the same numbers.
constexpr PhQ::Length<double> kLength = PhQ::Length<double>::Create<PhQ::Unit::Length::Foot>(3.5);
constexpr PhQ::Time<float> kTime = PhQ::Time<float>::Create<PhQ::Unit::Time::Hour>(1.25F);
constexpr PhQ::Force<double> kForce1 =
    PhQ::Force<double>::Create<PhQ::Unit::Force::Pound>(1.5, -2.5, 3.25);
constexpr PhQ::Force<double> kForce2 = PhQ::Force<double>::Create<PhQ::Unit::Force::Pound>(
    std::array<double, 3>{1.5, -2.5, 3.25});
constexpr PhQ::Force<double> kForce3 = PhQ::Force<double>::Create<PhQ::Unit::Force::Pound>(
    PhQ::Vector<double>{1.5, -2.5, 3.25});
constexpr double kLengthInch = kLength.StaticValue<PhQ::Unit::Length::Inch>();
constexpr PhQ::Vector<double> kForceDyne = kForce1.StaticValue<PhQ::Unit::Force::Dyne>();

template <typename T>
void All(const std::string& type) {
  Scalar<PhQ::Length, PhQ::Unit::Length, T, 13>("Length<" + type + ">");
  Scalar<PhQ::Time, PhQ::Unit::Time, T, 6>("Time<" + type + ">");
  Scalar<PhQ::Temperature, PhQ::Unit::Temperature, T, 4>("Temperature<" + type + ">");
  Vector3<PhQ::Force, PhQ::Unit::Force, T, 9>("Force<" + type + ">");
  Vector3<PhQ::Position, PhQ::Unit::Length, T, 13>("Position<" + type + ">");
}

}  // namespace

int main() {
  g_verbose = true;
  std::printf("constexpr\n");
  Emit(Hex(kLength.Value()) + " " + Hex(kLengthInch) + " " + Hex(kTime.Value()));
  Emit(Hex(kForce1.Value()) + " " + Hex(kForce2.Value()) + " " + Hex(kForce3.Value()));
  Emit(Hex(kForceDyne));
  g_verbose = false;
  Section("constexpr");
  All<float>("float");
  All<double>("double");
  All<long double>("long double");
  return 0;
}
