#!/usr/bin/env python3
"""Mutation sweep (development tool, not a registered check): applies many small single-site mutations to scratch copies of
/repo/include, runs all 20 quick checks on each and lists the mutants no check objects to.  Survivors are triaged by hand:
either the mutated code is outside every property (recorded), or it is a blind spot (a rule is strengthened).

usage: python3-vt mutation_sweep.py --n 100 --seed 1 --out /var/tmp/mut1.json [--cat A,B,...]
"""
import argparse
import glob
import json
import os
import random
import re
import shutil
import subprocess
import sys
import tempfile
from concurrent.futures import ThreadPoolExecutor

VERIF = os.path.dirname(os.path.abspath(__file__))
REPO = os.environ.get("PHQ_REPO", "/repo")
CHECKS = ["C%02d" % i for i in range(1, 21)]


def code_lines(path):
    """(index, line) for lines that are code (not comments, not preprocessor)."""
    out = []
    for i, l in enumerate(open(path).read().split("\n")):
        s = l.strip()
        if not s or s.startswith("//") or s.startswith("#") or s.startswith("///") or s.startswith("*"):
            continue
        out.append((i, l))
    return out


def candidates():
    """Yield (category, file, line index, new line, description)."""
    inc = os.path.join(REPO, "include", "PhQ")
    files = sorted(glob.glob(inc + "/**/*.hpp", recursive=True))
    for path in files:
        rel = os.path.relpath(path, os.path.join(REPO, "include"))
        is_unit = "/Unit/" in path
        is_model = "/ConstitutiveModel" in path
        base = os.path.basename(path)
        is_tensor = base in ("Vector.hpp", "PlanarVector.hpp", "Dyad.hpp", "SymmetricDyad.hpp", "Direction.hpp", "PlanarDirection.hpp")
        for i, l in code_lines(path):
            # A: conversion constants and operators
            if is_unit and ("value *=" in l or "value /=" in l or "value +=" in l or "value -=" in l or re.search(r"static_cast<NumericType>\([0-9.]+L?\)", l)):
                m = re.search(r"static_cast<NumericType>\(([0-9]*\.?[0-9]+)L?\)", l)
                if m:
                    num = m.group(1)
                    digits = [k for k, ch in enumerate(num) if ch.isdigit()]
                    k = random.choice(digits)
                    nd = str((int(num[k]) + random.choice([1, 2, 5])) % 10)
                    if k == 0 and nd == "0" and len(num) > 1 and num[1] != ".":
                        nd = "1"
                    new = num[:k] + nd + num[k + 1:]
                    if new != num:
                        yield ("A", rel, i, l[:m.start(1)] + new + l[m.end(1):], "constant %s -> %s" % (num, new))
                for a, b in (("value *=", "value /="), ("value /=", "value *="), ("value +=", "value -="), ("value -=", "value +=")):
                    if a in l:
                        yield ("A", rel, i, l.replace(a, b, 1), "%s -> %s" % (a, b))
            # B: tables
            if is_unit or base in ("UnitSystem.hpp", "Dimensions.hpp"):
                m = re.search(r'\{(Unit::\w+::\w+),\s*"([^"]+)"\s*\}', l)
                if m and len(m.group(2)) >= 1:
                    ab = m.group(2)
                    k = random.randrange(len(ab))
                    if ab[k].isascii() and ab[k].isalpha():
                        new = ab[:k] + (ab[k].swapcase()) + ab[k + 1:]
                        yield ("B", rel, i, l.replace('"%s"' % ab, '"%s"' % new, 1), "abbreviation %r -> %r" % (ab, new))
                m = re.search(r'\{"([^"]+)",\s*(Unit::\w+::\w+)\s*\}', l)
                if m:
                    sp = m.group(1)
                    if len(sp) > 1 and sp.isascii():
                        k = random.randrange(len(sp) - 1)
                        new = sp[:k] + sp[k + 1] + sp[k] + sp[k + 2:]
                        if new != sp:
                            yield ("B", rel, i, l.replace('"%s"' % sp, '"%s"' % new, 1), "spelling %r -> %r" % (sp, new))
                m = re.search(r"Dimension::(\w+)\{(-?\d+)\}", l)
                if m:
                    v = int(m.group(2))
                    nv = v + random.choice([-1, 1])
                    yield ("B", rel, i, l[:m.start(2)] + str(nv) + l[m.end(2):], "exponent %s{%d} -> {%d}" % (m.group(1), v, nv))
            # C: relations between quantities
            if not is_unit and not is_tensor and (".Value()" in l or "value" in l) and not l.strip().startswith("static_assert"):
                for a, b in ((" * ", " / "), (" / ", " * "), (" + ", " - "), (" - ", " + ")):
                    for m in re.finditer(re.escape(a), l):
                        if '"' in l:
                            continue
                        yield ("G" if is_model else "C", rel, i, l[:m.start()] + b + l[m.end():], "operator%s->%s at col %d" % (a, b, m.start()))
            # D: tensor algebra indices and operators
            if is_tensor:
                for m in re.finditer(r"\[(\d)\]", l):
                    d = int(m.group(1))
                    nd = (d + 1) % 3
                    yield ("D", rel, i, l[:m.start(1)] + str(nd) + l[m.end(1):], "index [%d] -> [%d] at col %d" % (d, nd, m.start()))
                for a, b in ((" * ", " / "), (" + ", " - "), (" - ", " + ")):
                    for m in re.finditer(re.escape(a), l):
                        if '"' in l or "template" in l:
                            continue
                        yield ("D", rel, i, l[:m.start()] + b + l[m.end():], "operator%s->%s at col %d" % (a, b, m.start()))
            # E: comparisons
            if re.search(r"\b(return|if)\b", l) and not is_unit:
                for a, b in ((" < ", " > "), (" > ", " < "), (" != ", " == "), (" == ", " != "), (" <= ", " < "), (" >= ", " > "), (" && ", " || ")):
                    for m in re.finditer(re.escape(a), l):
                        if '"' in l or "template" in l or "static_assert" in l:
                            continue
                        yield ("E", rel, i, l[:m.start()] + b + l[m.end():], "comparison%s->%s at col %d" % (a, b, m.start()))
            # F: string literals of printers
            if ("append(" in l or "std::string{" in l or "stream <<" in l) and '"' in l and not is_unit:
                for m in re.finditer(r'"((?:[^"\\]|\\.)+)"', l):
                    sl = m.group(1)
                    ks = [k for k, ch in enumerate(sl) if ch.isascii() and (ch.isalpha() or ch in ":,<>{}")]
                    if not ks or l.strip().startswith("static_assert") or l.strip().startswith('"'):
                        continue
                    k = random.choice(ks)
                    rep = {":": ";", ",": ";", "<": "[", ">": "]", "{": "(", "}": ")"}.get(sl[k], sl[k].swapcase())
                    if k > 0 and sl[k - 1] == "\\":
                        continue
                    new = sl[:k] + rep + sl[k + 1:]
                    yield ("F", rel, i, l[:m.start(1)] + new + l[m.end(1):], "string %r -> %r" % (sl, new))
            # H: casts
            if "static_cast<NumericType>(" in l and not is_unit:
                yield ("H", rel, i, l.replace("static_cast<NumericType>(", "static_cast<float>(", 1), "cast to float instead of NumericType")
            # I: default template arguments: X<NumericType> -> X<> (= X<double>) inside expressions
            if not is_unit and "<NumericType>" in l and not l.strip().startswith(("template", "class", "struct", "using", "friend", "explicit", "constexpr", "inline", "[[")):
                for m in re.finditer(r"\b(Vector|PlanarVector|SymmetricDyad|Dyad)<NumericType>", l):
                    yield ("I", rel, i, l[:m.start()] + m.group(1) + "<>" + l[m.end():], "%s<NumericType> -> %s<> at col %d" % (m.group(1), m.group(1), m.start()))
            # J: a by-value arithmetic parameter of a mutating member becomes a const reference
            if not is_unit and re.search(r"\boperator[*/+-]=\(const (NumericType|OtherNumericType) \w+\)", l):
                yield ("J", rel, i, re.sub(r"\(const (NumericType|OtherNumericType) (\w+)\)", r"(const \1& \2)", l, 1), "scalar operand by const reference")
            # K: a const local becomes a function-local static
            if not is_unit and re.match(r"\s+const (NumericType|float|double|long double) \w+\{", l):
                yield ("K", rel, i, re.sub(r"^(\s+)const ", r"\1static const ", l, 1), "const local -> static const local")
            # L: explicit unit template arguments of ConvertStatically swapped
            m = re.search(r"ConvertStatically<(\w[\w:]*), (\w[\w:<>]*), (\w[\w:<>]*)>", l)
            if m and m.group(2) != m.group(3):
                yield ("L", rel, i, l[:m.start()] + "ConvertStatically<%s, %s, %s>" % (m.group(1), m.group(3), m.group(2)) + l[m.end():], "ConvertStatically unit arguments swapped")
            # G: small integer constants in models / relations
            if not is_unit:
                for m in re.finditer(r"static_cast<(?:NumericType|float|double|long double)>\((\d)\)", l):
                    d = int(m.group(1))
                    yield ("G" if is_model else "C", rel, i, l[:m.start(1)] + str(d + 1) + l[m.end(1):], "constant %d -> %d" % (d, d + 1))


def run_mutant(k, mut, cache):
    cat, rel, i, new, desc = mut
    d = tempfile.mkdtemp(prefix="phq-mut-", dir="/var/tmp")
    try:
        shutil.copytree(os.path.join(REPO, "include"), os.path.join(d, "include"))
        p = os.path.join(d, "include", rel)
        lines = open(p).read().split("\n")
        old = lines[i]
        lines[i] = new
        open(p, "w").write("\n".join(lines))
        env = dict(os.environ, PHQ_REPO=d, VF_NO_EVIDENCE="1", VF_REPLAY_DIR=os.path.join(d, "replay"), VF_CACHE_DIR=cache, VF_NO_SELFTEST="1")
        # build the facts once (serialised by the cache lock anyway)
        r0 = subprocess.run([os.path.join(VERIF, "vf"), "check", "C17"], capture_output=True, text=True, env=env)
        res = {"C17": r0.returncode}
        if "does not parse" in (r0.stdout + r0.stderr) or "ANALYSIS" in r0.stdout and "parse" in r0.stdout:
            return dict(k=k, cat=cat, file=rel, line=i + 1, desc=desc, old=old.strip(), new=new.strip(), status="noncompiling", rcs=res)

        def one(c):
            r = subprocess.run([os.path.join(VERIF, "vf"), "check", c], capture_output=True, text=True, env=env)
            return c, r.returncode, (r.stdout.strip().splitlines() or [""])[-1]
        tails = {}
        with ThreadPoolExecutor(10) as ex:
            for c, rc, tail in ex.map(one, [c for c in CHECKS if c != "C17"]):
                res[c] = rc
                tails[c] = tail
        killed = [c for c, rc in res.items() if rc == 1]
        broken = [c for c, rc in res.items() if rc not in (0, 1)]
        status = "killed" if killed else ("inconclusive" if broken else "survived")
        return dict(k=k, cat=cat, file=rel, line=i + 1, desc=desc, old=old.strip(), new=new.strip(), status=status, killed_by=killed, broken=broken)
    finally:
        shutil.rmtree(d, ignore_errors=True)


def main():
    ap = argparse.ArgumentParser()
    ap.add_argument("--n", type=int, default=50)
    ap.add_argument("--seed", type=int, default=1)
    ap.add_argument("--out", default="/var/tmp/mutation_sweep.json")
    ap.add_argument("--cat", default="")
    ap.add_argument("--files", default="", help="regular expression a candidate's file must match")
    a = ap.parse_args()
    random.seed(a.seed)
    cands = list(candidates())
    if a.cat:
        cands = [c for c in cands if c[0] in a.cat.split(",")]
    if a.files:
        cands = [c for c in cands if re.search(a.files, c[1])]
    bycat = {}
    for c in cands:
        bycat.setdefault(c[0], []).append(c)
    print("candidates per category:", {k: len(v) for k, v in sorted(bycat.items())}, flush=True)
    per = max(1, a.n // len(bycat))
    chosen = []
    for k, v in sorted(bycat.items()):
        random.shuffle(v)
        chosen += v[:per]
    cache = tempfile.mkdtemp(prefix="phq-mutcache-", dir="/var/tmp")
    results = []
    try:
        for k, mut in enumerate(chosen):
            r = run_mutant(k, mut, cache)
            results.append(r)
            print("%3d %-12s %s %s:%d %s%s" % (k, r["status"], r["cat"], r["file"], r["line"], r["desc"],
                                               (" <- " + ",".join(r.get("killed_by", []))) if r.get("killed_by") else (" !! " + ",".join(r.get("broken", []))) if r.get("broken") else ""), flush=True)
            json.dump(results, open(a.out, "w"), indent=1)
    finally:
        shutil.rmtree(cache, ignore_errors=True)
    tally = {}
    for r in results:
        tally[r["status"]] = tally.get(r["status"], 0) + 1
    print("tally:", tally)


if __name__ == "__main__":
    main()
