"""C14 — comparison is a total order on stored values; equal objects hash equally."""
import re
from .. import facts, ev, quant, order
from ..facts import short, strip_cvref
from ..frontend import NUMERIC

OPS = ["==", "!=", "<", ">", "<=", ">="]


def comparable_types(F):
    """Types for which the property demands the six operators."""
    inv = quant.inventory(F)
    out = [n for n, q in sorted(inv.items()) if q.kind in ("quantity", "tensor")]
    if F.numeric == "double":
        out.append("PhQ::Dimensions")
        out += sorted(r for r in F.records if re.match(r"PhQ::Dimension::\w+$", r))
    out += sorted(r for r in F.records if re.match(r"PhQ::ConstitutiveModel::\w+<%s>$" % re.escape(F.numeric), r))
    return out


def slots(E, tname, prefix):
    v = E.symbolic(tname, prefix)
    return v, [t[1] for _, t in ev.flatten(v) if isinstance(t, tuple) and t and t[0] in ("leaf", "isym")]


def run(chk):
    chk.level = "proof"
    chk.technique = ("term evaluation of every comparison operator to a boolean formula over same-slot comparisons, then exhaustive "
                     "enumeration of the 3^n slot-relation assignments (n <= 9) against the lexicographic specification; "
                     "read-set / shape analysis of every std::hash specialisation")
    chk.rule("R1", "all six comparison operators exist for the type")
    chk.rule("R2", "each operator equals the lexicographic order (in declared slot order) of the stored values on every one of the 3^n slot-relation assignments")
    chk.rule("R3", "std::hash<Q> reads the object only through std::hash<component>(component) of every stored slot, combined with integer arithmetic")
    chk.assumptions += ["non-NaN values (the abstraction {<,=,>} per slot is complete exactly then)",
                        "libstdc++'s std::hash<floating> maps +0 and -0 to the same value and equal values to equal hashes"]
    n_ops = n_hash = n_cases = 0
    for T in NUMERIC:
        F = facts.load(T, chk.tier)
        ops_by_type = {}
        for f in F.fns.values():
            op = f.get("op")
            if op not in OPS or len(f["params"]) != 2 or f.get("kind") != "function" or "body" not in f:
                continue
            a, b = [strip_cvref(t) for t in F.param_types(f)]
            if a == b:
                ops_by_type.setdefault(a, {}).setdefault(op, f)
        # the same operators written as const member functions `bool operator op(const T& right) const`
        for f in F.fns.values():
            op = f.get("op")
            if op in OPS and f.get("kind") == "method" and len(f["params"]) == 1 and "body" in f and not f.get("static") and "parent" in f:
                a = strip_cvref(F.T(f["parent"]) or "")
                if a and strip_cvref(F.param_types(f)[0]) == a:
                    ops_by_type.setdefault(a, {}).setdefault(op, f)
        for tname in comparable_types(F):
            have = ops_by_type.get(tname, {})
            rloc = short(F.records[tname]["loc"]) if tname in F.records else ""
            missing = [op for op in OPS if op not in have]
            if missing:
                chk.violated("R1", tname, "comparison operators not defined: %s" % missing, rloc)
            else:
                chk.holds("R1", tname, "six operators", rloc, nontrivial=False)
            for op, f in sorted(have.items()):
                inst = "%s %s" % (tname, op)
                n_ops += 1
                try:
                    E = ev.Evaluator(F)
                    lv, ls = slots(E, tname, "left")
                    rv, rs = slots(E, tname, "right")
                    la, ra = E.new_loc(lv, "arg"), E.new_loc(rv, "arg")
                    pts = F.param_types(f)
                    if f.get("kind") == "method":
                        res = E.call(f["id"], la, [ra if facts.is_ref(pts[0]) else rv])
                    else:
                        res = E.call(f["id"], None, [la if facts.is_ref(pts[0]) else lv, ra if facts.is_ref(pts[1]) else rv])
                    res = E.rv(res)
                    if E.unknown_calls:
                        chk.inconclusive("R2", inst, "calls unmodelled %s" % E.unknown_calls[:3], short(f["loc"]))
                        continue
                    ok, detail, cases = order.decide(res, ls, rs, op)
                    n_cases += cases
                    if ok:
                        chk.holds("R2", inst, detail, short(f["loc"]), nontrivial=len(ls) > 1)
                    else:
                        chk.violated("R2", inst, detail + "; operator denotes " + ev.show(res)[:400], short(f["loc"]))
                except ev.Inconclusive as x:
                    chk.inconclusive("R2", inst, str(x), short(f["loc"]))
        # R3 hashes
        for tname in comparable_types(F):
            hname = "std::hash<%s>" % tname
            fs = F.methods(hname, "operator()")
            if not fs:
                if re.match(r"PhQ::Dimension::\w+$", tname):
                    continue
                chk.violated("R3", hname, "no std::hash specialisation: the type cannot be stored in unordered containers", short(F.records[tname]["loc"]) if tname in F.records else "")
                continue
            f = fs[0]
            n_hash += 1
            try:
                E = ev.Evaluator(F)
                v, ls = slots(E, tname, "x")
                a = E.new_loc(v, "arg")
                this = E.new_loc(ev.Obj(hname, {}), "this")
                res = E.rv(E.call(f["id"], this, [a]))
                ok, detail = hash_shape(res, ls)
                if E.unknown_calls:
                    ok, detail = None, "calls unmodelled %s" % E.unknown_calls[:3]
                if ok is True:
                    chk.holds("R3", hname, detail, short(f["loc"]))
                elif ok is False:
                    chk.violated("R3", hname, detail + "; hash denotes " + ev.show(res)[:300], short(f["loc"]))
                else:
                    chk.inconclusive("R3", hname, detail, short(f["loc"]))
            except ev.ReinterpretCast as x:
                chk.violated("R3", hname, "the hash is computed from the object representation (%s): values that compare equal but differ in their bytes "
                             "(+0 and -0; long double padding) hash differently" % x, short(f["loc"]))
            except ev.Inconclusive as x:
                chk.inconclusive("R3", hname, str(x), short(f["loc"]))
    stdlib_hash(chk)
    chk.floor("comparison operators (x3 numeric types)", n_ops, 1700)
    chk.floor("hash specialisations (x3)", n_hash, 290)
    chk.coverage["slot_relation_assignments_enumerated"] = n_cases
    chk.coverage["operators"] = n_ops
    chk.coverage["hashes"] = n_hash


ALL64 = (1 << 64) - 1


def maybe_bits(x):
    """Bit positions (as a 64-bit mask) that may be set in the unsigned 64-bit value of an integer term: a cheap
    known-zero-bits analysis.  A symbolic slot of unknown sign, a sign-extended value and the result of + - * are
    assumed to reach every bit; a value truncated to an unsigned type of w bits reaches the low w bits only."""
    if isinstance(x, bool):
        return 1
    if isinstance(x, int):
        return x & ALL64
    if isinstance(x, tuple) and x:
        if x[0] == "icast":
            w = ev.INT_WIDTH.get(x[1])
            if w and not w[1] and w[0] < 64:
                return (1 << w[0]) - 1       # truncated to an unsigned type of w bits
            return ALL64                     # sign extension / wrap of a possibly negative value
        if x[0] == "iop":
            a, b = x[2], x[3]
            if x[1] == "<<" and isinstance(b, int) and 0 <= b < 64:
                return (maybe_bits(a) << b) & ALL64
            if x[1] == ">>" and isinstance(b, int) and 0 <= b < 64:
                return maybe_bits(a) >> b
            if x[1] in ("|", "^"):
                return maybe_bits(a) | maybe_bits(b)
            if x[1] == "&":
                return maybe_bits(a) & maybe_bits(b)
    return ALL64


def hash_shape(t, slots):
    """The hash term may contain: integer constants, iop + * ^ << >> |, and hash<T>(leaf) / int leaf reads.  An OR (AND) of
    two non-constant operands must combine disjoint bit ranges: otherwise set (clear) bits of one operand overwrite the
    bits that carry the other one - a value sign-extended to size_t wipes everything packed before it."""
    read = []

    def walk(x):
        if isinstance(x, int):
            return True
        if isinstance(x, tuple) and x:
            if x[0] == "iop":
                if x[1] not in ("+", "*", "^", "<<", ">>", "|", "&", "-"):
                    return "integer operator %s" % x[1]
                if x[1] in ("|", "&") and not isinstance(x[2], int) and not isinstance(x[3], int):
                    ma, mb = maybe_bits(x[2]), maybe_bits(x[3])
                    if x[1] == "|" and ma & mb:
                        return ("`|` combines %s (bits that may be set: %#x) with %s (%#x): where the ranges overlap, set bits of one operand - every bit above the "
                                "lowest eight when a negative value is sign-extended - overwrite what the other operand carried, so the hash no longer "
                                "depends on every slot" % (ev.show(x[2])[:60], ma, ev.show(x[3])[:60], mb))
                    if x[1] == "&":
                        return "`&` of two computed values %s and %s discards the bits of either that the other clears" % (ev.show(x[2])[:60], ev.show(x[3])[:60])
                a = walk(x[2])
                if a is not True:
                    return a
                return walk(x[3])
            if x[0] == "fn" and isinstance(x[1], str) and x[1].startswith("hash<"):
                arg = x[2]
                if isinstance(arg, tuple) and arg[0] in ("leaf", "isym"):
                    read.append(arg[1])
                    return True
                return "std::hash applied to a computed value %s" % ev.show(arg)[:80]
            if x[0] == "isym":
                read.append(x[1])
                return True
            if x[0] in ("cast", "icast"):
                return walk(x[2])
            return "hash built from %s" % ev.show(x)[:120]
        return "hash built from %r" % (x,)
    r = walk(t)
    if r is not True:
        return False, r
    missing = [s for s in slots if s not in read]
    if missing:
        # not required for a == b => hash(a) == hash(b), but a slot that is ignored is worth saying
        return True, "reads %d of %d slots (ignores %s): equal objects still hash equally" % (len(set(read)), len(slots), missing[:3])
    return True, "reads each of the %d slots through std::hash of the component; integer mixing only" % len(slots)


def stdlib_hash(chk):
    """R3b: the libstdc++ std::hash<float/double> bodies seen by this build map +0 and -0 to the same hash
    (x != 0 ? H(x) : 0).  std::hash<long double> is defined out of line in libstdc++.so and is trusted."""
    chk.rule("R3b", "libstdc++ std::hash<floating>::operator() is (x != 0 ? H(x) : 0): +0 and -0 hash equally (header bodies only; long double is out of line)")
    F = facts.load("double", chk.tier)
    for T in ("float", "double"):
        fs = [f for f in F.by_name.get("std::hash<%s>::operator()" % T, []) if "body" in f]
        inst = "std::hash<%s>::operator()" % T
        if not fs:
            chk.observe("%s has no body in the headers of this toolchain: trusted" % inst)
            continue
        try:
            E = ev.Evaluator(F)
            E.descend_std_hash = True
            r, _, _ = E.run_symbolic(fs[0], arg_prefixes=["x"])
            r = E.rv(r)
            ok = (isinstance(r, tuple) and r[0] == "g" and isinstance(r[1], tuple) and r[1][0] == "cmp" and r[1][1] == "!="
                  and ev.leaves(r[1]) == {"x"} and r[3] in (0, ev.ZERO))
            (chk.holds if ok else chk.violated)("R3b", inst, ev.show(r)[:160], fs[0]["loc"])
        except ev.Inconclusive as x:
            chk.observe("%s: body not understood (%s): trusted" % (inst, x))
