"""Abstract evaluator over phqx function bodies (term domain).

Computes, for a function of the instantiated program, *which function of its inputs the body
denotes*: floating-point inputs are symbolic leaves, enumerators / integers / booleans are concrete,
branches on symbolic conditions are merged as gamma terms.  Nothing of PhQ is executed: this is an
interpreter for the abstract domain described in DESIGN.md section 2.3.

Scalar terms (hash-consed tuples):
  ('c', Fraction)  ('pi',)  ('leaf', name)  ('add',a,b) ('sub',a,b) ('mul',a,b) ('div',a,b) ('neg',a)
  ('fn', name, args...)  ('cast', type, a)  ('g', cond, a, b)  ('undef', why)
  booleans: True/False, ('cmp', op, a, b), ('not', a), ('and', a, b), ('or', a, b), ('b', name...)
  integers: python int, or ('iop', op, a, b) / ('fn', ...) when symbolic (hash mixing)
  enumerators: ('enum', type, name)
Compound values: Obj(type, fields), Arr(items), ('ptr', loc, path), ('opt', present, value),
  Str(parts), ('fnref', id), ('lambda', id), ('iter', table, key), ('end', table), ('table', var id)
"""
from fractions import Fraction
import os
import re
from .facts import strip_cvref, is_ref
from .frontend import AnalysisBroken


class Inconclusive(Exception):
    """A construct the evaluator does not model; the rule instance is inconclusive (never a violation)."""


class ReinterpretCast(Inconclusive):
    """The code views an object through a reinterpreting cast (byte view / address as integer)."""


class Obj:
    __slots__ = ("type", "f")

    def __init__(self, type_, fields):
        self.type = type_
        self.f = fields

    def __eq__(self, o):
        return isinstance(o, Obj) and self.type == o.type and self.f == o.f

    def __hash__(self):
        return hash((self.type, tuple(sorted((k, _h(v)) for k, v in self.f.items()))))

    def __repr__(self):
        return "Obj(%s,%r)" % (self.type, self.f)


class Arr:
    __slots__ = ("items",)

    def __init__(self, items):
        self.items = tuple(items)

    def __eq__(self, o):
        return isinstance(o, Arr) and self.items == o.items

    def __hash__(self):
        return hash(("arr", tuple(_h(v) for v in self.items)))

    def __repr__(self):
        return "Arr%r" % (self.items,)


_COVERAGE = None
if os.environ.get("VF_COVERAGE_DIR"):
    import atexit
    _COVERAGE = set()

    def _dump_coverage():
        try:
            with open(os.path.join(os.environ["VF_COVERAGE_DIR"], "ev-%d.txt" % os.getpid()), "w") as fh:
                fh.write("\n".join(sorted(_COVERAGE)))
        except OSError:
            pass
    atexit.register(_dump_coverage)


class Closure:
    """A lambda object: its call operator, the frame it was created in (by-reference captures and `this` are read through
    that frame) and private copies of the by-copy captures taken when the lambda expression is evaluated."""
    __slots__ = ("fid", "env", "copies")

    def __init__(self, fid, env, copies=None):
        self.fid = fid
        self.env = env
        self.copies = copies or {}     # ("local", id) / ("parm", fn, i) -> location holding the by-copy capture

    def __repr__(self):
        return "Closure(%s)" % self.fid

    def __eq__(self, o):
        return isinstance(o, Closure) and o.fid == self.fid and o.env is self.env

    def __hash__(self):
        return hash(("closure", self.fid))


class Str:
    """String template: literal chunks and holes."""
    __slots__ = ("parts",)

    def __init__(self, parts):
        out = []
        for p in parts:
            if isinstance(p, str) and out and isinstance(out[-1], str):
                out[-1] += p
            elif p != "":
                out.append(p)
        self.parts = tuple(out)

    def __eq__(self, o):
        return isinstance(o, Str) and self.parts == o.parts

    def __hash__(self):
        return hash(("str", self.parts))

    def __repr__(self):
        return "Str%r" % (self.parts,)


def _h(v):
    try:
        return hash(v)
    except TypeError:
        return id(v)


class LV:
    """An lvalue: a location in the store plus a path into the compound value held there."""
    __slots__ = ("loc", "path")

    def __init__(self, loc, path=()):
        self.loc = loc
        self.path = tuple(path)

    def __repr__(self):
        return "LV(%r,%r)" % (self.loc, self.path)


UNDEF = ("undef", "uninitialised")


def C(x):
    return ("c", Fraction(x))


ZERO = C(0)
ONE = C(1)

_FLOAT = {"float", "double", "long double"}
_INT_TYPES = {"int", "unsigned int", "long", "unsigned long", "short", "unsigned short", "char", "signed char",
              "unsigned char", "long long", "unsigned long long", "bool", "int8_t"}


# (bits, signed)
INT_WIDTH = {"bool": (1, False), "char": (8, True), "signed char": (8, True), "int8_t": (8, True), "unsigned char": (8, False),
             "short": (16, True), "unsigned short": (16, False), "int": (32, True), "unsigned int": (32, False),
             "long": (64, True), "unsigned long": (64, False), "long long": (64, True), "unsigned long long": (64, False)}


def is_float_type(t):
    return strip_cvref(t) in _FLOAT


def is_int_type(t):
    return strip_cvref(t) in _INT_TYPES


def parse_float_literal(text):
    s = text.strip().rstrip("fFlL")
    if s.lower().startswith("0x"):
        raise Inconclusive("hex float literal " + text)
    s = s.replace("'", "")
    return Fraction(s)


def gamma(c, a, b):
    if c is True:
        return a
    if c is False:
        return b
    if a == b:
        return a
    if isinstance(c, tuple) and c and c[0] == "not":
        return gamma(c[1], b, a)     # canonical form: the condition is never a negation (boolean, so NaN-safe)
    if isinstance(c, tuple) and c and c[0] == "g":
        # canonical form: the condition is never itself a conditional: (c1 ? p : q) ? a : b = c1 ? (p ? a : b) : (q ? a : b)
        return gamma(c[1], gamma(c[2], a, b), gamma(c[3], a, b))
    if isinstance(a, Obj) and isinstance(b, Obj) and a.type == b.type and a.f.keys() == b.f.keys():
        return Obj(a.type, {k: gamma(c, a.f[k], b.f[k]) for k in a.f})
    if isinstance(a, Arr) and isinstance(b, Arr) and len(a.items) == len(b.items):
        return Arr([gamma(c, x, y) for x, y in zip(a.items, b.items)])
    if isinstance(a, tuple) and isinstance(b, tuple) and a and b and a[0] == "opt" and b[0] == "opt":
        return ("opt", gamma(c, a[1], b[1]), gamma(c, a[2], b[2]))
    if a is None and b is None:
        return None
    if a is True and b is False:
        return c
    if a is False and b is True:
        return b_not(c)
    return ("g", c, a, b)


def b_not(a):
    if a is True:
        return False
    if a is False:
        return True
    if isinstance(a, tuple) and a[0] == "not":
        return a[1]
    return ("not", a)


def b_and(a, b):
    if a is False or b is False:
        return False
    if a is True:
        return b
    if b is True:
        return a
    # push the conjunction into conditionals (so that `i != n && a[i] < b[i]` never keeps the unreachable a[n])
    if isinstance(a, tuple) and a and a[0] == "g":
        bt, bf = (b[2], b[3]) if (isinstance(b, tuple) and b and b[0] == "g" and b[1] == a[1]) else (b, b)
        return gamma(a[1], b_and(a[2], bt), b_and(a[3], bf))
    if isinstance(a, tuple) and a and a[0] in ("cmp", "not") and isinstance(b, tuple) and b and b[0] in ("g", "and", "or"):
        b = assume(b, a, True)         # the right operand of && is only evaluated when the left one holds
        if b is True:
            return a
        if b is False:
            return False
    return ("and", a, b)


def b_or(a, b):
    if a is True or b is True:
        return True
    if a is False:
        return b
    if b is False:
        return a
    return ("or", a, b)


def is_const(t):
    return isinstance(t, tuple) and t and t[0] == "c"


class Return(Exception):
    def __init__(self, v):
        self.v = v


class Evaluator:
    def __init__(self, facts, fold_constants=False, max_depth=40):
        self.F = facts
        self.store = {}
        self.nloc = 0
        self.depth = 0
        self.max_depth = max_depth
        self.unknown_calls = []     # external callees given no model (uninterpreted)
        self.gvar_reads = set()     # ids of the namespace-scope variables read on the evaluated paths
        self.trace_calls = []       # (caller id, callee id) edges followed
        self.fold = fold_constants
        self.leaf_info = {}         # leaf name -> {"type": quantity type, ...}
        self.hooks = {}             # fn name -> python model override
        from . import frontend as _fe
        self.inc_root = _fe.INC

    # ------------------------------------------------------------------ store
    def new_loc(self, v=UNDEF, tag="tmp"):
        self.nloc += 1
        loc = "%s#%d" % (tag, self.nloc)
        self.store[loc] = v
        return LV(loc)

    def load(self, lv):
        v = self.store[lv.loc]
        for p in lv.path:
            v = self._child(v, p)
        return v

    def _child(self, v, p):
        if isinstance(v, Obj):
            if p not in v.f:
                raise Inconclusive("no field %r in %s" % (p, v.type))
            return v.f[p]
        if isinstance(v, Arr):
            if isinstance(p, tuple) and p and p[0] == "g":
                # an index chosen by a condition among concrete positions: the element is chosen the same way.  A
                # position outside the array yields a poison value: harmless if the surrounding condition excludes it
                # (`i != n && a[i] < b[i]`), reported if it reaches a result.
                def pick(q):
                    try:
                        return self._child(v, q)
                    except Inconclusive as x:
                        if str(x).startswith("bad array index"):
                            return ("oob", str(x))
                        raise
                return gamma(p[1], pick(p[2]), pick(p[3]))
            if isinstance(p, bool) or (isinstance(p, tuple) and p and p[0] == "c" and p[1].denominator == 1):
                p = int(p) if isinstance(p, bool) else int(p[1])
            if not isinstance(p, int):
                raise Inconclusive("symbolic array index")
            if p < 0 or p >= len(v.items):
                raise Inconclusive("bad array index %d (size %d)" % (p, len(v.items)))
            return v.items[p]
        if isinstance(v, tuple) and v and v[0] == "g":
            return gamma(v[1], self._child(v[2], p), self._child(v[3], p))
        if isinstance(v, tuple) and v and v[0] == "undef":
            return v
        raise Inconclusive("cannot take member %r of %r" % (p, v))

    def save(self, lv, val):
        def upd(v, path):
            if not path:
                return val
            p = path[0]
            if isinstance(v, Obj):
                f = dict(v.f)
                f[p] = upd(v.f.get(p, UNDEF), path[1:])
                return Obj(v.type, f)
            if isinstance(v, Arr):
                items = list(v.items)
                if not isinstance(p, int) or p < 0 or p >= len(items):
                    raise Inconclusive("bad array store index %r" % (p,))
                items[p] = upd(items[p], path[1:])
                return Arr(items)
            raise Inconclusive("cannot store through %r in %r" % (p, v))
        self.store[lv.loc] = upd(self.store[lv.loc], lv.path)

    def is_quantity(self, t):
        qs = self.__dict__.get("_qtypes")
        if qs is None:
            from . import quant
            qs = self._qtypes = {n for n, q in quant.inventory(self.F).items() if q.kind == "quantity"}
            # other numeric-type instantiations present in this shard
            for n, r in self.F.records.items():
                tm = r.get("template") or ""
                if tm.startswith("PhQ::") and not tm.startswith("PhQ::Internal") and tm not in quant.BASES and tm not in quant.TENSORS \
                        and not tm.startswith("PhQ::ConstitutiveModel"):
                    qs.add(n)
        return t in qs

    # ------------------------------------------------------------------ symbolic inputs
    def record_fields(self, tname):
        """Flattened (name, type) list of the non-static data members of a record, bases first."""
        r = self.F.records.get(tname)
        if r is None:
            return None
        out = []
        for b in r["bases"]:
            sub = self.record_fields(self.F.T(b["t"]))
            if sub is None:
                return None
            out += sub
        for f in r["fields"]:
            out.append((f["n"], self.F.T(f["t"])))
        return out

    def symbolic(self, tname, prefix, qtype=None):
        """A value of C++ type tname whose floating-point leaves are named prefix.<path>."""
        t = strip_cvref(tname)
        if t in _FLOAT:
            self.leaf_info[prefix] = {"qtype": qtype, "ctype": t}
            return ("leaf", prefix)
        m = re.match(r"std::array<(.+), (\d+)>$", t)
        if m:
            n = int(m.group(2))
            return Obj(t, {"_M_elems": Arr([self.symbolic(m.group(1), "%s[%d]" % (prefix, i), qtype) for i in range(n)])})
        if t in self.F.records:
            fs = self.record_fields(t)
            q = qtype
            if self.is_quantity(t):
                q = t
            return Obj(t, {n: self.symbolic(ft, prefix + "." + n, q) for n, ft in fs})
        if t in self.F.enums:
            return ("enumsym", t, prefix)
        m = re.match(r"std::vector<(.+), std::allocator<.+> ?>$", t)
        if m:
            return Obj(t, {"_M_elems": Arr([self.symbolic(m.group(1), "%s[%d]" % (prefix, i), qtype) for i in range(3)])})
        if t.startswith("std::basic_string<char") or t.startswith("std::basic_string_view<char"):
            return Str([("strsym", prefix)])
        if t.startswith("std::basic_ostream<"):
            return Obj("std::ostream", {"out": Arr([])})
        if t.startswith("std::hash<") or re.match(r"std::(less|greater|less_equal|greater_equal|equal_to|not_equal_to|integer_sequence|integral_constant)<", t):
            return Obj(t, {})      # stateless function / tag objects
        if t in _INT_TYPES or t == "unsigned long":
            return ("isym", prefix)
        raise Inconclusive("cannot build a symbolic value of type " + t)

    # ------------------------------------------------------------------ entry point
    def call(self, fid, this_lv=None, args=()):
        """args: list of LV (for reference parameters) or values."""
        f = self.F.fn(fid)
        return self._invoke(f, this_lv, list(args))

    def run_symbolic(self, f, this_prefix="self", arg_prefixes=None, concrete=None):
        """Evaluate f on fresh symbolic inputs. Returns (result, this_lv, arg_lvs)."""
        concrete = concrete or {}
        this_lv = None
        if f["kind"] in ("method", "ctor", "conversion") and not f.get("static"):
            pt = self.F.T(f["parent"])
            if f.get("_self_type") and f["kind"] != "ctor" and not self.record_has_fields(pt):
                pt = f["_self_type"]       # inherited from a data-less helper base: the object is the class it was found through
            if f["kind"] == "ctor":
                this_lv = self.new_loc(self.blank(pt), "this")
            else:
                this_lv = self.new_loc(self.symbolic(pt, this_prefix), "this")
        args = []
        for i, p in enumerate(f["params"]):
            pt = self.F.T(p["t"])
            name = (arg_prefixes[i] if arg_prefixes else None) or p["n"] or ("arg%d" % i)
            if i in concrete:
                v = concrete[i]
            elif p["n"] in concrete:
                v = concrete[p["n"]]
            else:
                v = self.symbolic(pt, name)
            lv = self.new_loc(v, "arg")
            args.append(lv if is_ref(pt) else v)
        res = self._invoke(f, this_lv, args)
        return res, this_lv, args

    def record_has_fields(self, tname):
        r = self.F.records.get(strip_cvref(tname))
        if r is None:
            return True
        return bool(r["fields"]) or any(self.record_has_fields(self.F.T(b["t"])) for b in r["bases"])

    def default_init(self, tname):
        t = strip_cvref(tname)
        r = self.F.records.get(t)
        if r is None:
            return self.blank(t)
        fields = {}
        for b in r["bases"]:
            sub = self.default_init(self.F.T(b["t"]))
            if isinstance(sub, Obj):
                fields.update(sub.f)
        for fd in r["fields"]:
            ft = strip_cvref(self.F.T(fd["t"]))
            if fd.get("init") is not None:
                fr = {"f": {"name": t + "::" + fd["n"]}, "params": [], "locals": {}, "this": None}
                fields[fd["n"]] = self.rv(self.eval(fd["init"], fr))
            elif ft in self.F.records:
                fields[fd["n"]] = self.default_init(ft)
            else:
                fields[fd["n"]] = self.blank(ft)
        return Obj(t, fields)

    def blank(self, tname):
        t = strip_cvref(tname)
        if t.startswith("std::optional<"):
            return ("opt", False, None)
        if t in self.F.records:
            fs = self.record_fields(t)
            return Obj(t, {n: self.blank(ft) for n, ft in fs})
        m = re.match(r"std::array<(.+), (\d+)>$", t)
        if m:
            return Obj(t, {"_M_elems": Arr([self.blank(m.group(1)) for _ in range(int(m.group(2)))])})
        return UNDEF

    # ------------------------------------------------------------------ calls
    def _invoke(self, f, this_lv, args):
        if _COVERAGE is not None and "body" in f:
            _COVERAGE.add(f.get("qname", f["name"]))
        if self.depth > self.max_depth:
            raise Inconclusive("call depth exceeded at " + f["name"])
        hk = self.hooks.get(f.get("qname", f["name"]))
        if hk is not None:
            r = hk(self, f, this_lv, args)
            if r is not _NOMODEL:
                return r
        if "body" not in f and (f.get("defaulted") or f.get("implicit")) and f["kind"] in ("ctor", "dtor", "method") \
                and self.F.T(f.get("parent", -1)) in self.F.records:
            return self.defaulted(f, this_lv, args)
        if f.get("extern") or "body" not in f:
            return self.model_extern(f, this_lv, args)
        if f["name"].startswith("std::hash<") and not f["loc"].startswith(self.inc_root) and not self.__dict__.get("descend_std_hash"):
            return self.model_extern(f, this_lv, args)   # libstdc++ body is examined separately (C14.R3b)
        if f.get("invalid"):
            raise Inconclusive("ill-formed function " + f["name"])
        if f.get("deleted"):
            raise Inconclusive("call to deleted function " + f["name"])
        if "body" not in f:
            return self.defaulted(f, this_lv, args)
        self.depth += 1
        try:
            frame = {"f": f, "this": this_lv, "params": [], "locals": {}}
            if this_lv is not None and f.get("sname") == "operator()":
                try:
                    clo = self.load(this_lv)
                except Exception:
                    clo = None
                if isinstance(clo, Closure):
                    frame["env"] = clo.env
                    frame["copies"] = clo.copies
            for p, a in zip(f["params"], args):
                pt = self.F.T(p["t"])
                if isinstance(a, LV):
                    if is_ref(pt):
                        frame["params"].append(a)
                    else:
                        frame["params"].append(self.new_loc(self.load(a), "p"))
                else:
                    frame["params"].append(self.new_loc(a, "p"))
            if f["kind"] == "ctor":
                self.run_inits(f, frame)
            ret_t = self.F.T(f["ret"])
            r = self.exec_block_list([f["body"]], frame, top=True)
            if r is _FALL:
                r = None
            return r
        finally:
            self.depth -= 1

    def defaulted(self, f, this_lv, args):
        if f["kind"] == "ctor":
            if f.get("copy_ctor") or f.get("move_ctor"):
                src = args[0]
                self.save(this_lv, self.load(src) if isinstance(src, LV) else src)
                return None
            if f.get("default_ctor") or not f["params"]:
                # default-initialisation: in-class initialisers apply, everything else stays indeterminate
                fresh = self.default_init(self.F.T(f["parent"]))
                try:
                    cur = self.load(this_lv)
                except Exception:
                    cur = None
                if isinstance(cur, Obj) and isinstance(fresh, Obj) and cur.type != fresh.type:
                    # the (flattened) object of a derived class whose base is being default-initialised: only the
                    # base's own members are touched, the derived members keep their (indeterminate) state
                    fields = dict(cur.f)
                    fields.update(fresh.f)
                    self.save(this_lv, Obj(cur.type, fields))
                else:
                    self.save(this_lv, fresh)
                return None
            raise Inconclusive("defaulted constructor " + f["name"])
        if f["kind"] == "dtor":
            return None
        if f.get("copy_assign") or f.get("move_assign") or f["sname"] == "operator=":
            src = args[0]
            self.save(this_lv, self.load(src) if isinstance(src, LV) else src)
            return this_lv
        raise Inconclusive("defaulted function " + f["name"])

    def run_inits(self, f, frame):
        for ini in f.get("inits", []):
            e = ini["e"]
            if ini.get("delegating") or "base" in ini:
                # run the target constructor on the same (flattened) object
                if e is None:
                    continue
                if e["k"] == "ctor":
                    callee = self.F.fn(e["f"])
                    a = self.eval_args(callee, e["a"], frame)
                    self._invoke(callee, frame["this"], a)
                elif e["k"] == "ilist" and not e["e"]:
                    continue
                elif e["k"] == "zeroinit":
                    continue
                else:
                    raise Inconclusive("base initialiser of kind " + e["k"])
            elif "field" in ini:
                lv = LV(frame["this"].loc, frame["this"].path + (ini["field"],))
                self.init_into(lv, e, frame)
            else:
                raise Inconclusive("constructor initialiser form")

    def init_into(self, lv, e, frame):
        """Initialise the object at lv from initialiser expression e."""
        if e is None:
            return
        if e["k"] == "ctor":
            callee = self.F.fn(e["f"])
            tname = strip_cvref(self.F.T(e["t"]))
            modelled = self.model_ctor(callee, tname, e, frame)
            if modelled is not _NOMODEL:
                self.save(lv, modelled)
                return
            self.save(lv, self.blank(tname))
            a = self.eval_args(callee, e["a"], frame)
            self._invoke(callee, lv, a)
            return
        v = self.rv(self.eval(e, frame))
        self.save(lv, v)

    def eval_args(self, callee, arg_exprs, frame):
        out = []
        ps = callee["params"]
        for i, a in enumerate(arg_exprs):
            x = self.eval(a, frame)
            if i < len(ps) and is_ref(self.F.T(ps[i]["t"])):
                if not isinstance(x, LV):
                    x = self.new_loc(x, "tmp")
                out.append(x)
            else:
                out.append(self.rv(x))
        return out

    def rv(self, x):
        return self.load(x) if isinstance(x, LV) else x

    # ------------------------------------------------------------------ statements
    def exec_block_list(self, stmts, frame, top=False):
        """Execute statements in order; on a symbolic `if`, fork the continuation and merge.
        `top`: the list runs to the end of the function body, so falling off its end is `return;`."""
        i = 0
        while i < len(stmts):
            s = stmts[i]
            if s is None:
                i += 1
                continue
            k = s["k"]
            if k == "block":
                stmts = list(s["s"]) + [_SCOPE_END] + list(stmts[i + 1:])
                i = 0
                continue
            if s is _SCOPE_END or k == "scope_end":
                i += 1
                continue
            if k == "decl":
                for d in s["d"]:
                    self.exec_decl(d, frame)
            elif k == "ret":
                if s["e"] is None:
                    return None
                ret_t = self.F.T(frame["f"]["ret"])
                x = self.eval(s["e"], frame)
                if is_ref(ret_t):
                    if not isinstance(x, LV):
                        raise Inconclusive("reference return of a non-lvalue")
                    return x
                return self.rv(x)
            elif k == "if":
                if s.get("init"):
                    self.exec_block_list([s["init"]], frame)
                if s.get("constexpr") and "cond_value" in s:
                    c = bool(s["cond_value"])         # `if constexpr`: the discarded branch is not instantiated
                else:
                    c = self.rv(self.eval(s["c"], frame))
                rest = list(stmts[i + 1:])
                if c is True:
                    stmts = [s["then"]] + rest
                    i = 0
                    continue
                if c is False:
                    stmts = ([s["else"]] if s.get("else") else []) + rest
                    i = 0
                    continue
                # fork.  When neither branch can leave the function, the two branches are merged right after the `if`
                # (inside unrolled loops only, where duplicating the continuation would cost 2^n paths; elsewhere the path form is
                # kept because the print/ordering rules read the branch structure)
                local_merge = frame.get("in_loop", 0) > 0 and not _contains_return(s.get("then")) and not _contains_return(s.get("else"))
                if local_merge:
                    rest_saved, rest = rest, []
                snap = dict(self.store)
                snap_locals = dict(frame["locals"])
                snap_loop = frame.get("in_loop", 0)
                r1 = self.exec_block_list([s["then"]] + rest, frame, top)
                st1 = self.store
                self.store = dict(snap)
                frame["locals"] = dict(snap_locals)
                frame["in_loop"] = snap_loop
                r2 = self.exec_block_list(([s["else"]] if s.get("else") else []) + rest, frame, top)
                st2 = self.store
                merged = {}
                for loc in set(st1) | set(st2):
                    if loc in st1 and loc in st2:
                        a, b = st1[loc], st2[loc]
                        merged[loc] = a if a is b else gamma(c, a, b)
                    else:
                        merged[loc] = st1.get(loc, st2.get(loc))
                self.store = merged
                if local_merge:
                    stmts = rest_saved
                    i = 0
                    continue
                if r1 is _FALL and r2 is _FALL:
                    return _FALL
                if top and (r1 is None or r2 is None) and (r1 is _FALL or r2 is _FALL):
                    return None     # `return;` on one side, end of a void function on the other
                if r1 is None and r2 is None:
                    return None
                if r1 is _FALL or r2 is _FALL:
                    raise Inconclusive("branch falls through on one side only in " + frame["f"]["name"])
                if isinstance(r1, LV) or isinstance(r2, LV):
                    if isinstance(r1, LV) and isinstance(r2, LV) and r1.loc == r2.loc and r1.path == r2.path:
                        return r1
                    raise Inconclusive("reference returned from symbolic branch")
                return gamma(c, r1, r2)
            elif k == "for":
                # loops are unrolled *inside the statement list*, so that a symbolic `if` in the body forks the whole
                # continuation (remaining iterations and the statements after the loop) and a `return` in the body works
                if s.get("init"):
                    r0 = self.exec_block_list([s["init"]], frame)
                    if r0 is not _FALL:
                        return r0
                stmts = [{"k": "forloop", "s": s, "n": 0}, {"k": "loop_end"}] + list(stmts[i + 1:])
                i = 0
                continue
            elif k == "forloop":
                lp = s["s"]
                c = True if lp.get("c") is None else self.rv(self.eval(lp["c"], frame))
                if c is False:
                    i += 1
                    continue
                if c is not True:
                    raise Inconclusive("loop with symbolic condition in " + frame["f"]["name"])
                if s["n"] >= 64:
                    raise Inconclusive("loop does not terminate within 64 iterations in " + frame["f"]["name"])
                nxt = [{"k": "loop_enter"}, lp["body"], {"k": "loop_leave"}]
                if lp.get("inc"):
                    nxt.append({"k": "forinc", "e": lp["inc"]})
                stmts = nxt + [{"k": "forloop", "s": lp, "n": s["n"] + 1}] + list(stmts[i + 1:])
                i = 0
                continue
            elif k == "loop_enter":
                frame["in_loop"] = frame.get("in_loop", 0) + 1
            elif k == "loop_leave":
                frame["in_loop"] = max(0, frame.get("in_loop", 0) - 1)
            elif k == "forinc":
                self.eval(s["e"], frame)
            elif k == "rangebind":
                d = s["var"]
                vt = strip_cvref(self.F.T(d["t"]))
                et = strip_cvref(self.F.T(s["elt"])) if s.get("elt") is not None else vt
                if vt != et and (vt in _FLOAT or vt in _INT_TYPES) and (et in _FLOAT or et in _INT_TYPES):
                    # the loop variable has another arithmetic type than the elements: each element is converted (a copy,
                    # also when the variable is a const reference)
                    frame["locals"][d["i"]] = self.new_loc(self.convert_arith(self.load(s["el"]), et, vt), "l_" + d["n"])
                elif is_ref(self.F.T(d["t"])):
                    frame["locals"][d["i"]] = s["el"]
                else:
                    frame["locals"][d["i"]] = self.new_loc(self.load(s["el"]), "l_" + d["n"])
            elif k == "try":
                r = self.exec_block_list([s["body"]], frame)
                if r is not _FALL:
                    return r
            elif k in ("nullstmt",):
                pass
            elif k == "while":
                stmts = [{"k": "forloop", "s": {"c": s["c"], "inc": None, "body": s["body"]}, "n": 0}, {"k": "loop_end"}] + list(stmts[i + 1:])
                i = 0
                continue
            elif k == "do":
                # do body while (c): one unconditional iteration, then an ordinary while loop
                stmts = [{"k": "loop_enter"}, s["body"], {"k": "loop_leave"},
                         {"k": "forloop", "s": {"c": s["c"], "inc": None, "body": s["body"]}, "n": 1}, {"k": "loop_end"}] + list(stmts[i + 1:])
                i = 0
                continue
            elif k == "rangefor":
                els = self.range_elements(s, frame)
                unrolled = []
                for el in els:
                    unrolled += [{"k": "rangebind", "var": s["var"], "el": el, "elt": s.get("elt")}, {"k": "loop_enter"}, s["body"], {"k": "loop_leave"}]
                stmts = unrolled + [{"k": "loop_end"}] + list(stmts[i + 1:])
                i = 0
                continue
            elif k == "loop_end":
                pass
            elif k == "break":
                # leave the innermost enclosing loop: drop everything up to and including its end marker
                rest = list(stmts[i + 1:])
                j = next((q for q, x in enumerate(rest) if isinstance(x, dict) and x.get("k") == "loop_end"), None)
                if j is None:
                    raise Inconclusive("break outside a loop in " + frame["f"]["name"])
                frame["in_loop"] = max(0, frame.get("in_loop", 0) - 1)
                stmts = rest[j + 1:]
                i = 0
                continue
            elif k == "continue":
                rest = list(stmts[i + 1:])
                j = next((q for q, x in enumerate(rest) if isinstance(x, dict) and x.get("k") == "loop_leave"), None)
                if j is None:
                    raise Inconclusive("continue outside a loop in " + frame["f"]["name"])
                stmts = rest[j:]
                i = 0
                continue
            elif k == "switch":
                stmts = [self.switch_as_if_chain(s, frame)] + list(stmts[i + 1:])
                i = 0
                continue
            elif k in ("unkstmt",):
                raise Inconclusive("statement kind %s in %s" % (k, frame["f"]["name"]))
            else:
                self.eval(s, frame)  # expression statement
            i += 1
        return _FALL

    def exec_decl(self, d, frame):
        t = self.F.T(d["t"])
        if d.get("static") and d.get("init") is not None:
            dep = []
            from .cg import walk
            walk(d["init"], lambda n: dep.append(n["k"]) if n.get("k") in ("parm", "this") else None)
            if dep:
                raise Inconclusive("HISTORY: function-local static `%s` in %s is initialised from the arguments/object of the FIRST call "
                                   "and reused by every later call: the result depends on the call history, not only on the inputs"
                                   % (d["n"], frame["f"]["name"]))
        if is_ref(t):
            x = self.eval(d["init"], frame)
            if not isinstance(x, LV):
                x = self.new_loc(x, "tmp")
            frame["locals"][d["i"]] = x
            return
        lv = self.new_loc(self.blank(t), "l_" + d["n"])
        frame["locals"][d["i"]] = lv
        if d.get("init") is not None:
            self.init_into(lv, d["init"], frame)

    def switch_as_if_chain(self, s, frame):
        """switch (c) { case v1: A; break; case v2: case v3: B; default: C; }  ->  if (c == v1) {A} else if (c == v2 || c == v3) {B; C} ...
        Each label's statement list runs to the next top-level `break` (so fall-through is kept); a `break` nested inside
        another statement of a case is not supported."""
        body = s.get("body") or {}
        seq = list(body.get("s", [])) if body.get("k") == "block" else [body]
        flat = []          # ("label", value expr or None) / ("stmt", node)

        def add(n):
            while isinstance(n, dict) and n.get("k") in ("case", "default"):
                flat.append(("label", n.get("v") if n["k"] == "case" else None))
                n = n.get("body")
            if n is not None:
                flat.append(("stmt", n))
        for n in seq:
            add(n)

        def nested_break(n, top=True):
            if isinstance(n, dict):
                if n.get("k") == "break" and not top:
                    return True
                if n.get("k") in ("for", "while", "do", "rangefor", "switch", "lambda"):
                    return False
                return any(nested_break(v, False) for v in n.values())
            if isinstance(n, list):
                return any(nested_break(v, False) for v in n)
            return False
        groups = []        # (list of label value exprs (None = default), statements)
        idx = 0
        while idx < len(flat):
            if flat[idx][0] != "label":
                idx += 1
                continue
            labels = []
            while idx < len(flat) and flat[idx][0] == "label":
                labels.append(flat[idx][1])
                idx += 1
            run = []
            j = idx
            while j < len(flat):
                if flat[j][0] == "stmt":
                    n = flat[j][1]
                    if isinstance(n, dict) and n.get("k") == "break":
                        break
                    if nested_break(n):
                        raise Inconclusive("break nested inside a statement of a switch case in " + frame["f"]["name"])
                    run.append(n)
                j += 1
            groups.append((labels, run))
        cond = s["c"]
        chain = None
        default_run = next((run for labels, run in groups if None in labels), [])
        tail = {"k": "block", "s": default_run}
        for labels, run in reversed(groups):
            vals = [v for v in labels if v is not None]
            if not vals:
                continue
            test = None
            for v in vals:
                eq = {"k": "bin", "op": "==", "l": cond, "r": v, "t": -1}
                test = eq if test is None else {"k": "bin", "op": "||", "l": test, "r": eq, "t": -1}
            tail = {"k": "if", "c": test, "then": {"k": "block", "s": run}, "else": tail}
        return tail

    def range_elements(self, s, frame):
        """The element lvalues a range-for visits (std::array / built-in array of known size)."""
        rng = self.eval(s["range"], frame)
        if not isinstance(rng, LV):
            rng = self.new_loc(rng, "range")
        v = self.load(rng)
        if isinstance(v, Obj) and "_M_elems" in v.f and isinstance(v.f["_M_elems"], Arr):
            n = len(v.f["_M_elems"].items)
            path = rng.path + ("_M_elems",)
        elif isinstance(v, Arr):
            n = len(v.items)
            path = rng.path
        else:
            raise Inconclusive("range-for over %r" % (type(v).__name__,))
        return [LV(rng.loc, path + (i,)) for i in range(n)]

    def exec_rangefor(self, s, frame):
        rng = self.eval(s["range"], frame)
        if not isinstance(rng, LV):
            rng = self.new_loc(rng, "range")
        v = self.load(rng)
        if isinstance(v, Obj) and "_M_elems" in v.f and isinstance(v.f["_M_elems"], Arr):
            n = len(v.f["_M_elems"].items)
            path = rng.path + ("_M_elems",)
        elif isinstance(v, Arr):
            n = len(v.items)
            path = rng.path
        else:
            raise Inconclusive("range-for over %r" % (type(v).__name__,))
        d = s["var"]
        t = self.F.T(d["t"])
        for i in range(n):
            el = LV(rng.loc, path + (i,))
            if is_ref(t):
                frame["locals"][d["i"]] = el
            else:
                frame["locals"][d["i"]] = self.new_loc(self.load(el), "l_" + d["n"])
            r = self.exec_block_list([s["body"]], frame)
            if r is not _FALL:
                raise Inconclusive("return inside range-for")

    def exec_for(self, s, frame):
        if s.get("init"):
            self.exec_block_list([s["init"]], frame)
        n = 0
        while True:
            c = True if s.get("c") is None else self.rv(self.eval(s["c"], frame))
            if c is False:
                break
            if c is not True:
                raise Inconclusive("loop with symbolic condition in " + frame["f"]["name"])
            n += 1
            if n > 64:
                raise Inconclusive("loop does not terminate within 64 iterations in " + frame["f"]["name"])
            r = self.exec_block_list([s["body"]], frame)
            if r is not _FALL:
                raise Inconclusive("return inside loop")
            if s.get("inc"):
                self.eval(s["inc"], frame)

    # ------------------------------------------------------------------ expressions
    def eval(self, e, frame):
        k = e["k"]
        m = getattr(self, "e_" + k, None)
        if m is None:
            raise Inconclusive("expression kind %s in %s" % (k, frame["f"]["name"]))
        return m(e, frame)

    def e_flit(self, e, frame):
        q = parse_float_literal(e["text"])
        lt = strip_cvref(self.F.T(e["t"]))
        if lt in _MANT and not _exact_in(q, lt) and lt != "long double":
            # the literal's value is the decimal rounded to the literal's own type; keep that visible so that a
            # double literal used in a long double computation is not mistaken for the exact decimal
            return ("cast", lt, ("c", q))
        return ("c", q)

    def e_ilit(self, e, frame):
        return int(e["val"])

    def e_blit(self, e, frame):
        return bool(e["val"])

    def e_slit(self, e, frame):
        return Str([e["s"]])

    def e_nullptr(self, e, frame):
        return ("nullptr",)

    def e_zeroinit(self, e, frame):
        return self.zero_value(self.F.T(e["t"]))

    def zero_value(self, t):
        """Value-initialisation of a scalar, a built-in array or a std::array of such ([dcl.init]/8: zero-initialised)."""
        t = strip_cvref(t)
        if is_float_type(t):
            return ZERO
        if is_int_type(t):
            return 0
        m = re.match(r"(.+)\[(\d+)\]$", t)
        if m:
            return Arr([self.zero_value(m.group(1)) for _ in range(int(m.group(2)))])
        m = re.match(r"std::array<(.+), (\d+)>$", t)
        if m:
            return Obj(t, {"_M_elems": Arr([self.zero_value(m.group(1)) for _ in range(int(m.group(2)))])})
        raise Inconclusive("value-initialisation of " + t)

    def e_sizeof(self, e, frame):
        if "val" in e:
            return int(e["val"])
        raise Inconclusive("sizeof")

    def e_this(self, e, frame):
        fr = frame
        while fr.get("env") is not None:      # `this` inside a lambda body is the enclosing object
            fr = fr["env"]
        lv = fr["this"]
        return ("ptr", lv.loc, lv.path)

    def e_parm(self, e, frame):
        if e.get("d", 0) != 0 and frame.get("outer"):
            return frame["outer"]["params"][e["i"]]
        owner = e.get("fn")
        fr = frame
        while owner is not None and fr["f"].get("id") != owner and fr.get("env") is not None:
            cp = fr.get("copies", {}).get(("parm", owner, e["i"]))
            if cp is not None:
                return cp                      # captured by copy
            fr = fr["env"]                     # a captured parameter of an enclosing function
        return fr["params"][e["i"]]

    def e_local(self, e, frame):
        fr = frame
        while e["i"] not in fr["locals"]:
            cp = fr.get("copies", {}).get(("local", e["i"]))
            if cp is not None:
                return cp                      # captured by copy
            if fr.get("env") is None:
                raise Inconclusive("use of unknown local " + e["n"])
            fr = fr["env"]                     # a captured local of an enclosing function
        return fr["locals"][e["i"]]

    def e_enumc(self, e, frame):
        return ("enum", strip_cvref(self.F.T(e["t"])), e["n"])

    def e_fnref(self, e, frame):
        return ("fnref", e["f"])

    def e_methref(self, e, frame):
        return ("fnref", e["f"])

    def e_gvar(self, e, frame):
        v = self.F.vars.get(e["v"])
        if v is None:
            raise Inconclusive("unknown global")
        r = self.global_value(v, e)
        if not (isinstance(r, tuple) and r and r[0] == "table"):
            self.gvar_reads.add(v["id"])      # tables: naming one (binding a reference to it) is not an access; see the map models
        return r

    def global_value(self, v, e=None):
        name = v["name"]
        if name.startswith("PhQ::Pi<"):
            return ("pi", (v.get("targs") or ["?"])[0])
        if e is not None and "cv" in e:
            t = strip_cvref(self.F.T(e["t"]))
            if t in self.F.enums:
                return self.enum_from_value(t, int(e["cv"]))
            return int(e["cv"])
        t = strip_cvref(self.F.T(v["t"]))
        if t in self.F.enums and v.get("init"):
            x = self.eval(v["init"], {"f": {"name": name}, "params": [], "locals": {}, "this": None})
            return self.rv(x)
        if "map<" in t:
            return ("table", v["id"])
        if v.get("init") is not None and v.get("constexpr"):
            # one object per constexpr variable and evaluator: positions taken from it on different occasions (cbegin() here,
            # an iterator found earlier there) refer to the same array
            cache = self.__dict__.setdefault("_constexpr_globals", {})
            if v["id"] in cache and cache[v["id"]].loc in self.store:     # (a forked path may not have the object yet)
                return cache[v["id"]]
            fr = {"f": {"name": name, "ret": v["t"]}, "params": [], "locals": {}, "this": None}
            lv = self.new_loc(self.blank(t), "g")
            self.init_into(lv, v["init"], fr)
            cache[v["id"]] = lv
            return lv
        if v.get("init") is not None and v.get("under_root") and ("basic_string" in t):
            # a namespace-scope string / string_view: its value is its initialiser
            fr = {"f": {"name": name, "ret": v["t"]}, "params": [], "locals": {}, "this": None}
            lv = self.new_loc(self.blank(t), "g")
            self.init_into(lv, v["init"], fr)
            return lv
        if name.startswith("std::nullopt"):
            return ("nullopt",)
        if name in ("std::cout", "std::cerr"):
            return self.new_loc(Obj("std::ostream", {"out": Arr([])}), "stream")
        raise Inconclusive("global variable " + name)

    def enum_from_value(self, t, val):
        for ec in self.F.enums[t]["enumerators"]:
            if int(ec["val"]) == val:
                return ("enum", t, ec["n"])
        raise Inconclusive("no enumerator of %s has value %d" % (t, val))

    def e_mem(self, e, frame):
        b = self.eval(e["b"], frame)
        if e.get("arrow"):
            p = self.rv(b)
            if not (isinstance(p, tuple) and p[0] == "ptr"):
                raise Inconclusive("-> on non-pointer")
            return LV(p[1], p[2] + (e["n"],))
        if isinstance(b, LV):
            return LV(b.loc, b.path + (e["n"],))
        return self._child(b, e["n"])

    def e_idx(self, e, frame):
        b = self.eval(e["b"], frame)
        i = self.rv(self.eval(e["i"], frame))
        if isinstance(b, LV):
            v = self.load(b)
            if isinstance(v, tuple) and v and v[0] == "ptr":
                return self.ptr_deref(self.ptr_add(v, i))
            return LV(b.loc, b.path + (i,))
        if isinstance(b, tuple) and b and b[0] == "ptr":
            return self.ptr_deref(self.ptr_add(b, i))
        return self._child(b, i)

    def e_cast(self, e, frame):
        ck = e["ck"]
        x = self.eval(e["e"], frame)
        to = self.F.T(e["t"])
        if ck in ("DerivedToBase", "UncheckedDerivedToBase", "BaseToDerived"):
            return x
        if ck == "ArrayToPointerDecay":
            if isinstance(x, LV):
                return ("ptr", x.loc, x.path + (0,))
            if isinstance(x, Str):
                return x
            raise Inconclusive("array decay of rvalue")
        v = self.rv(x)
        if ck == "FloatingCast":
            frm = strip_cvref(self.F.T(e["from"]))
            tot = strip_cvref(to)
            if frm == tot:
                return v
            if is_const(v) and (self.fold or _exact_in(v[1], tot)):
                return v   # value-preserving conversion of an exactly representable constant
            if isinstance(v, tuple) and v and v[0] == "cast" and len(v) > 3 and v[1] == frm and v[3] == tot \
                    and _MANT.get(frm, 0) >= _MANT.get(tot, 99):
                return v[2]   # T -> wider -> T is the identity (every T value is representable in the wider type)
            return ("cast", tot, v, frm)
        if ck == "IntegralToFloating":
            if isinstance(v, int):
                return C(v)
            return ("cast", strip_cvref(to), v)
        if ck == "IntegralCast":
            if "cv" in e:
                return int(e["cv"])
            if isinstance(v, bool):
                return int(v)
            if isinstance(v, tuple) and v and v[0] in ("isym", "iop", "icast"):
                # a symbolic integer keeps its mathematical value under a widening conversion that preserves the sign; a
                # conversion from a signed to an unsigned type (sign extension / modular wrap of negative values) or to a
                # narrower type (truncation) is kept in the term: bit-mixing code (hashes) depends on it
                frm = INT_WIDTH.get(strip_cvref(self.F.T(e.get("from", -1)) or ""))
                tot = INT_WIDTH.get(strip_cvref(to))
                if frm and tot and ((frm[1] and not tot[1]) or tot[0] < frm[0]):
                    return ("icast", strip_cvref(to), v, strip_cvref(self.F.T(e["from"])))
            return v
        if ck == "IntegralToBoolean":
            if isinstance(v, int):
                return v != 0
            return ("cmp", "!=", v, 0)
        if ck == "FloatingToBoolean":
            return self.compare("!=", v, ZERO)
        if ck == "FloatingToIntegral":
            return ("fn", "trunc", v)
        if ck in ("NullToPointer",):
            return ("nullptr",)
        if ck in ("ToVoid",):
            return None
        if ck in ("BitCast", "PointerToIntegral", "IntegralToPointer", "LValueBitCast", "ReinterpretMemberPointer"):
            raise ReinterpretCast("reinterpreting cast " + ck)
        if ck == "Dependent":
            raise Inconclusive("dependent cast")
        return v

    def convert_arith(self, v, frm, tot):
        """The implicit conversion of an arithmetic value from type frm to type tot (as e_cast does for written casts)."""
        if frm == tot:
            return v
        if frm in _FLOAT and tot in _FLOAT:
            if is_const(v) and (self.fold or _exact_in(v[1], tot)):
                return v
            return ("cast", tot, v, frm)
        if frm in _FLOAT:
            return ("fn", "trunc", v)
        if tot in _FLOAT:
            return C(v) if isinstance(v, int) and not isinstance(v, bool) else ("cast", tot, v)
        return v

    def arith(self, op, a, b, t=None):
        if isinstance(a, bool):
            a = int(a)
        if isinstance(b, bool):
            b = int(b)
        if isinstance(a, int) and isinstance(b, int):
            if op == "+":
                return a + b
            if op == "-":
                return a - b
            if op == "*":
                return a * b
            if op == "/":
                if b == 0:
                    raise Inconclusive("integer division by zero")
                q = abs(a) // abs(b)
                return q if (a >= 0) == (b >= 0) else -q
            if op == "%":
                return a - b * (abs(a) // abs(b)) * (1 if (a >= 0) == (b >= 0) else -1)
            if op == "<<":
                return a << b
            if op == ">>":
                return a >> b
            if op == "^":
                return a ^ b
            if op == "&":
                return a & b
            if op == "|":
                return a | b
        if _int_choice(a) and _int_choice(b):
            # integer arithmetic distributes over a conditional of concrete integers (an index or a precision selected by
            # an earlier comparison): the result is again a conditional of concrete integers
            if isinstance(a, tuple):
                return gamma(a[1], self.arith(op, a[2], b, t), self.arith(op, a[3], b, t))
            return gamma(b[1], self.arith(op, a, b[2], t), self.arith(op, a, b[3], t))
        if t is not None and is_int_type(t) or _is_intterm(a) or _is_intterm(b):
            return ("iop", op, a, b)
        if isinstance(a, int):
            a = C(a)
        if isinstance(b, int):
            b = C(b)
        if isinstance(a, tuple) and a and a[0] == "ptr" and op in "+-":
            if isinstance(b, int) or is_const(b):
                return self.ptr_add(a, b if op == "+" else -b)
        name = {"+": "add", "-": "sub", "*": "mul", "/": "div"}.get(op)
        if name is None:
            raise Inconclusive("arithmetic operator " + op)
        if self.fold and is_const(a) and is_const(b):
            if name == "add":
                return ("c", a[1] + b[1])
            if name == "sub":
                return ("c", a[1] - b[1])
            if name == "mul":
                return ("c", a[1] * b[1])
            if name == "div" and b[1] != 0:
                return ("c", a[1] / b[1])
        return (name, a, b)

    def compare(self, op, a, b):
        if isinstance(a, bool):
            a = int(a)
        if isinstance(b, bool):
            b = int(b)
        if (isinstance(a, tuple) and a and a[0] == "oob") or (isinstance(b, tuple) and b and b[0] == "oob"):
            return ("oob", (a if isinstance(a, tuple) and a and a[0] == "oob" else b)[1])
        # a comparison of conditionally chosen values is the conditional choice of the comparisons
        if isinstance(a, tuple) and a and a[0] == "g":
            bt, bf = (b[2], b[3]) if (isinstance(b, tuple) and b and b[0] == "g" and b[1] == a[1]) else (b, b)
            return gamma(a[1], self.compare(op, a[2], bt), self.compare(op, a[3], bf))
        if isinstance(b, tuple) and b and b[0] == "g":
            return gamma(b[1], self.compare(op, a, b[2]), self.compare(op, a, b[3]))
        if isinstance(a, int) and isinstance(b, int):
            return {"==": a == b, "!=": a != b, "<": a < b, ">": a > b, "<=": a <= b, ">=": a >= b}[op]
        if isinstance(a, Obj) and isinstance(b, Obj) and a.type == b.type and a.type in self.F.records:
            # objects of a library class compared inside a standard template (std::tie(...) == std::tie(...), std::equal,
            # std::less): the class's own operator does the comparison
            f = self.class_operator(op, a.type)
            if f is None:
                raise Inconclusive("no operator%s for %s" % (op, a.type))
            la, lb = self.new_loc(a, "cmp"), self.new_loc(b, "cmp")
            if f["kind"] == "method":
                return self.rv(self._invoke(f, la, [lb]))
            return self.rv(self._invoke(f, None, [la, lb]))
        if isinstance(a, tuple) and isinstance(b, tuple) and a and b:
            if a[0] == "enum" and b[0] == "enum":
                if op == "==":
                    return a == b
                if op == "!=":
                    return a != b
                va, vb = self.enum_value(a), self.enum_value(b)
                return self.compare(op, va, vb)
            if a[0] == "ptr" and b[0] == "ptr" and a[1] == b[1] and a[2][:-1] == b[2][:-1]:
                return self.compare(op, a[2][-1], b[2][-1])
            if a[0] in ("ptr", "ptr1") and b[0] in ("ptr", "ptr1") and a[1] == b[1] and a[2] == b[2]:
                return self.compare(op, a[3] if a[0] == "ptr1" else 0, b[3] if b[0] == "ptr1" else 0)
            if a[0] in ("iter", "end") and b[0] in ("iter", "end"):
                return self.iter_compare(op, a, b)
            if is_const(a) and is_const(b):
                x, y = a[1], b[1]
                return {"==": x == y, "!=": x != y, "<": x < y, ">": x > y, "<=": x <= y, ">=": x >= y}[op]
        if isinstance(a, int) and not isinstance(b, int) and not _is_intterm(b):
            a = C(a)
        if isinstance(b, int) and not isinstance(a, int) and not _is_intterm(a):
            b = C(b)
        return ("cmp", op, a, b)

    def class_operator(self, op, tname):
        cache = self.__dict__.setdefault("_class_ops", {})
        if (op, tname) not in cache:
            hit = None
            for f in self.F.fns.values():
                if f.get("op") != op or "body" not in f:
                    continue
                pts = [strip_cvref(t) for t in self.F.param_types(f)]
                if f["kind"] == "function" and pts == [tname, tname]:
                    hit = f
                    break
                if f["kind"] == "method" and pts == [tname] and self.F.T(f.get("parent", -1)) == tname:
                    hit = f
                    break
            cache[(op, tname)] = hit
        return cache[(op, tname)]

    def enum_value(self, en):
        for ec in self.F.enums[en[1]]["enumerators"]:
            if ec["n"] == en[2]:
                return int(ec["val"])
        raise Inconclusive("unknown enumerator %r" % (en,))

    def iter_compare(self, op, a, b):
        if op not in ("==", "!="):
            raise Inconclusive("iterator ordering")
        if a[0] == "end" and b[0] == "end":
            r = True
        else:
            it = a if a[0] == "iter" else b
            found = self.table_has(it[1], it[2])
            r = b_not(found)  # iterator == end  <=> not found
        return r if op == "==" else b_not(r)

    def e_bin(self, e, frame):
        op = e["op"]
        if op == "=":
            l = self.eval(e["l"], frame)
            r = self.rv(self.eval(e["r"], frame))
            if not isinstance(l, LV):
                raise Inconclusive("assignment to non-lvalue")
            self.save(l, r)
            return l
        if op == ",":
            self.eval(e["l"], frame)
            return self.eval(e["r"], frame)
        if op == "&&":
            l = self.rv(self.eval(e["l"], frame))
            if l is False:
                return False
            return b_and(l, self.rv(self.eval(e["r"], frame)))
        if op == "||":
            l = self.rv(self.eval(e["l"], frame))
            if l is True:
                return True
            return b_or(l, self.rv(self.eval(e["r"], frame)))
        l = self.rv(self.eval(e["l"], frame))
        r = self.rv(self.eval(e["r"], frame))
        if op in ("==", "!=", "<", ">", "<=", ">="):
            return self.compare(op, l, r)
        res = self.arith(op, l, r, self.F.T(e["t"]))
        rec = self.__dict__.get("record_int_ops")
        if rec is not None and op in ("+", "-", "*"):
            rec.setdefault(id(e), []).append(res)
        return res

    def e_cassign(self, e, frame):
        l = self.eval(e["l"], frame)
        if not isinstance(l, LV):
            raise Inconclusive("compound assignment to non-lvalue")
        r = self.rv(self.eval(e["r"], frame))
        cur = self.load(l)
        op = e["op"][:-1]
        ct = strip_cvref(self.F.T(e["ct"]))
        lt = strip_cvref(self.F.T(e["t"]))
        if ct != lt and is_float_type(ct) and is_float_type(lt):
            cur = ("cast", ct, cur)
            v = ("cast", lt, self.arith(op, cur, r, ct))
        else:
            v = self.arith(op, cur, r, lt)
        self.save(l, v)
        return l

    def e_un(self, e, frame):
        op = e["op"]
        x = self.eval(e["e"], frame)
        if op == "*":
            p = self.rv(x)
            return self.ptr_deref(p)
        if op == "&":
            if isinstance(x, LV):
                return ("ptr", x.loc, x.path)
            if isinstance(x, tuple) and x and x[0] == "fnref":
                return x
            raise Inconclusive("address of rvalue")
        if op in ("++", "--"):
            if not isinstance(x, LV):
                raise Inconclusive("increment of non-lvalue")
            cur = self.load(x)
            d = 1 if op == "++" else -1
            if isinstance(cur, tuple) and cur and cur[0] == "ptr":
                new = self.ptr_add(cur, d)
            else:
                new = self.arith("+", cur, d, self.F.T(e["t"]))
            self.save(x, new)
            return cur if e.get("postfix") else x
        v = self.rv(x)
        if op == "-":
            if isinstance(v, int) and not isinstance(v, bool):
                return -v
            if is_const(v) and v[1] != 0:
                return ("c", -v[1])
            return ("neg", v)  # -0.0 keeps its sign
        if op == "+":
            return v
        if op == "!":
            return b_not(v if not isinstance(v, int) or isinstance(v, bool) else v != 0)
        if op == "~" and isinstance(v, int):
            return ~v
        raise Inconclusive("unary operator " + op)

    def ptr_add(self, p, n):
        if is_const(n):
            n = int(n[1])
        if not isinstance(n, int):
            raise Inconclusive("symbolic pointer arithmetic")
        if p[0] == "ptr1":
            return ("ptr1", p[1], p[2], p[3] + n)
        if p[0] != "ptr" or not p[2] or not isinstance(p[2][-1], int):
            # pointer to a scalar object: treat as element 0 of a one-element sequence
            if p[0] == "ptr":
                return ("ptr1", p[1], p[2], n)
            raise Inconclusive("pointer arithmetic on " + repr(p))
        return ("ptr", p[1], p[2][:-1] + (p[2][-1] + n,))

    def ptr_deref(self, p):
        if isinstance(p, tuple) and p and p[0] == "ptr":
            return LV(p[1], p[2])
        if isinstance(p, tuple) and p and p[0] == "ptr1":
            if p[3] != 0:
                raise Inconclusive("out-of-bounds dereference of pointer to scalar (+%d)" % p[3])
            return LV(p[1], p[2])
        raise Inconclusive("dereference of " + repr(p)[:80])

    def e_cond(self, e, frame):
        c = self.rv(self.eval(e["c"], frame))
        if c is True:
            return self.eval(e["a"], frame)
        if c is False:
            return self.eval(e["b"], frame)
        snap = dict(self.store)
        a = self.rv(self.eval(e["a"], frame))
        st1 = self.store
        self.store = dict(snap)
        b = self.rv(self.eval(e["b"], frame))
        st2 = self.store
        merged = {}
        for loc in set(st1) | set(st2):
            if loc in st1 and loc in st2:
                x, y = st1[loc], st2[loc]
                merged[loc] = x if x is y else gamma(c, x, y)
            else:
                merged[loc] = st1.get(loc, st2.get(loc))
        self.store = merged
        return gamma(c, a, b)

    def e_ilist(self, e, frame):
        t = strip_cvref(self.F.T(e["t"]))
        items = [self.rv(self.eval(x, frame)) for x in e["e"]]
        m = re.match(r"(.+)\[(\d+)\]$", t)
        if m:
            n = int(m.group(2))
            if len(items) < n:
                if e.get("filler") is not None:
                    fv = self.rv(self.eval(e["filler"], frame))
                else:
                    fv = ZERO if is_float_type(m.group(1)) else 0
                items = items + [fv] * (n - len(items))
            return Arr(items)
        if t.startswith("std::array<"):
            if len(items) == 1 and isinstance(items[0], Obj) and items[0].type == t:
                return items[0]
            if len(items) == 1 and isinstance(items[0], Arr):
                return Obj(t, {"_M_elems": items[0]})
            if len(items) == 0:
                mm = re.match(r"std::array<(.+), (\d+)>$", t)
                z = ZERO if is_float_type(mm.group(1)) else 0
                return Obj(t, {"_M_elems": Arr([z] * int(mm.group(2)))})
            raise Inconclusive("std::array initialiser shape")
        if t in self.F.records:
            if len(items) == 1 and isinstance(items[0], Obj) and items[0].type == t:
                return items[0]   # T{prvalue of T}: guaranteed elision
            r = self.F.records[t]
            if not r["bases"] and len(items) <= len(r["fields"]) and not any(f["kind"] == "ctor" and not f.get("implicit") and not f.get("defaulted") for f in self.F.methods(t)):
                # aggregate initialisation of a plain struct: members in declaration order, the rest from their default
                # member initialisers or value-initialised
                base = self.default_init(t)
                fields = dict(base.f) if isinstance(base, Obj) else {}
                for fd, v in zip(r["fields"], items):
                    fields[fd["n"]] = v
                for fd in r["fields"][len(items):]:
                    if fd.get("init") is None:
                        ft = strip_cvref(self.F.T(fd["t"]))
                        fields[fd["n"]] = self.zero_value(ft) if hasattr(self, "zero_value") else fields[fd["n"]]
                return Obj(t, fields)
            raise Inconclusive("aggregate-style initialisation of class " + t)
        if len(items) == 1:
            return items[0]
        if is_float_type(t) and not items:
            return ZERO
        if not items and re.match(r"std::(integer_sequence|index_sequence|integral_constant|true_type|false_type|in_place_t|nullopt_t|monostate|tuple<>)\b", t):
            return Obj(t, {})     # an empty tag object (its information is in its type; the pack it expands is already expanded)
        raise Inconclusive("initialiser list for " + t)

    def e_stdil(self, e, frame):
        return self.eval(e["e"], frame)

    def e_binding(self, e, frame):
        if "e" not in e:
            raise Inconclusive("structured binding without a binding expression")
        return self.eval(e["e"], frame)

    def e_lambda(self, e, frame):
        copies = {}
        for c in e.get("caps", []):
            if c.get("by") != "copy" or "k" not in c:
                continue
            try:
                if c["k"] == "local":
                    src = self.e_local({"i": c["i"], "n": c.get("n", "?")}, frame)
                    key = ("local", c["i"])
                else:
                    src = self.e_parm({"i": c["i"], "fn": c.get("fn"), "d": 0}, frame)
                    key = ("parm", c.get("fn"), c["i"])
            except (Inconclusive, IndexError, KeyError):
                continue
            copies[key] = self.new_loc(self.load(src) if isinstance(src, LV) else src, "cap_" + c.get("n", ""))
        return Closure(e.get("f"), frame, copies)

    def e_throw(self, e, frame):
        raise Inconclusive("throw expression")

    def e_unk(self, e, frame):
        raise Inconclusive("unmodelled expression class " + e.get("cls", "?"))

    def e_recovery(self, e, frame):
        raise Inconclusive("ill-formed expression (RecoveryExpr) in " + frame["f"]["name"])

    def e_ctor(self, e, frame):
        callee = self.F.fn(e["f"])
        tname = strip_cvref(self.F.T(e["t"]))
        modelled = self.model_ctor(callee, tname, e, frame)
        if modelled is not _NOMODEL:
            return modelled
        lv = self.new_loc(self.blank(tname), "obj")
        a = self.eval_args(callee, e["a"], frame)
        self._invoke(callee, lv, a)
        return self.load(lv)

    def e_call(self, e, frame):
        if "f" not in e:
            # call through a value (std::function stored in a table, function pointer)
            cal = self.rv(self.eval(e["callee"], frame))
            return self.call_value(cal, e["a"], frame)
        callee = self.F.fn(e["f"])
        this_lv = None
        if "obj" in e:
            o = self.eval(e["obj"], frame)
            if isinstance(o, tuple) and o and o[0] == "ptr" and self._is_pointer_type(e["obj"]):
                o = LV(o[1], o[2])
            if not isinstance(o, LV):
                o = self.new_loc(o, "tmpobj")
            this_lv = o
        if this_lv is not None and callee.get("virtual") and not e.get("qual"):
            callee = self.final_overrider(callee, this_lv)
        a = self.eval_args(callee, e["a"], frame)
        if callee["id"] != frame["f"].get("id"):
            self.trace_calls.append((frame["f"].get("id"), callee["id"]))
        return self._invoke(callee, this_lv, a)

    def final_overrider(self, callee, this_lv):
        """Dynamic dispatch of a virtual call: the final overrider of `callee` in the class of the object `this_lv`
        refers to (objects carry their most-derived class).  Falls back to the static callee."""
        try:
            obj = self.load(this_lv)
        except Inconclusive:
            return callee
        dyn = getattr(obj, "type", None)
        if not isinstance(obj, Obj) or dyn is None or dyn == self.F.T(callee.get("parent", -1)) or dyn not in self.F.records:
            return callee

        def overrides_closure(f, seen=None):
            seen = seen if seen is not None else set()
            for o in f.get("overrides", []):
                if o not in seen:
                    seen.add(o)
                    g = self.F.fns.get(o) if isinstance(self.F.fns, dict) else None
                    if g is not None:
                        overrides_closure(g, seen)
            return seen

        def search(cls):
            r = self.F.records.get(cls)
            if r is None:
                return None
            for f in self.F.methods(cls, callee["sname"]):
                if f["id"] == callee["id"] or callee["id"] in overrides_closure(f):
                    return f
            for b in r["bases"]:
                g = search(self.F.T(b["t"]))
                if g is not None:
                    return g
            return None
        return search(dyn) or callee

    def _is_pointer_type(self, e):
        t = self.F.T(e.get("t", -1))
        return t is not None and strip_cvref(t).endswith("*")

    def call_value(self, cal, arg_exprs, frame):
        if isinstance(cal, tuple) and cal and cal[0] == "fnref":
            callee = self.F.fn(cal[1])
            a = self.eval_args(callee, arg_exprs, frame)
            return self._invoke(callee, None, a)
        if isinstance(cal, tuple) and cal and cal[0] == "g":
            raise Inconclusive("call through a symbolic choice of functions")
        raise Inconclusive("indirect call through " + repr(cal)[:80])

    # ------------------------------------------------------------------ tables
    def table_entries(self, var_id):
        """[(key, value)] of a std::map / unordered_map initialiser (keys/values evaluated)."""
        cache = self.__dict__.setdefault("_tables", {})
        if var_id in cache:
            return cache[var_id]
        v = self.F.vars[var_id]
        init = v.get("init")
        if init is None:
            raise Inconclusive("table %s has no initialiser" % v["name"])
        pairs = []
        fr = {"f": {"name": v["name"]}, "params": [], "locals": {}, "this": None}

        def walk(n):
            if isinstance(n, dict):
                if n.get("k") == "ctor" and "pair<" in self.F.T(n["t"]) and len(n.get("a", [])) == 2:
                    key = self.rv(self.eval(n["a"][0], fr))
                    val = self.rv(self.eval(n["a"][1], fr))
                    pairs.append((key, val))
                    return
                for x in n.values():
                    walk(x)
            elif isinstance(n, list):
                for x in n:
                    walk(x)
        walk(init)
        cache[var_id] = pairs
        return pairs

    def table_has(self, var_id, key):
        if isinstance(key, tuple) and key and key[0] == "enum":
            return any(k == key for k, _ in self.table_entries(var_id))
        if isinstance(key, Str) and len(key.parts) == 1 and isinstance(key.parts[0], str):
            return any(k == key for k, _ in self.table_entries(var_id))
        return ("b", "found", var_id, key)

    def table_get(self, var_id, key):
        if (isinstance(key, tuple) and key and key[0] == "enum") or (isinstance(key, Str) and len(key.parts) <= 1 and all(isinstance(p, str) for p in key.parts)):
            hits = [v for k, v in self.table_entries(var_id) if k == key]
            if not hits:
                raise Inconclusive("lookup of %r misses table %s" % (key, self.F.vars[var_id]["name"]))
            return hits[0]  # std::map/unordered_map keep the first of duplicate keys
        return ("fn", "lookup", ("table", var_id), key)

    # ------------------------------------------------------------------ library models
    def model_ctor(self, callee, tname, e, frame):
        """Models for constructors of non-PhQ types. Returns _NOMODEL to run the real constructor."""
        if tname in self.F.records and not callee.get("extern"):
            return _NOMODEL
        args = e["a"]
        if tname.startswith("std::array<"):
            if not args:
                return self.blank(tname)
            v = self.rv(self.eval(args[0], frame))
            return v
        if tname.startswith("std::optional<"):
            if not args:
                return ("opt", False, None)
            v = self.rv(self.eval(args[0], frame))
            if v == ("nullopt",):
                return ("opt", False, None)
            if isinstance(v, tuple) and v and v[0] == "opt":
                return v
            return ("opt", True, v)
        if tname.startswith("std::basic_string<") or tname.startswith("std::basic_string_view<"):
            if not args:
                return Str([])
            v = self.rv(self.eval(args[0], frame))
            if isinstance(v, Str):
                return v
            if isinstance(v, tuple) and v and v[0] == "cptr":
                # rebuilt from a C string: runs to the first NUL byte, not to the end of the original view
                return Str([("cstr_of", v[1])])
            if isinstance(v, tuple) and v and v[0] == "ptr":
                # text read back from a character buffer (filled by snprintf, ...): its content is outside the string
                # model; an opaque chunk, which every rule that looks at the text refuses to reason about
                return Str([("opaque", "characters of a buffer")])
            if isinstance(v, tuple) and v and v[0] in ("fn", "g"):
                return Str([("sv", v)])
            raise Inconclusive("string constructor from " + repr(v)[:60])
        if tname == "std::nullopt_t":
            return ("nullopt",)
        if tname.startswith("std::tuple<"):
            vs = [self.rv(self.eval(a, frame)) for a in args]
            if len(vs) == 1 and isinstance(vs[0], tuple) and vs[0] and vs[0][0] == "tuple":
                return vs[0]                      # copy / move
            return ("tuple", tuple(vs))
        if tname.startswith("std::pair<"):
            vs = [self.rv(self.eval(a, frame)) for a in args]
            if len(vs) == 2:
                return Obj(tname, {"first": vs[0], "second": vs[1]})
        if tname.startswith("std::vector<"):
            if len(args) >= 1:
                v = self.rv(self.eval(args[0], frame))
                if isinstance(v, Obj) and "_M_elems" in v.f:
                    return Obj(tname, {"_M_elems": v.f["_M_elems"]})
            raise Inconclusive("std::vector constructor form")
        if tname.startswith("std::basic_ostringstream<") or tname.startswith("std::basic_stringstream<"):
            return Obj("std::ostream", {"out": Arr([])})
        if tname.startswith("std::function<"):
            if args:
                return self.rv(self.eval(args[0], frame))
        if tname.startswith("std::_Rb_tree_const_iterator<") or tname.startswith("std::__detail::_Node_const_iterator<") or \
                tname.startswith("std::_Rb_tree_iterator<") or tname.startswith("std::__detail::_Node_iterator<"):
            if args:
                return self.rv(self.eval(args[0], frame))
        if tname.startswith("std::initializer_list<"):
            # a view of the backing array: copying it copies the view (the elements are never modified through it)
            return self.rv(self.eval(args[0], frame)) if args else Arr([])
        if tname.startswith("std::hash<"):
            return Obj(tname, {})
        if re.match(r"std::(less|greater|less_equal|greater_equal|equal_to|not_equal_to)<", tname):
            return Obj(tname, {})      # comparison function objects: stateless
        if callee.get("extern") or tname not in self.F.records:
            raise Inconclusive("constructor of external type " + tname)
        return _NOMODEL

    MATH = {"sqrt", "cbrt", "exp", "log", "log2", "log10", "pow", "acos", "asin", "atan", "atan2", "cos", "sin", "tan",
            "abs", "fabs", "sqrtf", "sqrtl", "fmin", "fmax", "hypot", "floor", "ceil", "copysign", "trunc", "round",
            "exp2", "expm1", "log1p", "sinh", "cosh", "tanh", "asinh", "acosh", "atanh", "erf", "erfc", "tgamma", "lgamma"}

    def model_extern(self, f, this_lv, args):
        name = f["name"]
        sn = f["sname"]
        base = re.sub(r"<.*", "", name)

        def val(i):
            a = args[i]
            return self.load(a) if isinstance(a, LV) else a
        # ---- <cmath>
        if (base.startswith("std::") or "::" not in base) and sn in self.MATH and this_lv is None:
            vs = [val(i) for i in range(len(args))]
            vs = [C(v) if isinstance(v, int) else v for v in vs]
            n = {"fabs": "abs", "sqrtf": "sqrt", "sqrtl": "sqrt"}.get(sn, sn)
            return ("fn", n) + tuple(vs)
        if sn in ("min", "max", "clamp") and base.startswith("std::"):
            vs = [val(i) for i in range(len(args))]
            return ("fn", sn) + tuple(vs)
        if sn == "distance" and base.startswith("std::") and len(args) == 2:
            def dist(a, b):
                if isinstance(b, tuple) and b and b[0] == "g":
                    return gamma(b[1], dist(a, b[2]), dist(a, b[3]))
                if isinstance(a, tuple) and a and a[0] == "g":
                    return gamma(a[1], dist(a[2], b), dist(a[3], b))
                if isinstance(a, tuple) and isinstance(b, tuple) and a and b and a[0] == "ptr" and b[0] == "ptr" and a[1] == b[1] \
                        and a[2][:-1] == b[2][:-1] and isinstance(a[2][-1], int) and isinstance(b[2][-1], int):
                    return b[2][-1] - a[2][-1]
                raise Inconclusive("std::distance of unrelated positions")
            return dist(val(0), val(1))
        mfo = re.match(r"std::(less|greater|less_equal|greater_equal|equal_to|not_equal_to)<.*>::operator\(\)$", name)
        if mfo and len(args) == 2:
            return self.compare({"less": "<", "greater": ">", "less_equal": "<=", "greater_equal": ">=", "equal_to": "==", "not_equal_to": "!="}[mfo.group(1)], val(0), val(1))
        # ---- relational operators of std::array ([array.syn] -> [tab:container.opt]: == is std::equal, < is
        #      std::lexicographical_compare with operator< on the elements; > <= >= are defined from <)
        m = re.match(r"std::operator(==|!=|<=|>=|<|>)$", f.get("qname", ""))
        if m and len(args) == 2 and this_lv is None:
            a, b = val(0), val(1)
            xs = ys = None
            if isinstance(a, Obj) and isinstance(b, Obj) and a.type.startswith("std::array<") and a.type == b.type:
                xs, ys = a.f["_M_elems"].items, b.f["_M_elems"].items
            elif isinstance(a, tuple) and isinstance(b, tuple) and a and b and a[0] == "tuple" and b[0] == "tuple" and len(a[1]) == len(b[1]):
                xs, ys = a[1], b[1]          # std::tuple: the same element-wise == and lexicographic < ([tuple.rel])
            if xs is not None:
                def eq():
                    r = True
                    for x, y in zip(xs, ys):
                        r = b_and(r, self.compare("==", x, y))
                    return r

                def lt(xs, ys):
                    r = False
                    for x, y in reversed(list(zip(xs, ys))):
                        r = gamma(self.compare("<", x, y), True, gamma(self.compare("<", y, x), False, r))
                    return r
                op = m.group(1)
                return {"==": eq, "!=": lambda: b_not(eq()), "<": lambda: lt(xs, ys), ">": lambda: lt(ys, xs),
                        "<=": lambda: b_not(lt(ys, xs)), ">=": lambda: b_not(lt(xs, ys))}[op]()
        # ---- <algorithm>/<numeric> over ranges of a (std::)array given by two pointers/iterators into it
        if base in self.RANGE_ALGOS and this_lv is None and args:
            r = self.range_algorithm(sn, [a if isinstance(a, LV) else a for a in args], val)
            if r is not _NOMODEL:
                return r
        if base in ("std::begin", "std::cbegin", "std::end", "std::cend", "std::size", "std::data") and len(args) == 1 and isinstance(args[0], LV):
            v0 = val(0)
            if isinstance(v0, Obj) and v0.type.startswith("std::array<"):
                n = len(v0.f["_M_elems"].items)
                if sn == "size":
                    return n
                return ("ptr", args[0].loc, args[0].path + ("_M_elems", n if sn in ("end", "cend") else 0))
        # ---- tuples (only what comparisons through std::tie / std::make_tuple need) and std::make_optional
        if base in ("std::make_tuple", "std::tie", "std::forward_as_tuple") and this_lv is None:
            return ("tuple", tuple(val(i) for i in range(len(args))))
        if base == "std::make_optional" and len(args) == 1 and this_lv is None:
            return ("opt", True, val(0))
        m = re.match(r"std::get<(\d+)U?L?[,>]", name)
        if m and len(args) == 1 and this_lv is None and isinstance(val(0), tuple) and val(0) and val(0)[0] == "tuple":
            return val(0)[1][int(m.group(1))]
        # ---- std::get<I>(std::pair) (also what structured bindings of a map entry use)
        m = re.match(r"std::get<(\d+)U?L?[,>]", name)
        if m and len(args) == 1 and this_lv is None and int(m.group(1)) in (0, 1):
            v0 = val(0)
            if isinstance(v0, Obj) and "first" in v0.f and "second" in v0.f:
                fld = ("first", "second")[int(m.group(1))]
                if isinstance(args[0], LV):
                    return LV(args[0].loc, args[0].path + (fld,))
                return v0.f[fld]
        # ---- std::get<I>(std::array)
        m = re.match(r"std::get<(\d+)U?L?,", name)
        if m and len(args) == 1 and this_lv is None:
            a0 = args[0]
            v0 = val(0)
            if isinstance(v0, Obj) and v0.type.startswith("std::array<"):
                idx = int(m.group(1))
                if isinstance(a0, LV):
                    return LV(a0.loc, a0.path + ("_M_elems", idx))
                return self._child(v0.f["_M_elems"], idx)
        # ---- std::array
        ptype = self.F.T(f["parent"]) if "parent" in f else ""
        if ptype.startswith("std::array<"):
            if sn == "operator[]" or sn == "at":
                return LV(this_lv.loc, this_lv.path + ("_M_elems", val(0)))
            if sn == "data" or sn == "begin" or sn == "cbegin":
                return ("ptr", this_lv.loc, this_lv.path + ("_M_elems", 0))
            if sn in ("end", "cend"):
                n = len(self.load(this_lv).f["_M_elems"].items)
                return ("ptr", this_lv.loc, this_lv.path + ("_M_elems", n))
            if sn == "size":
                return len(self.load(this_lv).f["_M_elems"].items)
            if sn == "operator=":
                self.save(this_lv, val(0))
                return this_lv
            if sn == "front":
                return LV(this_lv.loc, this_lv.path + ("_M_elems", 0))
        if ptype.startswith("std::vector<"):
            if sn == "operator[]":
                return LV(this_lv.loc, this_lv.path + ("_M_elems", val(0)))
            if sn == "data":
                return ("ptr", this_lv.loc, this_lv.path + ("_M_elems", 0))
            if sn == "size":
                return len(self.load(this_lv).f["_M_elems"].items)
        # ---- maps
        if ptype.startswith("std::map<") or ptype.startswith("std::unordered_map<"):
            tv = self.load(this_lv)
            if not (isinstance(tv, tuple) and tv[0] == "table"):
                raise Inconclusive("map operation on a non-table")
            self.gvar_reads.add(tv[1])       # the table object itself is accessed (not merely referred to)
            if sn == "find":
                return ("iter", tv[1], val(0))
            if sn in ("end", "cend"):
                return ("end", tv[1])
            if sn == "at":
                return self.table_get(tv[1], val(0))
            if sn == "count":
                h = self.table_has(tv[1], val(0))
                return int(h) if isinstance(h, bool) else ("fn", "count", h)
        if ("_Rb_tree_const_iterator" in ptype or "_Node_const_iterator" in ptype or "_Node_iterator" in ptype or "_Rb_tree_iterator" in ptype):
            it = self.load(this_lv)
            if sn in ("operator->", "operator*") and isinstance(it, tuple) and it[0] == "iter":
                v = self.table_get(it[1], it[2])
                return self.new_loc(Obj("pair", {"first": it[2], "second": v}), "entry") if sn == "operator*" else \
                    ("ptr",) + self._as_loc(Obj("pair", {"first": it[2], "second": v}))
        if sn in ("operator==", "operator!=") and len(args) == 2:
            a, b = val(0), val(1)
            if isinstance(a, tuple) and a and a[0] in ("iter", "end"):
                return self.iter_compare(sn[-2:], a, b)
        # ---- std::function
        if ptype.startswith("std::function<") and sn == "operator()":
            target = self.load(this_lv)
            if isinstance(target, tuple) and target and target[0] == "fnref":
                return self._invoke(self.F.fn(target[1]), None, list(args))
            raise Inconclusive("call of a std::function with unknown target")
        # ---- optional
        if ptype.startswith("std::optional<") and sn == "operator=":
            v = val(0)
            if v == ("nullopt",):
                v = ("opt", False, None)
            elif not (isinstance(v, tuple) and v and v[0] == "opt"):
                v = ("opt", True, v)
            self.save(this_lv, v)
            return this_lv
        if ptype.startswith("std::optional<") and sn in ("reset",):
            self.save(this_lv, ("opt", False, None))
            return None
        if ptype.startswith("std::optional<"):
            o = self.load(this_lv)
            if sn in ("has_value", "operator bool"):
                return o[1]
            if sn in ("value", "operator*", "operator->"):
                return o[2]
        # ---- strings
        if ptype.startswith("std::basic_string<") or ptype.startswith("std::basic_string_view<"):
            s = self.load(this_lv)
            if sn == "append" or sn == "operator+=":
                v = val(0)
                if isinstance(v, int) and not isinstance(v, bool) and len(args) == 1 and isinstance(s, Str):
                    v = Str([chr(v)])      # a single character
                if isinstance(v, Str) and isinstance(s, Str) and len(args) == 1:
                    self.save(this_lv, Str(s.parts + v.parts))
                    return this_lv
                if len(args) == 1:
                    # a receiver or operand the string domain cannot read: the text gains an opaque chunk (never dropped)
                    s_ = s if isinstance(s, Str) else Str([("opaque", _freeze(s))])
                    v_ = v if isinstance(v, Str) else Str([("opaque", _freeze(v))])
                    self.save(this_lv, Str(s_.parts + v_.parts))
                    return this_lv
            if sn == "push_back" and isinstance(s, Str) and isinstance(val(0), int):
                self.save(this_lv, Str(s.parts + (chr(val(0)),)))
                return None
            if sn == "operator basic_string_view":
                return s
            if sn in ("c_str", "data"):
                if isinstance(s, Str) and all(isinstance(p, str) for p in s.parts):
                    return s
                return ("cptr", s)   # a pointer to the characters: the length of the view is not carried along
            if sn == "empty" and isinstance(s, Str):
                if not s.parts:
                    return True
                if any((isinstance(p, str) and p) or (isinstance(p, tuple) and p[0] in ("nonempty", "int", "num")) for p in s.parts):
                    return False
                return ("b", "empty", s)
            if sn in ("begin", "end", "size", "length", "empty"):
                return ("fn", "str." + sn, s)
            if sn == "operator=":
                self.save(this_lv, val(0))
                return this_lv
            if f["kind"] == "method" and not f.get("const") and not f.get("static") and ptype.startswith("std::basic_string<"):
                # a mutation of a string that is not modelled must not be silently dropped
                raise Inconclusive("unmodelled mutating std::string member %s(%s)" % (sn, ", ".join(type(val(i)).__name__ for i in range(len(args)))))
        if sn == "operator+" and base == "std::operator+":
            a, b = val(0), val(1)
            if isinstance(a, int) and not isinstance(a, bool):
                a = Str([chr(a)])
            if isinstance(b, int) and not isinstance(b, bool):
                b = Str([chr(b)])
            if isinstance(a, Str) and isinstance(b, Str):
                return Str(a.parts + b.parts)
        # ---- streams
        if sn == "operator<<":
            if this_lv is not None:
                st, v = this_lv, val(0)
            else:
                st, v = args[0], val(1)
            if isinstance(st, LV):
                cur = self.load(st)
                if isinstance(cur, Obj) and cur.type == "std::ostream":
                    self.save(st, Obj("std::ostream", {"out": Arr(cur.f["out"].items + (v,))}))
                    return st
                if isinstance(cur, Str) or (isinstance(cur, tuple) and cur and cur[0] == "strsym"):
                    pass
            raise Inconclusive("stream insertion into " + repr(st)[:60])
        if base in ("std::setprecision",):
            return ("manip", "setprecision", val(0))
        if name in ("std::fixed", "std::scientific"):
            return ("manip", sn)
        if ptype.startswith("std::basic_ostringstream<") and sn == "str":
            cur = self.load(this_lv)
            return Str([("stream", cur.f["out"].items)])
        # ---- numeric_limits: exact constants of the IEEE formats (x87 extended for long double)
        m = re.match(r"std::numeric_limits<(float|double|long double)>$", ptype)
        if m and not args:
            p_, emax = {"float": (24, 128), "double": (53, 1024), "long double": (64, 16384)}[m.group(1)]
            two = Fraction(2)
            table = {"epsilon": two ** (1 - p_), "min": two ** (2 - emax), "denorm_min": two ** (3 - emax - p_),
                     "max": (2 - two ** (1 - p_)) * two ** (emax - 1), "lowest": -(2 - two ** (1 - p_)) * two ** (emax - 1),
                     "round_error": Fraction(1, 2)}
            if sn in table:
                return C(table[sn])
            if sn in ("infinity", "quiet_NaN", "signaling_NaN"):
                return ("fn", "numeric_limits::" + sn)
        # ---- hash
        if ptype.startswith("std::hash<") and sn == "operator()":
            return ("fn", "hash<%s>" % ptype[len("std::hash<"):-1], val(0))
        if sn == "to_string" and base == "std::to_string":
            return Str([("int", val(0))])
        if sn in ("stof", "stod", "stold"):
            return ("fn", sn, val(0))
        if base in ("std::move", "std::forward"):
            return args[0]
        if sn == "transform" and base == "std::transform":
            return ("fn", "transform") + tuple(self.rv(a) for a in args)
        if sn in ("tolower", "toupper"):
            return ("fn", sn, val(0))
        # ---- anything else: uninterpreted
        self.unknown_calls.append(name)
        return ("fn", "?" + name) + tuple(_freeze(self.rv(a)) for a in args)

    RANGE_ALGOS = {"std::find_if", "std::find_if_not", "std::transform", "std::equal", "std::all_of", "std::any_of", "std::none_of", "std::accumulate", "std::copy",
                   "std::fill", "std::for_each", "std::inner_product", "std::copy_n", "std::fill_n"}

    def _range(self, first, last):
        """Element lvalues of [first, last) when both point into the same array at concrete positions, else None."""
        if not (isinstance(first, tuple) and isinstance(last, tuple) and first and last and first[0] == "ptr" and last[0] == "ptr"):
            return None
        if first[1] != last[1] or first[2][:-1] != last[2][:-1]:
            return None
        i, j = first[2][-1], last[2][-1]
        if not (isinstance(i, int) and isinstance(j, int) and 0 <= i <= j):
            return None
        arr = self.load(LV(first[1], first[2][:-1]))
        if not isinstance(arr, Arr) or j > len(arr.items):
            raise Inconclusive("bad array range [%d, %d) (size %s)" % (i, j, len(arr.items) if isinstance(arr, Arr) else "?"))
        return [LV(first[1], first[2][:-1] + (k,)) for k in range(i, j)]

    def _from(self, first, n):
        """n element lvalues starting at pointer `first`."""
        if not (isinstance(first, tuple) and first and first[0] == "ptr" and isinstance(first[2][-1], int)):
            return None
        i = first[2][-1]
        arr = self.load(LV(first[1], first[2][:-1]))
        if not isinstance(arr, Arr) or i + n > len(arr.items):
            raise Inconclusive("bad array range [%d, %d) (size %s)" % (i, i + n, len(arr.items) if isinstance(arr, Arr) else "?"))
        return [LV(first[1], first[2][:-1] + (k,)) for k in range(i, i + n)]

    def apply_callable(self, fnv, arg_lvs):
        """Call a lambda / function reference on element lvalues (passed by reference or by value as its parameters say)."""
        if isinstance(fnv, LV):
            fnv = self.load(fnv)
        if isinstance(fnv, Closure):
            callee, this_lv = self.F.fn(fnv.fid), self.new_loc(fnv, "closure")
        elif isinstance(fnv, tuple) and fnv and fnv[0] == "fnref":
            callee, this_lv = self.F.fn(fnv[1]), None
        else:
            raise Inconclusive("call of a function object the evaluator cannot see into: %r" % (fnv,))
        a = []
        for p, x in zip(callee["params"], arg_lvs):
            if is_ref(self.F.T(p["t"])):
                a.append(x if isinstance(x, LV) else self.new_loc(x, "tmp"))
            else:
                a.append(self.rv(x))
        return self.rv(self._invoke(callee, this_lv, a))

    def range_algorithm(self, sn, args, val):
        vals = [val(i) for i in range(len(args))]
        rng = self._range(vals[0], vals[1]) if len(vals) >= 2 else None
        if sn in ("copy_n", "fill_n"):
            n = vals[1]
            if not isinstance(n, int):
                return _NOMODEL
            if sn == "fill_n":
                dst = self._from(vals[0], n)
                if dst is None:
                    return _NOMODEL
                for d in dst:
                    self.save(d, vals[2])
                return ("ptr", vals[0][1], vals[0][2][:-1] + (vals[0][2][-1] + n,))
            src, dst = self._from(vals[0], n), self._from(vals[2], n)
            if src is None or dst is None:
                return _NOMODEL
            for x, d in zip([self.load(x) for x in src], dst):
                self.save(d, x)
            return ("ptr", vals[2][1], vals[2][2][:-1] + (vals[2][2][-1] + n,))
        if rng is None:
            return _NOMODEL
        n = len(rng)
        if sn in ("find_if", "find_if_not") and len(args) == 3:
            # the first position whose element satisfies the predicate, else last: a conditional choice among concrete positions
            res = vals[1]
            for x in reversed(rng):
                c = self.apply_callable(args[2], [x])
                c = b_not(c) if sn == "find_if_not" else c
                res = gamma(c, ("ptr", x.loc, x.path), res)
            return res
        if sn == "transform" and len(args) == 4:
            dst = self._from(vals[2], n)
            if dst is None:
                return _NOMODEL
            for x, d in zip(rng, dst):
                self.save(d, self.apply_callable(args[3], [x]))
            return ("ptr", vals[2][1], vals[2][2][:-1] + (vals[2][2][-1] + n,))
        if sn == "transform" and len(args) == 5:
            src2, dst = self._from(vals[2], n), self._from(vals[3], n)
            if src2 is None or dst is None:
                return _NOMODEL
            for x, y, d in zip(rng, src2, dst):
                self.save(d, self.apply_callable(args[4], [x, y]))
            return ("ptr", vals[3][1], vals[3][2][:-1] + (vals[3][2][-1] + n,))
        if sn == "equal" and len(args) in (3, 4):
            src2 = self._from(vals[2], n)
            if src2 is None:
                return _NOMODEL
            r = True
            for x, y in zip(rng, src2):
                c = self.apply_callable(args[3], [x, y]) if len(args) == 4 else self.compare("==", self.load(x), self.load(y))
                r = b_and(r, c)
            return r
        if sn in ("all_of", "any_of", "none_of") and len(args) == 3:
            r = True if sn != "any_of" else False
            for x in rng:
                c = self.apply_callable(args[2], [x])
                r = b_and(r, c) if sn == "all_of" else (b_or(r, c) if sn == "any_of" else b_and(r, b_not(c)))
            return r
        def into_acc(acc0, v):
            # the accumulator has the type of the *initial value*: with an integer literal as the initial value every
            # partial result is converted back to that integer type (truncated) before the next step
            if isinstance(acc0, int) and not isinstance(acc0, bool) and not (isinstance(v, int) and not isinstance(v, bool)) \
                    and not _is_intterm(v) and not _int_choice(v):
                return ("fn", "trunc", v)
            return v
        if sn == "accumulate" and len(args) in (3, 4):
            acc = acc0 = vals[2]
            for x in rng:
                acc = into_acc(acc0, self.apply_callable(args[3], [acc, x]) if len(args) == 4 else self.arith("+", acc, self.load(x)))
            return acc
        if sn == "inner_product" and len(args) == 4:
            src2 = self._from(vals[2], n)
            if src2 is None:
                return _NOMODEL
            acc = acc0 = vals[3]
            for x, y in zip(rng, src2):
                acc = into_acc(acc0, self.arith("+", acc, self.arith("*", self.load(x), self.load(y))))
            return acc
        if sn == "copy" and len(args) == 3:
            dst = self._from(vals[2], n)
            if dst is None:
                return _NOMODEL
            for x, d in zip([self.load(x) for x in rng], dst):
                self.save(d, x)
            return ("ptr", vals[2][1], vals[2][2][:-1] + (vals[2][2][-1] + n,))
        if sn == "fill" and len(args) == 3:
            for d in rng:
                self.save(d, vals[2])
            return None
        if sn == "for_each" and len(args) == 3:
            for x in rng:
                self.apply_callable(args[2], [x])
            return vals[2]
        return _NOMODEL

    def _as_loc(self, v):
        lv = self.new_loc(v, "entry")
        return (lv.loc, lv.path)


_MANT = {"float": 24, "double": 53, "long double": 64}


def _exact_in(q, T):
    if T not in _MANT:
        return False
    if q == 0:
        return True
    d = q.denominator
    if d & (d - 1):
        return False
    n = abs(q.numerator)
    while n % 2 == 0:
        n //= 2
    return n.bit_length() <= _MANT[T]


_RET_CACHE = {}


def _contains_return(tree):
    if tree is None:
        return False
    key = id(tree)
    if key not in _RET_CACHE:
        found = []

        def rec(n):
            if found:
                return
            if isinstance(n, dict):
                if n.get("k") in ("ret", "break", "continue"):
                    found.append(1)
                    return
                if n.get("k") == "lambda":
                    return
                for v in n.values():
                    rec(v)
            elif isinstance(n, list):
                for v in n:
                    rec(v)
        rec(tree)
        _RET_CACHE[key] = bool(found)
    return _RET_CACHE[key]


def _freeze(v):
    return v


def _is_intterm(x):
    return isinstance(x, tuple) and x and (x[0] in ("iop", "isym", "icast") or (x[0] == "fn" and isinstance(x[1], str) and x[1].startswith("hash<")))


class _Sentinel:
    def __init__(self, n):
        self.n = n

    def __repr__(self):
        return self.n

    def __getitem__(self, k):
        if k == "k":
            return "scope_end"
        raise KeyError(k)

    def get(self, k, d=None):
        return "scope_end" if k == "k" else d


_FALL = _Sentinel("FALL")
_NOMODEL = _Sentinel("NOMODEL")
_SCOPE_END = _Sentinel("SCOPE_END")


# ------------------------------------------------------------------------------------------------
# term utilities

def _int_choice(x):
    """A concrete integer, or a conditional whose alternatives are."""
    if isinstance(x, bool):
        return False
    if isinstance(x, int):
        return True
    return isinstance(x, tuple) and len(x) == 4 and x[0] == "g" and _int_choice(x[2]) and _int_choice(x[3])


def assume(t, cond, truth):
    """Simplify a term under the assumption that boolean term `cond` has the given truth value."""
    if isinstance(cond, tuple) and cond and cond[0] == "not":
        return assume(t, cond[1], not truth)
    if isinstance(cond, tuple) and cond and cond[0] == "cmp" and cond[1] == "!=":
        return assume(t, ("cmp", "==") + tuple(cond[2:]), not truth)      # a != b is exactly !(a == b), NaN included
    if t == cond:
        return truth
    if isinstance(t, tuple) and t and t[0] == "cmp" and t[1] == "!=" and ("cmp", "==") + tuple(t[2:]) == cond:
        return not truth
    if isinstance(t, tuple) and t:
        if t[0] == "g":
            c = assume(t[1], cond, truth)
            if c is True:
                return assume(t[2], cond, truth)
            if c is False:
                return assume(t[3], cond, truth)
            return gamma(c, assume(t[2], cond, truth), assume(t[3], cond, truth))
        if t[0] == "not":
            return b_not(assume(t[1], cond, truth))
        if t[0] == "and":
            return b_and(assume(t[1], cond, truth), assume(t[2], cond, truth))
        if t[0] == "or":
            return b_or(assume(t[1], cond, truth), assume(t[2], cond, truth))
        if t[0] in ("c", "leaf", "enum", "pi"):
            return t
        return tuple(assume(x, cond, truth) if isinstance(x, (tuple, Obj, Arr, Str)) else x for x in t)
    if isinstance(t, Obj):
        return Obj(t.type, {k: assume(v, cond, truth) for k, v in t.f.items()})
    if isinstance(t, Arr):
        return Arr([assume(v, cond, truth) for v in t.items])
    if isinstance(t, Str):
        return Str([assume(p, cond, truth) if isinstance(p, (tuple, Obj, Arr, Str)) else p for p in t.parts])
    return t


def leaves(t, acc=None):
    if acc is None:
        acc = set()
    if isinstance(t, tuple):
        if t and t[0] == "leaf":
            acc.add(t[1])
        else:
            for x in t:
                leaves(x, acc)
    elif isinstance(t, Obj):
        for v in t.f.values():
            leaves(v, acc)
    elif isinstance(t, Arr):
        for v in t.items:
            leaves(v, acc)
    elif isinstance(t, Str):
        for p in t.parts:
            leaves(p, acc)
    return acc


def flatten(v, prefix=""):
    """[(path, scalar term)] for the scalar slots of a compound value."""
    out = []
    if isinstance(v, Obj):
        for k, x in v.f.items():
            out += flatten(x, prefix + "." + k if prefix else k)
    elif isinstance(v, Arr):
        for i, x in enumerate(v.items):
            out += flatten(x, "%s[%d]" % (prefix, i))
    else:
        out.append((prefix, v))
    return out


def first_condition(t):
    """The condition of the first conditional found inside term t (depth first), or None."""
    if isinstance(t, tuple) and t:
        if t[0] == "g":
            return t[1]
        for x in t[1:]:
            c = first_condition(x)
            if c is not None:
                return c
    elif isinstance(t, Obj):
        for x in t.f.values():
            c = first_condition(x)
            if c is not None:
                return c
    elif isinstance(t, (Arr, Str)):
        for x in (t.items if isinstance(t, Arr) else t.parts):
            c = first_condition(x)
            if c is not None:
                return c
    return None


def cases(t, limit=64):
    """Case analysis: [(assumptions, conditional-free term)] over the conditions of every conditional inside t, where
    assumptions is a list of (condition, truth).  Raises Inconclusive beyond `limit` cases."""
    out, todo = [], [([], t)]
    while todo:
        asm, x = todo.pop()
        c = first_condition(x)
        if c is None:
            out.append((asm, x))
            continue
        if len(out) + len(todo) > limit:
            raise Inconclusive("more than %d cases in a case analysis" % limit)
        xt, xf = assume(x, c, True), assume(x, c, False)
        if first_condition(xt) == c or first_condition(xf) == c:
            raise Inconclusive("a condition could not be resolved by assuming it: %s" % show(c)[:100])
        todo.append((asm + [(c, True)], xt))
        todo.append((asm + [(c, False)], xf))
    return out


def flatten_paths(v, prefix=()):
    """[(LV path tuple, scalar term)] for the scalar slots of a compound value."""
    out = []
    if isinstance(v, Obj):
        for k, x in v.f.items():
            out += flatten_paths(x, prefix + (k,))
    elif isinstance(v, Arr):
        for i, x in enumerate(v.items):
            out += flatten_paths(x, prefix + (i,))
    else:
        out.append((prefix, v))
    return out


def show(t, depth=0):
    """Readable rendering of a term."""
    if isinstance(t, tuple) and t:
        k = t[0]
        if k == "c":
            q = t[1]
            return str(q.numerator) if q.denominator == 1 else "(%s)" % q
        if k == "pi":
            return "pi"
        if k == "leaf":
            return t[1]
        if k in ("add", "sub", "mul", "div"):
            return "(%s %s %s)" % (show(t[1]), {"add": "+", "sub": "-", "mul": "*", "div": "/"}[k], show(t[2]))
        if k == "neg":
            return "(-%s)" % show(t[1])
        if k == "fn":
            return "%s(%s)" % (t[1], ", ".join(show(x) for x in t[2:]))
        if k == "cast":
            return "(%s)%s" % (t[1], show(t[2]))
        if k == "g":
            return "(%s ? %s : %s)" % (show(t[1]), show(t[2]), show(t[3]))
        if k == "cmp":
            return "(%s %s %s)" % (show(t[2]), t[1], show(t[3]))
        if k == "not":
            return "!%s" % show(t[1])
        if k in ("and", "or"):
            return "(%s %s %s)" % (show(t[1]), "&&" if k == "and" else "||", show(t[2]))
        if k == "enum":
            return "%s::%s" % (t[1], t[2])
        if k == "opt":
            return "opt(%s, %s)" % (show(t[1]), show(t[2]))
        if k == "iop":
            return "(%s %s %s)" % (show(t[2]), t[1], show(t[3]))
        return "%s(%s)" % (k, ", ".join(show(x) for x in t[1:]))
    if isinstance(t, Obj):
        return "%s{%s}" % (t.type.replace("PhQ::", ""), ", ".join("%s=%s" % (k, show(v)) for k, v in t.f.items()))
    if isinstance(t, Arr):
        return "[%s]" % ", ".join(show(x) for x in t.items)
    if isinstance(t, Str):
        return "Str(%s)" % ", ".join(repr(p) if isinstance(p, str) else show(p) for p in t.parts)
    return repr(t)
