// Differential program for property C10: directions, magnitudes, and recomposition of vector
// quantities. Prints every result in hexfloat so that any last-bit change shows up.
#include <PhQ/Acceleration.hpp>
#include <PhQ/Angle.hpp>
#include <PhQ/Direction.hpp>
#include <PhQ/Displacement.hpp>
#include <PhQ/Force.hpp>
#include <PhQ/HeatFlux.hpp>
#include <PhQ/PlanarAcceleration.hpp>
#include <PhQ/PlanarDirection.hpp>
#include <PhQ/PlanarDisplacement.hpp>
#include <PhQ/PlanarForce.hpp>
#include <PhQ/PlanarHeatFlux.hpp>
#include <PhQ/PlanarPosition.hpp>
#include <PhQ/PlanarTemperatureGradient.hpp>
#include <PhQ/PlanarTraction.hpp>
#include <PhQ/PlanarVector.hpp>
#include <PhQ/PlanarVelocity.hpp>
#include <PhQ/Position.hpp>
#include <PhQ/TemperatureGradient.hpp>
#include <PhQ/Traction.hpp>
#include <PhQ/Vector.hpp>
#include <PhQ/VectorArea.hpp>
#include <PhQ/Velocity.hpp>

#include <array>
#include <cmath>
#include <cstdint>
#include <cstdio>
#include <limits>
#include <random>
#include <string>
#include <vector>

namespace {

template <typename T>
struct Name;
template <>
struct Name<float> {
  static const char* get() { return "float"; }
};
template <>
struct Name<double> {
  static const char* get() { return "double"; }
};
template <>
struct Name<long double> {
  static const char* get() { return "longdouble"; }
};

void put(float v) { std::printf(" %a", static_cast<double>(v)); }
void put(double v) { std::printf(" %a", v); }
void put(long double v) { std::printf(" %La", v); }

template <typename T>
void put(const PhQ::Vector<T>& v) {
  put(v.x());
  put(v.y());
  put(v.z());
}
template <typename T>
void put(const PhQ::PlanarVector<T>& v) {
  put(v.x());
  put(v.y());
}
template <typename T>
void put(const PhQ::Direction<T>& d) {
  put(d.Value());
}
template <typename T>
void put(const PhQ::PlanarDirection<T>& d) {
  put(d.Value());
}
void tag(const char* s) { std::printf("\n%s", s); }

template <typename T>
std::vector<T> Scalars(std::mt19937_64& rng, int count, int max_exp) {
  std::vector<T> out;
  for (int i = 0; i < count; ++i) {
    const std::uint64_t bits = rng();
    // 24 random mantissa bits (exact in every type), random sign, random exponent.
    const T mantissa = static_cast<T>(1) + static_cast<T>(bits & 0xFFFFFFu) / static_cast<T>(16777216);
    const int exponent = static_cast<int>((bits >> 24) % static_cast<std::uint64_t>(2 * max_exp + 1)) - max_exp;
    const T sign = ((bits >> 60) & 1u) ? static_cast<T>(-1) : static_cast<T>(1);
    out.push_back(sign * std::ldexp(mantissa, exponent));
  }
  return out;
}

template <typename T>
std::vector<std::array<T, 3>> Inputs3(std::mt19937_64& rng, int count) {
  using L = std::numeric_limits<T>;
  std::vector<std::array<T, 3>> out;
  const T z = static_cast<T>(0);
  const T nz = -z;
  const T one = static_cast<T>(1);
  const T edge[] = {z, nz, one, -one, static_cast<T>(3), static_cast<T>(-4), static_cast<T>(0.1L),
                    L::min(), L::denorm_min(), L::max(), -L::max(), L::epsilon(),
                    std::sqrt(L::max()), std::sqrt(L::min()), static_cast<T>(1.0e-30L),
                    static_cast<T>(1.0e30L), L::infinity(), -L::infinity(), L::quiet_NaN()};
  const int n = static_cast<int>(sizeof(edge) / sizeof(edge[0]));
  for (int i = 0; i < n; ++i) {
    for (int j = 0; j < n; ++j) {
      out.push_back({edge[i], edge[j], edge[(i + j) % n]});
      out.push_back({edge[i], z, edge[j]});
    }
    out.push_back({edge[i], z, z});
    out.push_back({z, edge[i], z});
    out.push_back({z, z, edge[i]});
    out.push_back({nz, nz, edge[i]});
  }
  // Random directions, common scale (many binades), and near-degenerate (mixed scale) cases.
  const int max_exp = (sizeof(T) == sizeof(float)) ? 60 : 500;
  const std::vector<T> scale = Scalars<T>(rng, count, max_exp);
  const std::vector<T> a = Scalars<T>(rng, count, 2);
  const std::vector<T> b = Scalars<T>(rng, count, 2);
  const std::vector<T> c = Scalars<T>(rng, count, 2);
  for (int i = 0; i < count; ++i) {
    const T s = std::fabs(scale[i]);
    out.push_back({a[i] * s, b[i] * s, c[i] * s});
  }
  const std::vector<T> p = Scalars<T>(rng, count / 2, max_exp / 2);
  const std::vector<T> q = Scalars<T>(rng, count / 2, max_exp / 2);
  const std::vector<T> r = Scalars<T>(rng, count / 2, max_exp / 2);
  for (int i = 0; i < count / 2; ++i) {
    out.push_back({p[i], q[i], r[i]});
  }
  return out;
}

template <typename T>
void TestRaw(const std::vector<std::array<T, 3>>& inputs) {
  std::size_t k = 0;
  for (const std::array<T, 3>& in : inputs) {
    const PhQ::Vector<T> v{in};
    const std::array<T, 2> in2{in[0], in[1]};
    const PhQ::PlanarVector<T> pv{in2};
    const std::array<T, 3>& other = inputs[(k * 7 + 3) % inputs.size()];
    const PhQ::Vector<T> w{other};
    const PhQ::PlanarVector<T> pw{other[0], other[1]};
    ++k;

    tag("V in");
    put(v);
    tag(" m2");
    put(v.MagnitudeSquared());
    put(v.Magnitude());
    put(pv.MagnitudeSquared());
    put(pv.Magnitude());

    // Every construction path of a three-dimensional direction.
    const PhQ::Direction<T> d1{in[0], in[1], in[2]};
    const PhQ::Direction<T> d2{in};
    const PhQ::Direction<T> d3{v};
    const PhQ::Direction<T> d4 = v.Direction();
    PhQ::Direction<T> d5;
    d5.Set(in[0], in[1], in[2]);
    PhQ::Direction<T> d6{static_cast<T>(1), static_cast<T>(2), static_cast<T>(3)};
    d6.Set(in);
    PhQ::Direction<T> d7 = PhQ::Direction<T>::Zero();
    d7.Set(v);
    tag(" d");
    put(d1);
    put(d2);
    put(d3);
    put(d4);
    put(d5);
    put(d6);
    put(d7);
    tag(" dm");
    put(d1.MagnitudeSquared());
    put(d1.Magnitude());
    put(d1.x());
    put(d1.y());
    put(d1.z());
    // Self-aliasing Set.
    PhQ::Direction<T> d8{w};
    d8.Set(d8.Value());
    put(d8);
    d8.Set(d8.Value().x_y_z());
    put(d8);

    // Planar construction paths.
    const PhQ::PlanarDirection<T> e1{in[0], in[1]};
    const PhQ::PlanarDirection<T> e2{in2};
    const PhQ::PlanarDirection<T> e3{pv};
    const PhQ::PlanarDirection<T> e4 = pv.PlanarDirection();
    PhQ::PlanarDirection<T> e5;
    e5.Set(in[0], in[1]);
    PhQ::PlanarDirection<T> e6{static_cast<T>(1), static_cast<T>(2)};
    e6.Set(in2);
    PhQ::PlanarDirection<T> e7 = PhQ::PlanarDirection<T>::Zero();
    e7.Set(pv);
    tag(" e");
    put(e1);
    put(e2);
    put(e3);
    put(e4);
    put(e5);
    put(e6);
    put(e7);
    put(e1.MagnitudeSquared());
    put(e1.Magnitude());
    put(e1.x());
    put(e1.y());

    // 2-D / 3-D conversions and cross products.
    const PhQ::Direction<T> dw{w};
    const PhQ::PlanarDirection<T> ew{pw};
    tag(" c");
    put(PhQ::Direction<T>{e1});
    put(PhQ::PlanarDirection<T>{d1});
    put(d1.Cross(dw));
    put(d1.Cross(w));
    put(v.Cross(dw));
    put(e1.Cross(ew));
    put(e1.Cross(pw));
    put(pv.Cross(ew));
    put(d1.Dot(dw));
    put(d1.Dot(w));
    put(v.Dot(dw));
    put(e1.Dot(ew));
    put(e1.Dot(pw));
    put(pv.Dot(ew));

    // Magnitude times direction.
    tag(" r");
    put(PhQ::Vector<T>{v.Magnitude(), d1});
    put(PhQ::PlanarVector<T>{pv.Magnitude(), e1});
    put(d1.Value() * v.Magnitude());

    // Angles (depend on Magnitude and on directions).
    tag(" a");
    put(PhQ::Angle<T>{v, w}.Value());
    put(PhQ::Angle<T>{v, dw}.Value());
    put(PhQ::Angle<T>{d1, w}.Value());
    put(PhQ::Angle<T>{d1, dw}.Value());
    put(PhQ::Angle<T>{pv, pw}.Value());
    put(PhQ::Angle<T>{pv, ew}.Value());
    put(PhQ::Angle<T>{e1, pw}.Value());
    put(PhQ::Angle<T>{e1, ew}.Value());
    put(v.Angle(w).Value());
    put(d1.Angle(dw).Value());
    put(e1.Angle(ew).Value());

    // Cross-numeric-type copies (re-normalise through Set).
    tag(" x");
    put(PhQ::Direction<float>{d1});
    put(PhQ::Direction<double>{d1});
    put(PhQ::Direction<long double>{d1});
    put(PhQ::PlanarDirection<float>{e1});
    put(PhQ::PlanarDirection<double>{e1});
    put(PhQ::PlanarDirection<long double>{e1});
    PhQ::Direction<float> af;
    af = d1;
    PhQ::Direction<double> ad;
    ad = d1;
    PhQ::Direction<long double> al;
    al = d1;
    put(af);
    put(ad);
    put(al);
    PhQ::PlanarDirection<float> bf;
    bf = e1;
    PhQ::PlanarDirection<double> bd;
    bd = e1;
    PhQ::PlanarDirection<long double> bl;
    bl = e1;
    put(bf);
    put(bd);
    put(bl);

    // Printing and hashing and comparison of directions.
    tag(" p ");
    std::printf("%s %s %zu %zu %d %d", d1.Print().c_str(), e1.Print().c_str(),
                std::hash<PhQ::Direction<T>>()(d1), std::hash<PhQ::PlanarDirection<T>>()(e1),
                static_cast<int>(d1 == d2) + 2 * static_cast<int>(d1 < dw),
                static_cast<int>(e1 == e2) + 2 * static_cast<int>(e1 < ew));
  }
}

// One three-dimensional vector quantity Q with unit type U.
template <template <typename> class Q, typename T, typename U>
void TestQuantity3(const char* name, const U unit, const std::vector<std::array<T, 3>>& inputs) {
  std::size_t k = 0;
  for (const std::array<T, 3>& in : inputs) {
    const Q<T> q{PhQ::Vector<T>{in}, unit};
    const Q<T> other{PhQ::Vector<T>{inputs[(k * 5 + 1) % inputs.size()]}, unit};
    ++k;
    tag(name);
    put(q.Value());
    const auto magnitude = q.Magnitude();
    put(magnitude.Value());
    put(q.x().Value());
    put(q.y().Value());
    put(q.z().Value());
    const PhQ::Direction<T> d1 = q.Direction();
    const PhQ::Direction<T> d2{q};
    put(d1);
    put(d2);
    put(Q<T>{magnitude, d1}.Value());
    put((d1 * magnitude).Value());
    put(q.Angle(other).Value());
    put(PhQ::Angle<T>{q, other}.Value());
  }
}

// One two-dimensional vector quantity Q with unit type U.
template <template <typename> class Q, typename T, typename U>
void TestQuantity2(const char* name, const U unit, const std::vector<std::array<T, 3>>& inputs) {
  std::size_t k = 0;
  for (const std::array<T, 3>& in : inputs) {
    const Q<T> q{PhQ::PlanarVector<T>{in[0], in[1]}, unit};
    const std::array<T, 3>& o = inputs[(k * 5 + 1) % inputs.size()];
    const Q<T> other{PhQ::PlanarVector<T>{o[0], o[1]}, unit};
    ++k;
    tag(name);
    put(q.Value());
    const auto magnitude = q.Magnitude();
    put(magnitude.Value());
    put(q.x().Value());
    put(q.y().Value());
    const PhQ::PlanarDirection<T> d1 = q.PlanarDirection();
    const PhQ::PlanarDirection<T> d2{q};
    put(d1);
    put(d2);
    put(Q<T>{magnitude, d1}.Value());
    put((d1 * magnitude).Value());
    put(q.Angle(other).Value());
    put(PhQ::Angle<T>{q, other}.Value());
  }
}

template <typename T>
void TestAll(const std::uint64_t seed) {
  std::mt19937_64 rng{seed};
  std::printf("\n==== %s", Name<T>::get());
  const std::vector<std::array<T, 3>> inputs = Inputs3<T>(rng, 300);
  TestRaw<T>(inputs);

  // Non-standard units too, so that the conversion feeding Magnitude/Direction is exercised.
  TestQuantity3<PhQ::Acceleration, T>("Acc", PhQ::Unit::Acceleration::MetrePerSquareSecond, inputs);
  TestQuantity3<PhQ::Acceleration, T>("AccF", PhQ::Unit::Acceleration::FootPerSquareSecond, inputs);
  TestQuantity3<PhQ::Displacement, T>("Dis", PhQ::Unit::Length::Metre, inputs);
  TestQuantity3<PhQ::Displacement, T>("DisI", PhQ::Unit::Length::Inch, inputs);
  TestQuantity3<PhQ::Force, T>("For", PhQ::Unit::Force::Newton, inputs);
  TestQuantity3<PhQ::Force, T>("ForP", PhQ::Unit::Force::Pound, inputs);
  TestQuantity3<PhQ::HeatFlux, T>("Hea", PhQ::Unit::EnergyFlux::WattPerSquareMetre, inputs);
  TestQuantity3<PhQ::Position, T>("Pos", PhQ::Unit::Length::Metre, inputs);
  TestQuantity3<PhQ::Position, T>("PosM", PhQ::Unit::Length::Millimetre, inputs);
  TestQuantity3<PhQ::TemperatureGradient, T>(
      "Tem", PhQ::Unit::TemperatureGradient::KelvinPerMetre, inputs);
  TestQuantity3<PhQ::Traction, T>("Tra", PhQ::Unit::Pressure::Pascal, inputs);
  TestQuantity3<PhQ::Traction, T>("TraK", PhQ::Unit::Pressure::Kilopascal, inputs);
  TestQuantity3<PhQ::VectorArea, T>("Are", PhQ::Unit::Area::SquareMetre, inputs);
  TestQuantity3<PhQ::VectorArea, T>("AreF", PhQ::Unit::Area::SquareFoot, inputs);
  TestQuantity3<PhQ::Velocity, T>("Vel", PhQ::Unit::Speed::MetrePerSecond, inputs);
  TestQuantity3<PhQ::Velocity, T>("VelF", PhQ::Unit::Speed::FootPerSecond, inputs);

  TestQuantity2<PhQ::PlanarAcceleration, T>(
      "PAcc", PhQ::Unit::Acceleration::MetrePerSquareSecond, inputs);
  TestQuantity2<PhQ::PlanarDisplacement, T>("PDis", PhQ::Unit::Length::Metre, inputs);
  TestQuantity2<PhQ::PlanarDisplacement, T>("PDisF", PhQ::Unit::Length::Foot, inputs);
  TestQuantity2<PhQ::PlanarForce, T>("PFor", PhQ::Unit::Force::Newton, inputs);
  TestQuantity2<PhQ::PlanarHeatFlux, T>("PHea", PhQ::Unit::EnergyFlux::WattPerSquareMetre, inputs);
  TestQuantity2<PhQ::PlanarPosition, T>("PPos", PhQ::Unit::Length::Metre, inputs);
  TestQuantity2<PhQ::PlanarTemperatureGradient, T>(
      "PTem", PhQ::Unit::TemperatureGradient::KelvinPerMetre, inputs);
  TestQuantity2<PhQ::PlanarTraction, T>("PTra", PhQ::Unit::Pressure::Pascal, inputs);
  TestQuantity2<PhQ::PlanarVelocity, T>("PVel", PhQ::Unit::Speed::MetrePerSecond, inputs);
  TestQuantity2<PhQ::PlanarVelocity, T>("PVelK", PhQ::Unit::Speed::KilometrePerHour, inputs);
}

}  // namespace

int main() {
  TestAll<float>(0xC10F10A7ULL);
  TestAll<double>(0xC10D0B1EULL);
  TestAll<long double>(0xC1010D0BULL);
  std::printf("\n");
  return 0;
}
