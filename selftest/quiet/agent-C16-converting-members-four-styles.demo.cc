// Differential program for the C16 refactor: precision-changing copy construction and assignment of
// PlanarVector, Vector, SymmetricDyad, Dyad and everything layered on top of them.
#include <PhQ/Direction.hpp>
#include <PhQ/Displacement.hpp>
#include <PhQ/DisplacementGradient.hpp>
#include <PhQ/Dyad.hpp>
#include <PhQ/Force.hpp>
#include <PhQ/PlanarDirection.hpp>
#include <PhQ/PlanarForce.hpp>
#include <PhQ/PlanarVector.hpp>
#include <PhQ/Strain.hpp>
#include <PhQ/Stress.hpp>
#include <PhQ/SymmetricDyad.hpp>
#include <PhQ/Vector.hpp>
#include <PhQ/VelocityGradient.hpp>

#include <array>
#include <cstdint>
#include <cstdio>
#include <limits>
#include <random>
#include <vector>

namespace {

void Put(const float v) { std::printf(" %a", static_cast<double>(v)); }
void Put(const double v) { std::printf(" %a", v); }
void Put(const long double v) { std::printf(" %La", v); }

template <typename T> const char* Name();
template <> const char* Name<float>() { return "f"; }
template <> const char* Name<double>() { return "d"; }
template <> const char* Name<long double>() { return "l"; }

template <typename T> void Show(const PhQ::PlanarVector<T>& v) { Put(v.x()); Put(v.y()); }
template <typename T> void Show(const PhQ::Vector<T>& v) { Put(v.x()); Put(v.y()); Put(v.z()); }
template <typename T> void Show(const PhQ::SymmetricDyad<T>& v) {
  Put(v.xx()); Put(v.xy()); Put(v.xz()); Put(v.yx()); Put(v.yy()); Put(v.yz());
  Put(v.zx()); Put(v.zy()); Put(v.zz());
  for (const T c : v.xx_xy_xz_yy_yz_zz()) Put(c);
}
template <typename T> void Show(const PhQ::Dyad<T>& v) {
  Put(v.xx()); Put(v.xy()); Put(v.xz()); Put(v.yx()); Put(v.yy()); Put(v.yz());
  Put(v.zx()); Put(v.zy()); Put(v.zz());
  for (const T c : v.xx_xy_xz_yx_yy_yz_zx_zy_zz()) Put(c);
}

// Source values for a type From: edge cases followed by random values of widely varying scale.
template <typename From> std::vector<From> Pool() {
  using L = std::numeric_limits<From>;
  std::vector<From> pool = {
      From(0), -From(0), From(1), From(-1), From(0.1L), From(-0.3L), From(1.0L / 3.0L),
      From(16777217.0L), From(9007199254740993.0L), From(1.0e-30L), From(-1.0e-40L),
      From(1.0e-46L), From(3.0e38L), From(-3.4028235677973366e38L), From(1.0e30L),
      L::min(), -L::min(), L::denorm_min(), L::epsilon(), From(1) + L::epsilon(),
      From(1) - L::epsilon() / From(2), L::max() / From(4), L::infinity(), -L::infinity(),
      From(1.7976931348623157e308L), From(2.2250738585072014e-308L), From(4.9e-324L),
      From(3.14159265358979323846264338327950288L), From(-2.71828182845904523536028747135266250L)};
  std::mt19937_64 gen(0xC16C16ULL + sizeof(From));
  std::uniform_real_distribution<long double> mantissa(-1.0L, 1.0L);
  std::uniform_int_distribution<int> exponent(-60, 60);
  for (int i = 0; i < 600; ++i) {
    pool.push_back(static_cast<From>(std::ldexp(mantissa(gen), exponent(gen))));
  }
  return pool;
}

template <typename From, typename To> void Tensors() {
  const std::vector<From> pool = Pool<From>();
  const std::size_t n = pool.size();
  std::printf("== tensors %s->%s\n", Name<From>(), Name<To>());
  for (std::size_t i = 0; i < n; ++i) {
    const auto at = [&](std::size_t k) { return pool[(i * 7 + k * 13 + k * k) % n]; };

    // PlanarVector
    const PhQ::PlanarVector<From> pv(at(0), at(1));
    const PhQ::PlanarVector<To> pv_c(pv);
    PhQ::PlanarVector<To> pv_a(To(7), To(8));
    pv_a = pv;
    PhQ::PlanarVector<To> pv_u;
    PhQ::PlanarVector<To>& pv_ref = (pv_u = pv);
    std::printf("PV"); Show(pv_c); Show(pv_a); Show(pv_u);
    std::printf(" %d", static_cast<int>(&pv_ref == &pv_u));
    Show(PhQ::PlanarVector<From>(pv_c)); std::printf("\n");

    // Vector
    const PhQ::Vector<From> v(at(2), at(3), at(4));
    const PhQ::Vector<To> v_c(v);
    PhQ::Vector<To> v_a(To(7), To(8), To(9));
    v_a = v;
    PhQ::Vector<To> v_u;
    PhQ::Vector<To>& v_ref = (v_u = v);
    std::printf("V"); Show(v_c); Show(v_a); Show(v_u);
    std::printf(" %d", static_cast<int>(&v_ref == &v_u));
    Show(PhQ::Vector<From>(v_c)); Show(static_cast<PhQ::Vector<To>>(v)); std::printf("\n");

    // SymmetricDyad
    const PhQ::SymmetricDyad<From> s(at(5), at(6), at(7), at(8), at(9), at(10));
    const PhQ::SymmetricDyad<To> s_c(s);
    PhQ::SymmetricDyad<To> s_a(To(1), To(2), To(3), To(4), To(5), To(6));
    s_a = s;
    PhQ::SymmetricDyad<To> s_u;
    PhQ::SymmetricDyad<To>& s_ref = (s_u = s);
    std::printf("S"); Show(s_c); Show(s_a); Show(s_u);
    std::printf(" %d", static_cast<int>(&s_ref == &s_u));
    Show(PhQ::SymmetricDyad<From>(s_c)); std::printf("\n");

    // Dyad
    const PhQ::Dyad<From> d(at(11), at(12), at(13), at(14), at(15), at(16), at(17), at(18), at(19));
    const PhQ::Dyad<To> d_c(d);
    PhQ::Dyad<To> d_a(To(1), To(2), To(3), To(4), To(5), To(6), To(7), To(8), To(9));
    d_a = d;
    PhQ::Dyad<To> d_u;
    PhQ::Dyad<To>& d_ref = (d_u = d);
    std::printf("D"); Show(d_c); Show(d_a); Show(d_u);
    std::printf(" %d", static_cast<int>(&d_ref == &d_u));
    Show(PhQ::Dyad<From>(d_c)); std::printf("\n");

    // Chained assignment and self-consistency through a third precision is covered by the caller
    // instantiating all six ordered pairs.
  }
}

template <typename From, typename To> void Quantities() {
  std::vector<From> pool;
  {
    // Finite, moderately sized values only: unit conversions and normalisation are involved.
    std::mt19937_64 gen(0xBEEFULL + sizeof(From) * 3 + sizeof(To));
    std::uniform_real_distribution<long double> mantissa(-1.0L, 1.0L);
    std::uniform_int_distribution<int> exponent(-30, 30);
    pool = {From(0), -From(0), From(1), From(-1), From(0.1L), From(1.0L / 3.0L),
            From(16777217.0L), From(1.0e-20L), From(-123456.789L)};
    for (int i = 0; i < 300; ++i) {
      pool.push_back(static_cast<From>(std::ldexp(mantissa(gen), exponent(gen))));
    }
  }
  const std::size_t n = pool.size();
  std::printf("== quantities %s->%s\n", Name<From>(), Name<To>());
  for (std::size_t i = 0; i < n; ++i) {
    const auto at = [&](std::size_t k) { return pool[(i * 5 + k * 11 + k * k) % n]; };
    const PhQ::PlanarVector<From> pv(at(0), at(1));
    const PhQ::Vector<From> v(at(2), at(3), at(4));
    const PhQ::SymmetricDyad<From> s(at(5), at(6), at(7), at(8), at(9), at(10));
    const PhQ::Dyad<From> d(at(11), at(12), at(13), at(14), at(15), at(16), at(17), at(18), at(19));

    {
      const PhQ::PlanarForce<From> q(pv, PhQ::Unit::Force::Newton);
      const PhQ::PlanarForce<To> c(q);
      PhQ::PlanarForce<To> a(PhQ::PlanarVector<To>(To(1), To(2)), PhQ::Unit::Force::Newton);
      a = q;
      std::printf("PF"); Show(c.Value()); Show(a.Value()); std::printf("\n");
    }
    {
      const PhQ::Force<From> q(v, PhQ::Unit::Force::Newton);
      const PhQ::Force<To> c(q);
      PhQ::Force<To> a(PhQ::Vector<To>(To(1), To(2), To(3)), PhQ::Unit::Force::Newton);
      a = q;
      std::printf("F"); Show(c.Value()); Show(a.Value()); std::printf("\n");
    }
    {
      const PhQ::Displacement<From> q(v, PhQ::Unit::Length::Metre);
      const PhQ::Displacement<To> c(q);
      PhQ::Displacement<To> a = PhQ::Displacement<To>::Zero();
      a = q;
      std::printf("DS"); Show(c.Value()); Show(a.Value()); std::printf("\n");
    }
    {
      const PhQ::Stress<From> q(s, PhQ::Unit::Pressure::Pascal);
      const PhQ::Stress<To> c(q);
      PhQ::Stress<To> a = PhQ::Stress<To>::Zero();
      a = q;
      std::printf("ST"); Show(c.Value()); Show(a.Value()); std::printf("\n");
    }
    {
      const PhQ::Strain<From> q(s);
      const PhQ::Strain<To> c(q);
      PhQ::Strain<To> a = PhQ::Strain<To>::Zero();
      a = q;
      std::printf("SN"); Show(c.Value()); Show(a.Value()); std::printf("\n");
    }
    {
      const PhQ::VelocityGradient<From> q(d, PhQ::Unit::Frequency::Hertz);
      const PhQ::VelocityGradient<To> c(q);
      PhQ::VelocityGradient<To> a = PhQ::VelocityGradient<To>::Zero();
      a = q;
      std::printf("VG"); Show(c.Value()); Show(a.Value()); std::printf("\n");
    }
    {
      const PhQ::DisplacementGradient<From> q(d);
      const PhQ::DisplacementGradient<To> c(q);
      PhQ::DisplacementGradient<To> a = PhQ::DisplacementGradient<To>::Zero();
      a = q;
      std::printf("DG"); Show(c.Value()); Show(a.Value()); std::printf("\n");
    }
    {
      const PhQ::Direction<From> q(v);
      const PhQ::Direction<To> c(q);
      PhQ::Direction<To> a;
      a = q;
      std::printf("DR"); Show(c.Value()); Show(a.Value()); std::printf("\n");
    }
    {
      const PhQ::PlanarDirection<From> q(pv);
      const PhQ::PlanarDirection<To> c(q);
      PhQ::PlanarDirection<To> a;
      a = q;
      std::printf("PD"); Show(c.Value()); Show(a.Value()); std::printf("\n");
    }
  }
}

// The converting members must remain usable in constant expressions.
template <typename From, typename To> void ConstantExpressions() {
  constexpr PhQ::PlanarVector<From> pv(From(1.25L), From(-2.5L));
  constexpr PhQ::Vector<From> v(From(1.25L), From(-2.5L), From(0.1L));
  constexpr PhQ::SymmetricDyad<From> s(
      From(0.1L), From(0.2L), From(0.3L), From(0.4L), From(0.5L), From(0.6L));
  constexpr PhQ::Dyad<From> d(From(0.1L), From(0.2L), From(0.3L), From(0.4L), From(0.5L),
                              From(0.6L), From(0.7L), From(0.8L), From(0.9L));
  constexpr PhQ::PlanarVector<To> pv_c(pv);
  constexpr PhQ::Vector<To> v_c(v);
  constexpr PhQ::SymmetricDyad<To> s_c(s);
  constexpr PhQ::Dyad<To> d_c(d);
  std::printf("== constexpr %s->%s\n", Name<From>(), Name<To>());
  std::printf("CE"); Show(pv_c); Show(v_c); Show(s_c); Show(d_c); std::printf("\n");
}

template <typename From, typename To> void Pair() {
  Tensors<From, To>();
  Quantities<From, To>();
  ConstantExpressions<From, To>();
}

}  // namespace

int main() {
  Pair<float, double>();
  Pair<float, long double>();
  Pair<double, float>();
  Pair<double, long double>();
  Pair<long double, float>();
  Pair<long double, double>();
  return 0;
}
