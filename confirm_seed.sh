#!/bin/bash
# usage: confirm_seed.sh <worktree> <seed dir> : independently confirm a seeded change (tests pass, demo fails with / passes without)
WT="$1"; OUT="$2"; EXTRA="$3"; LOG="$OUT/confirm.log"
{
set -x
cd "$WT" || exit 9
git -C "$WT" reset -q; git -C "$WT" checkout -q -- . ; git -C "$WT" clean -fdq include; git -C "$WT" apply "$OUT/patch.diff" || { echo "CONFIRM: patch does not apply"; exit 9; }
git -C "$WT" diff --stat
cmake -G Ninja -S "$WT" -B "$WT/_build" -DPHYSICAL_QUANTITIES_PHQ_TEST=ON -DCMAKE_BUILD_TYPE=RelWithDebInfo -DCMAKE_CXX_FLAGS=-Wno-error > /dev/null
cmake --build "$WT/_build" -j8 2>&1 | tail -2
ctest --test-dir "$WT/_build" -j4 --timeout 900 2>&1 | grep -E "tests passed|Failed|\*\*\*" | head -10
FAILED=$(ctest --test-dir "$WT/_build" -j4 --timeout 900 2>&1 | grep -E "\(Failed\)" | grep -v Performance | wc -l)
g++ -std=c++17 -O0 $EXTRA -I"$WT/include" "$OUT/demo.cc" -o "$OUT/demo_with" && "$OUT/demo_with" > "$OUT/demo_with.out" 2>&1; RC_WITH=$?
git -C "$WT" reset -q; git -C "$WT" checkout -q -- .; git -C "$WT" clean -fdq include
g++ -std=c++17 -O0 $EXTRA -I"$WT/include" "$OUT/demo.cc" -o "$OUT/demo_without" && "$OUT/demo_without" > "$OUT/demo_without.out" 2>&1; RC_WITHOUT=$?
git -C "$WT" apply "$OUT/patch.diff"
rm -rf "$WT/_build" "$OUT/demo_with" "$OUT/demo_without" "$OUT/demo"
set +x
echo "CONFIRM: non-performance test failures with change = $FAILED ; demo rc with change = $RC_WITH ; demo rc without change = $RC_WITHOUT"
} > "$LOG" 2>&1
tail -1 "$LOG"
