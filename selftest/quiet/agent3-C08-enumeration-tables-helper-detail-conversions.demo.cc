// Differential program for the C08s structural refactor: enumeration tables (abbreviations,
// spellings, streaming, parsing) and unit conversions (all units, all shapes, all numeric types).
#include <PhQ/ConstitutiveModel.hpp>
#include <PhQ/ConstitutiveModel/CompressibleNewtonianFluid.hpp>
#include <PhQ/ConstitutiveModel/ElasticIsotropicSolid.hpp>
#include <PhQ/ConstitutiveModel/IncompressibleNewtonianFluid.hpp>
#include <PhQ/Unit/Acceleration.hpp>
#include <PhQ/Unit/Angle.hpp>
#include <PhQ/Unit/AngularAcceleration.hpp>
#include <PhQ/Unit/AngularSpeed.hpp>
#include <PhQ/Unit/Area.hpp>
#include <PhQ/Unit/Diffusivity.hpp>
#include <PhQ/Unit/DynamicViscosity.hpp>
#include <PhQ/Unit/ElectricCharge.hpp>
#include <PhQ/Unit/ElectricCurrent.hpp>
#include <PhQ/Unit/Energy.hpp>
#include <PhQ/Unit/EnergyFlux.hpp>
#include <PhQ/Unit/Force.hpp>
#include <PhQ/Unit/Frequency.hpp>
#include <PhQ/Unit/HeatCapacity.hpp>
#include <PhQ/Unit/Length.hpp>
#include <PhQ/Unit/Mass.hpp>
#include <PhQ/Unit/MassDensity.hpp>
#include <PhQ/Unit/MassRate.hpp>
#include <PhQ/Unit/Memory.hpp>
#include <PhQ/Unit/MemoryRate.hpp>
#include <PhQ/Unit/Power.hpp>
#include <PhQ/Unit/Pressure.hpp>
#include <PhQ/Unit/ReciprocalTemperature.hpp>
#include <PhQ/Unit/SolidAngle.hpp>
#include <PhQ/Unit/SpecificEnergy.hpp>
#include <PhQ/Unit/SpecificHeatCapacity.hpp>
#include <PhQ/Unit/SpecificPower.hpp>
#include <PhQ/Unit/Speed.hpp>
#include <PhQ/Unit/SubstanceAmount.hpp>
#include <PhQ/Unit/Temperature.hpp>
#include <PhQ/Unit/TemperatureDifference.hpp>
#include <PhQ/Unit/TemperatureGradient.hpp>
#include <PhQ/Unit/ThermalConductivity.hpp>
#include <PhQ/Unit/Time.hpp>
#include <PhQ/Unit/TransportEnergyConsumption.hpp>
#include <PhQ/Unit/Volume.hpp>
#include <PhQ/Unit/VolumeRate.hpp>
#include <PhQ/UnitSystem.hpp>

#include <algorithm>
#include <array>
#include <cstdio>
#include <iostream>
#include <limits>
#include <random>
#include <sstream>
#include <string>
#include <vector>

namespace {

template <typename T>
void PutNumber(const T value) {
  std::printf(" %La", static_cast<long double>(value));
}

// The stream operators of the unit enumerations live in namespace PhQ, whereas the enumerations
// live in namespace PhQ::Unit, so argument-dependent lookup alone does not find them.
using PhQ::operator<<;

template <typename E, typename = void>
struct Streamable : std::false_type {};

template <typename E>
struct Streamable<E, std::void_t<decltype(std::declval<std::ostream&>() << std::declval<E>())>>
  : std::true_type {};

template <typename E>
std::vector<E> Enumerators() {
  std::vector<E> result;
  for (const auto& entry : PhQ::Internal::Abbreviations<E>) {
    result.push_back(entry.first);
  }
  return result;
}

const std::vector<std::string>& JunkStrings() {
  static const std::vector<std::string> junk{
    "",      " ",     "  m",    "m ",    "M",      "Hello",   "rad^2 ", "RAD", "nmi/hr ", "kn0t",
    "m/s/s", "m^-1",  "\xC2",   "\xB0",  "1",      "0",       "null",   "°°",  "kg·",     "unit",
    "metre ", "Metre", "METRE", "m\0x", "elastic", "Elastic", "fluid",  "K ",  " K",      "deg C ",
  };
  return junk;
}

template <typename E>
void Tables(const char* const name) {
  std::printf("== tables %s\n", name);
  // Abbreviation table in key order, with streaming and round trip.
  for (const auto& entry : PhQ::Internal::Abbreviations<E>) {
    const E enumerator = entry.first;
    const std::string_view abbreviation = PhQ::Abbreviation(enumerator);
    std::ostringstream stream;
    if constexpr (Streamable<E>::value) {
      stream << enumerator;
    } else {
      stream << "(not streamable)";
    }
    const std::optional<E> parsed = PhQ::ParseEnumeration<E>(abbreviation);
    std::printf("A %d [%.*s] [%s] %d\n", static_cast<int>(enumerator),
                static_cast<int>(abbreviation.size()), abbreviation.data(), stream.str().c_str(),
                parsed.has_value() ? static_cast<int>(parsed.value()) : -1);
  }
  // Spelling table in its own iteration order.
  std::vector<std::string> spellings;
  for (const auto& entry : PhQ::Internal::Spellings<E>) {
    std::printf("I [%.*s] %d\n", static_cast<int>(entry.first.size()), entry.first.data(),
                static_cast<int>(entry.second));
    spellings.emplace_back(entry.first);
  }
  std::printf("N %zu %zu\n", PhQ::Internal::Abbreviations<E>.size(),
              PhQ::Internal::Spellings<E>.size());
  // Every accepted spelling, plus perturbations of it, plus junk.
  std::sort(spellings.begin(), spellings.end());
  for (const std::string& spelling : spellings) {
    const std::optional<E> parsed = PhQ::ParseEnumeration<E>(spelling);
    std::printf("S [%s] %d", spelling.c_str(),
                parsed.has_value() ? static_cast<int>(parsed.value()) : -1);
    const std::string variants[] = {spelling + " ", " " + spelling, PhQ::Uppercase(spelling),
                                    PhQ::Lowercase(spelling), spelling + spelling,
                                    spelling.substr(0, spelling.size() / 2)};
    for (const std::string& variant : variants) {
      const std::optional<E> other = PhQ::ParseEnumeration<E>(variant);
      std::printf(" %d", other.has_value() ? static_cast<int>(other.value()) : -1);
    }
    std::printf("\n");
  }
  for (const std::string& junk : JunkStrings()) {
    const std::optional<E> parsed = PhQ::ParseEnumeration<E>(junk);
    std::printf("J %d\n", parsed.has_value() ? static_cast<int>(parsed.value()) : -1);
  }
}

template <typename T>
std::vector<T> Values() {
  using L = std::numeric_limits<T>;
  std::vector<T> values{
    static_cast<T>(0),
    -static_cast<T>(0),
    static_cast<T>(1),
    static_cast<T>(-1),
    L::denorm_min(),
    -L::denorm_min(),
    L::min(),
    -L::min(),
    L::max(),
    L::lowest(),
    L::epsilon(),
    L::infinity(),
    -L::infinity(),
    static_cast<T>(1.0e-30L),
    static_cast<T>(-1.0e30L),
    static_cast<T>(273.15L),
    static_cast<T>(-459.67L),
    static_cast<T>(0.1L),
    static_cast<T>(1.0L) / static_cast<T>(3.0L),
    PhQ::Pi<T>,
    static_cast<T>(123456789.0L),
    static_cast<T>(1.0e-5L),
  };
  std::mt19937_64 generator(20240927U);
  std::uniform_real_distribution<double> mantissa(-10.0, 10.0);
  std::uniform_int_distribution<int> exponent(-30, 30);
  for (int i = 0; i < 24; ++i) {
    const double m = mantissa(generator);
    const int e = exponent(generator);
    values.push_back(static_cast<T>(m) * static_cast<T>(std::pow(10.0, e)));
  }
  return values;
}

template <typename U, typename T>
void ConversionsOf(const char* const name, const char* const numeric) {
  std::printf("== conversions %s %s\n", name, numeric);
  const std::vector<U> units = Enumerators<U>();
  const std::vector<T> values = Values<T>();
  std::printf("maps %zu %zu\n", PhQ::Internal::MapOfConversionsFromStandard<U, T>.size(),
              PhQ::Internal::MapOfConversionsToStandard<U, T>.size());
  for (const U from : units) {
    for (const U to : units) {
      std::printf("C %d %d:", static_cast<int>(from), static_cast<int>(to));
      // Scalars, by value and in place.
      for (const T value : values) {
        PutNumber(PhQ::Convert(value, from, to));
        T in_place = value;
        PhQ::ConvertInPlace(in_place, from, to);
        PutNumber(in_place);
      }
      std::printf("\n");
      // Standard vector, by value and in place; also the empty vector.
      std::vector<T> sequence = values;
      const std::vector<T> converted = PhQ::Convert(sequence, from, to);
      PhQ::ConvertInPlace(sequence, from, to);
      std::printf("V");
      for (std::size_t i = 0; i < converted.size(); ++i) {
        PutNumber(converted[i]);
        PutNumber(sequence[i]);
      }
      std::vector<T> empty;
      PhQ::ConvertInPlace(empty, from, to);
      std::printf(" %zu %zu\n", empty.size(), PhQ::Convert(empty, from, to).size());
      // Arrays of several sizes.
      std::array<T, 1> a1{values[7]};
      std::array<T, 4> a4{values[2], values[15], values[22], values[23]};
      std::array<T, 0> a0{};
      const std::array<T, 4> c4 = PhQ::Convert(a4, from, to);
      PhQ::ConvertInPlace(a1, from, to);
      PhQ::ConvertInPlace(a4, from, to);
      PhQ::ConvertInPlace(a0, from, to);
      std::printf("R");
      PutNumber(a1[0]);
      for (std::size_t i = 0; i < 4; ++i) {
        PutNumber(a4[i]);
        PutNumber(c4[i]);
      }
      std::printf("\n");
      // Planar vector, vector, symmetric dyad, dyad.
      for (std::size_t offset = 0; offset + 9 <= values.size(); offset += 9) {
        const T* const v = values.data() + offset;
        PhQ::PlanarVector<T> planar(v[0], v[1]);
        PhQ::Vector<T> vector(v[2], v[3], v[4]);
        PhQ::SymmetricDyad<T> symmetric(v[0], v[1], v[2], v[3], v[4], v[5]);
        PhQ::Dyad<T> dyad(v[0], v[1], v[2], v[3], v[4], v[5], v[6], v[7], v[8]);
        const PhQ::PlanarVector<T> planar2 = PhQ::Convert(planar, from, to);
        const PhQ::Vector<T> vector2 = PhQ::Convert(vector, from, to);
        const PhQ::SymmetricDyad<T> symmetric2 = PhQ::Convert(symmetric, from, to);
        const PhQ::Dyad<T> dyad2 = PhQ::Convert(dyad, from, to);
        PhQ::ConvertInPlace(planar, from, to);
        PhQ::ConvertInPlace(vector, from, to);
        PhQ::ConvertInPlace(symmetric, from, to);
        PhQ::ConvertInPlace(dyad, from, to);
        std::printf("T");
        for (const T x : planar.x_y()) PutNumber(x);
        for (const T x : planar2.x_y()) PutNumber(x);
        for (const T x : vector.x_y_z()) PutNumber(x);
        for (const T x : vector2.x_y_z()) PutNumber(x);
        for (const T x : symmetric.xx_xy_xz_yy_yz_zz()) PutNumber(x);
        for (const T x : symmetric2.xx_xy_xz_yy_yz_zz()) PutNumber(x);
        for (const T x : dyad.xx_xy_xz_yx_yy_yz_zx_zy_zz()) PutNumber(x);
        for (const T x : dyad2.xx_xy_xz_yx_yy_yz_zx_zy_zz()) PutNumber(x);
        std::printf("\n");
      }
    }
  }
  // Direct use of the table entries on raw sequences, including a size of zero.
  for (const U unit : units) {
    std::vector<T> sequence = values;
    PhQ::Internal::MapOfConversionsToStandard<U, T>.find(unit)->second(sequence.data(), 0);
    PhQ::Internal::MapOfConversionsToStandard<U, T>.find(unit)->second(
        sequence.data() + 1, sequence.size() - 2);
    std::printf("D %d:", static_cast<int>(unit));
    for (const T x : sequence) PutNumber(x);
    PhQ::Internal::MapOfConversionsFromStandard<U, T>.find(unit)->second(sequence.data(), 3);
    for (const T x : sequence) PutNumber(x);
    std::printf("\n");
  }
}

template <typename U, U From, U To, typename T>
void Static(const char* const name) {
  std::printf("X %s %d %d:", name, static_cast<int>(From), static_cast<int>(To));
  const std::vector<T> values = Values<T>();
  for (const T value : values) {
    PutNumber(PhQ::ConvertStatically<U, From, To>(value));
  }
  const std::array<T, 5> array{values[2], values[15], values[16], values[19], values[25]};
  for (const T x : PhQ::ConvertStatically<U, From, To>(array)) PutNumber(x);
  const T* const v = values.data() + 14;
  for (const T x :
       PhQ::ConvertStatically<U, From, To>(PhQ::PlanarVector<T>(v[0], v[1])).x_y())
    PutNumber(x);
  for (const T x :
       PhQ::ConvertStatically<U, From, To>(PhQ::Vector<T>(v[2], v[3], v[4])).x_y_z())
    PutNumber(x);
  for (const T x : PhQ::ConvertStatically<U, From, To>(
                       PhQ::SymmetricDyad<T>(v[0], v[1], v[2], v[3], v[4], v[5]))
                       .xx_xy_xz_yy_yz_zz())
    PutNumber(x);
  for (const T x : PhQ::ConvertStatically<U, From, To>(
                       PhQ::Dyad<T>(v[0], v[1], v[2], v[3], v[4], v[5], v[6], v[7], v[8]))
                       .xx_xy_xz_yx_yy_yz_zx_zy_zz())
    PutNumber(x);
  std::printf("\n");
}

template <typename U, U From, U To>
void StaticAll(const char* const name) {
  Static<U, From, To, float>(name);
  Static<U, From, To, double>(name);
  Static<U, From, To, long double>(name);
  Static<U, To, From, float>(name);
  Static<U, To, From, double>(name);
  Static<U, To, From, long double>(name);
}

// Compile-time evaluation must still be possible.
static_assert(PhQ::ConvertStatically<PhQ::Unit::Length, PhQ::Unit::Length::Kilometre,
                                     PhQ::Unit::Length::Metre>(2.0)
                  > 1999.0,
              "");
static_assert(PhQ::ConvertStatically<PhQ::Unit::Time, PhQ::Unit::Time::Hour,
                                     PhQ::Unit::Time::Second>(std::array<double, 2>{1.0, 2.0})[1]
                  > 7199.0,
              "");

template <typename U>
void Unit(const char* const name) {
  Tables<U>(name);
  ConversionsOf<U, float>(name, "float");
  ConversionsOf<U, double>(name, "double");
  ConversionsOf<U, long double>(name, "long double");
  StaticAll<U, PhQ::Standard<U>, PhQ::Standard<U>>(name);
  std::printf("Y %s", name);
  for (const auto& entry : PhQ::Internal::ConsistentUnits<U>) {
    std::printf(" %d:%d", static_cast<int>(entry.first),
                static_cast<int>(PhQ::ConsistentUnit<U>(entry.first)));
  }
  for (const U unit : Enumerators<U>()) {
    const std::optional<PhQ::UnitSystem> system = PhQ::RelatedUnitSystem(unit);
    std::printf(" %d", system.has_value() ? static_cast<int>(system.value()) : -1);
  }
  std::printf("\n");
}

}  // namespace

#define UNIT(Name) Unit<PhQ::Unit::Name>(#Name)

int main() {
  Tables<PhQ::UnitSystem>("UnitSystem");
  Tables<PhQ::ConstitutiveModel::Type>("ConstitutiveModel::Type");
  {
    const PhQ::ConstitutiveModel::ElasticIsotropicSolid<double> solid(
        PhQ::YoungModulus<double>(70.0, PhQ::Unit::Pressure::Gigapascal),
        PhQ::PoissonRatio<double>(0.33));
    std::cout << solid << "\n" << solid.JSON() << "\n" << solid.XML() << "\n" << solid.YAML()
              << std::endl;
  }
  UNIT(Acceleration);
  UNIT(Angle);
  UNIT(AngularAcceleration);
  UNIT(AngularSpeed);
  UNIT(Area);
  UNIT(Diffusivity);
  UNIT(DynamicViscosity);
  UNIT(ElectricCharge);
  UNIT(ElectricCurrent);
  UNIT(Energy);
  UNIT(EnergyFlux);
  UNIT(Force);
  UNIT(Frequency);
  UNIT(HeatCapacity);
  UNIT(Length);
  UNIT(Mass);
  UNIT(MassDensity);
  UNIT(MassRate);
  UNIT(Memory);
  UNIT(MemoryRate);
  UNIT(Power);
  UNIT(Pressure);
  UNIT(ReciprocalTemperature);
  UNIT(SolidAngle);
  UNIT(SpecificEnergy);
  UNIT(SpecificHeatCapacity);
  UNIT(SpecificPower);
  UNIT(Speed);
  UNIT(SubstanceAmount);
  UNIT(Temperature);
  UNIT(TemperatureDifference);
  UNIT(TemperatureGradient);
  UNIT(ThermalConductivity);
  UNIT(Time);
  UNIT(TransportEnergyConsumption);
  UNIT(Volume);
  UNIT(VolumeRate);

  using namespace PhQ::Unit;
  StaticAll<Angle, Angle::Degree, Angle::Revolution>("Angle");
  StaticAll<Angle, Angle::Arcsecond, Angle::Radian>("Angle");
  StaticAll<SolidAngle, SolidAngle::SquareDegree, SolidAngle::Steradian>("SolidAngle");
  StaticAll<Length, Length::NauticalMile, Length::Inch>("Length");
  StaticAll<Length, Length::Millimetre, Length::Foot>("Length");
  StaticAll<Speed, Speed::Knot, Speed::MetrePerSecond>("Speed");
  StaticAll<Speed, Speed::Knot, Speed::MilePerHour>("Speed");
  StaticAll<Temperature, Temperature::Celsius, Temperature::Fahrenheit>("Temperature");
  StaticAll<Temperature, Temperature::Rankine, Temperature::Kelvin>("Temperature");
  StaticAll<Time, Time::Hour, Time::Millisecond>("Time");
  StaticAll<Mass, Mass::Pound, Mass::Gram>("Mass");
  StaticAll<Pressure, Pressure::PoundPerSquareInch, Pressure::Bar>("Pressure");
  StaticAll<Energy, Energy::KilowattHour, Energy::FootPound>("Energy");
  StaticAll<Memory, Memory::Kibibyte, Memory::Bit>("Memory");
  return 0;
}
