// Differential program for the C03q refactor: exercises every Speed / ScalarAcceleration relation
// touched by the change (and their neighbours) on edge cases and random inputs, for float, double
// and long double, and prints every result as a hexfloat.
#include <PhQ/Frequency.hpp>
#include <PhQ/Length.hpp>
#include <PhQ/ScalarAcceleration.hpp>
#include <PhQ/Speed.hpp>
#include <PhQ/Time.hpp>

#include <cinttypes>
#include <cmath>
#include <cstdint>
#include <cstdio>
#include <cstring>
#include <limits>
#include <random>
#include <type_traits>
#include <vector>

namespace {

std::uint64_t digest = 1469598103934665603ULL;
std::uint64_t lines = 0;

void Mix(const char* text) {
  for (const char* c = text; *c != '\0'; ++c) {
    digest ^= static_cast<unsigned char>(*c);
    digest *= 1099511628211ULL;
  }
}

template <typename T>
void Emit(const char* tag, const bool verbose, const T value) {
  char buffer[256];
  std::snprintf(buffer, sizeof buffer, "%s %La\n", tag, static_cast<long double>(value));
  Mix(buffer);
  ++lines;
  if (verbose) {
    std::fputs(buffer, stdout);
  }
}

template <typename T>
const char* Name() {
  if (std::is_same<T, float>::value) {
    return "float";
  }
  if (std::is_same<T, double>::value) {
    return "double";
  }
  return "long double";
}

template <typename T>
void Case(const T a, const T b, const bool verbose) {
  using namespace PhQ;
  const Length<T> length(a, Unit::Length::Metre);
  const Length<T> length2(b, Unit::Length::Metre);
  const Time<T> time(b, Unit::Time::Second);
  const Time<T> time2(a, Unit::Time::Second);
  const Frequency<T> frequency(b, Unit::Frequency::Hertz);
  const Frequency<T> frequency2(a, Unit::Frequency::Hertz);
  const Speed<T> speed(a, Unit::Speed::MetrePerSecond);
  const Speed<T> speed2(b, Unit::Speed::MetrePerSecond);
  const ScalarAcceleration<T> accel(a, Unit::Acceleration::MetrePerSquareSecond);
  const ScalarAcceleration<T> accel2(b, Unit::Acceleration::MetrePerSquareSecond);

  if (verbose) {
    std::printf("# %s a=%La b=%La\n", Name<T>(), static_cast<long double>(a),
                static_cast<long double>(b));
  }

  // Speed with itself.
  Emit("S+S", verbose, (speed + speed2).Value());
  Emit("S-S", verbose, (speed - speed2).Value());
  Emit("S/S", verbose, speed / speed2);
  Emit("S2+S", verbose, (speed2 + speed).Value());
  Emit("S2-S", verbose, (speed2 - speed).Value());
  Emit("S2/S", verbose, speed2 / speed);
  Emit("S+S self", verbose, (speed + speed).Value());
  Emit("S-S self", verbose, (speed - speed).Value());
  Emit("S/S self", verbose, speed / speed);
  Emit("S*n", verbose, (speed * b).Value());
  Emit("n*S", verbose, (b * speed).Value());
  Emit("S/n", verbose, (speed / b).Value());
  {
    Speed<T> s = speed;
    s += speed2;
    Emit("S+=S", verbose, s.Value());
    s -= speed;
    Emit("S-=S", verbose, s.Value());
    s *= b;
    Emit("S*=n", verbose, s.Value());
    s /= a;
    Emit("S/=n", verbose, s.Value());
  }

  // Speed <-> Length, Time, Frequency.
  Emit("S(L,T)", verbose, Speed<T>(length, time).Value());
  Emit("S(L,F)", verbose, Speed<T>(length, frequency).Value());
  Emit("L/T", verbose, (length / time).Value());
  Emit("L*F", verbose, (length * frequency).Value());
  Emit("F*L", verbose, (frequency * length).Value());
  Emit("F2*L2", verbose, (frequency2 * length2).Value());
  Emit("L2*F2", verbose, (length2 * frequency2).Value());
  Emit("L2/T2", verbose, (length2 / time2).Value());
  Emit("L/S", verbose, (length / speed2).Value());
  Emit("S*T", verbose, (speed * time).Value());
  Emit("S/F", verbose, (speed / frequency).Value());
  Emit("S/L", verbose, (speed / length2).Value());
  Emit("L(S,T)", verbose, Length<T>(speed, time).Value());
  Emit("L(S,F)", verbose, Length<T>(speed, frequency).Value());
  Emit("T(L,S)", verbose, Time<T>(length, speed2).Value());
  Emit("F(S,L)", verbose, Frequency<T>(speed, length2).Value());

  // ScalarAcceleration with itself.
  Emit("A+A", verbose, (accel + accel2).Value());
  Emit("A-A", verbose, (accel - accel2).Value());
  Emit("A/A", verbose, accel / accel2);
  Emit("A2+A", verbose, (accel2 + accel).Value());
  Emit("A2-A", verbose, (accel2 - accel).Value());
  Emit("A2/A", verbose, accel2 / accel);
  Emit("A+A self", verbose, (accel + accel).Value());
  Emit("A-A self", verbose, (accel - accel).Value());
  Emit("A/A self", verbose, accel / accel);
  Emit("A*n", verbose, (accel * b).Value());
  Emit("n*A", verbose, (b * accel).Value());
  Emit("A/n", verbose, (accel / b).Value());
  {
    ScalarAcceleration<T> s = accel;
    s += accel2;
    Emit("A+=A", verbose, s.Value());
    s -= accel;
    Emit("A-=A", verbose, s.Value());
    s *= b;
    Emit("A*=n", verbose, s.Value());
    s /= a;
    Emit("A/=n", verbose, s.Value());
  }

  // ScalarAcceleration <-> Speed, Time, Frequency.
  Emit("A(S,T)", verbose, ScalarAcceleration<T>(speed, time).Value());
  Emit("A(S,F)", verbose, ScalarAcceleration<T>(speed, frequency).Value());
  Emit("S(A,T)", verbose, Speed<T>(accel, time).Value());
  Emit("S(A,F)", verbose, Speed<T>(accel, frequency).Value());
  Emit("T(S,A)", verbose, Time<T>(speed, accel2).Value());
  Emit("F(A,S)", verbose, Frequency<T>(accel, speed2).Value());
  Emit("F*S", verbose, (frequency * speed).Value());
  Emit("S*F", verbose, (speed * frequency).Value());
  Emit("F2*S2", verbose, (frequency2 * speed2).Value());
  Emit("S2*F2", verbose, (speed2 * frequency2).Value());
  Emit("T*A", verbose, (time * accel).Value());
  Emit("A*T", verbose, (accel * time).Value());
  Emit("T2*A2", verbose, (time2 * accel2).Value());
  Emit("A2*T2", verbose, (accel2 * time2).Value());
  Emit("S/T", verbose, (speed / time).Value());
  Emit("S/A", verbose, (speed / accel2).Value());
  Emit("A/F", verbose, (accel / frequency).Value());
  Emit("A/S", verbose, (accel / speed2).Value());

  // Chains through the forwarded operators.
  Emit("F*(F*L)", verbose, (frequency * (frequency2 * length)).Value());
  Emit("T*(F*S)", verbose, (time * (frequency * speed)).Value());
  Emit("(T*A)/(F*L)", verbose, (time * accel) / (frequency * length));
  Emit("(L/T)*F", verbose, ((length / time) * frequency).Value());
}

template <typename T>
void Units(const T a, const bool verbose) {
  using namespace PhQ;
  // Non-standard units on the way in, then through the forwarded operators.
  const Length<T> length(a, Unit::Length::Foot);
  const Time<T> time(a, Unit::Time::Minute);
  const Frequency<T> frequency(a, Unit::Frequency::Kilohertz);
  const Speed<T> speed(a, Unit::Speed::MilePerHour);
  const ScalarAcceleration<T> accel(a, Unit::Acceleration::FootPerSquareSecond);
  Emit("u F*L", verbose, (frequency * length).Value(Unit::Speed::KilometrePerHour));
  Emit("u L*F", verbose, (length * frequency).Value(Unit::Speed::KilometrePerHour));
  Emit("u L/T", verbose, (length / time).Value(Unit::Speed::Knot));
  Emit("u F*S", verbose, (frequency * speed).Value(Unit::Acceleration::FootPerSquareSecond));
  Emit("u T*A", verbose, (time * accel).Value(Unit::Speed::FootPerSecond));
  Emit("u S+S", verbose, (speed + speed).Value(Unit::Speed::MilePerHour));
  Emit("u A-A", verbose, (accel - accel * static_cast<T>(3)).Value());
}

template <typename T>
void Run(const std::uint32_t seed) {
  const T inf = std::numeric_limits<T>::infinity();
  const T nan = std::numeric_limits<T>::quiet_NaN();
  const std::vector<T> edges = {
      static_cast<T>(0),
      -static_cast<T>(0),
      static_cast<T>(1),
      static_cast<T>(-1),
      static_cast<T>(2),
      static_cast<T>(-3),
      static_cast<T>(0.1L),
      static_cast<T>(-0.3L),
      static_cast<T>(1) / static_cast<T>(3),
      std::numeric_limits<T>::min(),
      -std::numeric_limits<T>::min(),
      std::numeric_limits<T>::denorm_min(),
      -std::numeric_limits<T>::denorm_min(),
      std::numeric_limits<T>::epsilon(),
      std::numeric_limits<T>::max(),
      std::numeric_limits<T>::lowest(),
      std::sqrt(std::numeric_limits<T>::max()),
      std::sqrt(std::numeric_limits<T>::min()),
      static_cast<T>(1.0e15L),
      static_cast<T>(-1.0e-15L),
      inf,
      -inf,
      nan,
  };
  for (const T a : edges) {
    for (const T b : edges) {
      Case<T>(a, b, true);
    }
    Units<T>(a, true);
  }

  std::mt19937_64 engine(seed);
  std::uniform_real_distribution<long double> mantissa(-1.0L, 1.0L);
  std::uniform_int_distribution<int> exponent(-40, 40);
  std::uniform_int_distribution<int> wide(
      std::numeric_limits<T>::min_exponent - std::numeric_limits<T>::digits,
      std::numeric_limits<T>::max_exponent);
  for (int i = 0; i < 20000; ++i) {
    const bool use_wide = (i % 4 == 3);
    const T a = static_cast<T>(std::ldexp(mantissa(engine), use_wide ? wide(engine) : exponent(engine)));
    const T b = static_cast<T>(std::ldexp(mantissa(engine), use_wide ? wide(engine) : exponent(engine)));
    const bool verbose = i < 300;
    Case<T>(a, b, verbose);
    Units<T>(a, verbose);
  }
  std::printf("## %s digest=%016" PRIx64 " lines=%" PRIu64 "\n", Name<T>(), digest, lines);
}

}  // namespace

int main() {
  Run<float>(12345U);
  Run<double>(67890U);
  Run<long double>(424242U);
  std::printf("## final digest=%016" PRIx64 " lines=%" PRIu64 "\n", digest, lines);
  return 0;
}
