// Differential program for the C08r refactor: enumeration tables, parsing, streaming and unit
// conversions. Prints every result with full precision (hexfloat).
#include <algorithm>
#include <array>
#include <cstdint>
#include <cstdio>
#include <limits>
#include <optional>
#include <random>
#include <sstream>
#include <string>
#include <string_view>
#include <utility>
#include <vector>

#include <PhQ/Base.hpp>
#include <PhQ/ConstitutiveModel.hpp>
#include <PhQ/Dyad.hpp>
#include <PhQ/PlanarVector.hpp>
#include <PhQ/SymmetricDyad.hpp>
#include <PhQ/Unit.hpp>
#include <PhQ/Unit/Acceleration.hpp>
#include <PhQ/Unit/Angle.hpp>
#include <PhQ/Unit/AngularAcceleration.hpp>
#include <PhQ/Unit/AngularSpeed.hpp>
#include <PhQ/Unit/Area.hpp>
#include <PhQ/Unit/Diffusivity.hpp>
#include <PhQ/Unit/DynamicViscosity.hpp>
#include <PhQ/Unit/ElectricCharge.hpp>
#include <PhQ/Unit/ElectricCurrent.hpp>
#include <PhQ/Unit/Energy.hpp>
#include <PhQ/Unit/EnergyFlux.hpp>
#include <PhQ/Unit/Force.hpp>
#include <PhQ/Unit/Frequency.hpp>
#include <PhQ/Unit/HeatCapacity.hpp>
#include <PhQ/Unit/Length.hpp>
#include <PhQ/Unit/Mass.hpp>
#include <PhQ/Unit/MassDensity.hpp>
#include <PhQ/Unit/MassRate.hpp>
#include <PhQ/Unit/Memory.hpp>
#include <PhQ/Unit/MemoryRate.hpp>
#include <PhQ/Unit/Power.hpp>
#include <PhQ/Unit/Pressure.hpp>
#include <PhQ/Unit/ReciprocalTemperature.hpp>
#include <PhQ/Unit/SolidAngle.hpp>
#include <PhQ/Unit/SpecificEnergy.hpp>
#include <PhQ/Unit/SpecificHeatCapacity.hpp>
#include <PhQ/Unit/SpecificPower.hpp>
#include <PhQ/Unit/Speed.hpp>
#include <PhQ/Unit/SubstanceAmount.hpp>
#include <PhQ/Unit/Temperature.hpp>
#include <PhQ/Unit/TemperatureDifference.hpp>
#include <PhQ/Unit/TemperatureGradient.hpp>
#include <PhQ/Unit/ThermalConductivity.hpp>
#include <PhQ/Unit/Time.hpp>
#include <PhQ/Unit/TransportEnergyConsumption.hpp>
#include <PhQ/Unit/Volume.hpp>
#include <PhQ/Unit/VolumeRate.hpp>
#include <PhQ/UnitSystem.hpp>
#include <PhQ/Vector.hpp>

namespace {

// The stream operators of the unit enumerations live in namespace PhQ rather than PhQ::Unit.
using PhQ::operator<<;

std::mt19937_64 generator{20240926ULL};

// Output goes through a buffer so that long blocks can be replaced by a digest of their text.
std::string buffer;

template <typename... Arguments>
void Emit(const char* const format, const Arguments... arguments) {
  char text[512];
  const int size{std::snprintf(text, sizeof(text), format, arguments...)};
  buffer.append(text, static_cast<std::size_t>(size));
}

void Emit(const char* const text) {
  buffer.append(text);
}

// Writes the buffered text in full, or a 64-bit FNV-1a digest of it.
void Flush(const bool full) {
  if (full) {
    std::fwrite(buffer.data(), 1, buffer.size(), stdout);
  } else {
    std::uint64_t digest{14695981039346656037ULL};
    for (const char character : buffer) {
      digest ^= static_cast<unsigned char>(character);
      digest *= 1099511628211ULL;
    }
    std::printf("digest %zu %016llx\n", buffer.size(), static_cast<unsigned long long>(digest));
  }
  buffer.clear();
}

void PrintNumber(const float value) {
  Emit(" %a", static_cast<double>(value));
}
void PrintNumber(const double value) {
  Emit(" %a", value);
}
void PrintNumber(const long double value) {
  Emit(" %La", value);
}

template <typename Container>
void PrintNumbers(const Container& values) {
  for (const auto value : values) {
    PrintNumber(value);
  }
}

template <typename T>
const char* TypeName();
template <>
const char* TypeName<float>() {
  return "f";
}
template <>
const char* TypeName<double>() {
  return "d";
}
template <>
const char* TypeName<long double>() {
  return "l";
}

std::string Quote(const std::string_view text) {
  std::string result{"\""};
  result += text;
  result += "\"";
  return result;
}

// Strings that may or may not be accepted spellings.
std::vector<std::string> OtherStrings(const std::vector<std::string>& spellings) {
  std::vector<std::string> result{"",    " ",   "?",     "unit", "M",   "KG",  "sr ", " sr",
                                  "Sr",  "SR",  "rad^3", "kn",   "kt",  "nmi/hr", "nmi/h",
                                  "m",   "kg",  "s",     "K",    "mol", "A",   "cd",  "B",
                                  "b",   "°",   "·",     "m·kg", "in",  "ft",  "mm",  "g"};
  const std::string alphabet{"abcdefghijklmnopqrstuvwxyzABCDEFGHIJKLMNOPQRSTUVWXYZ0123456789^/*- ()"};
  std::uniform_int_distribution<std::size_t> length{1, 6};
  std::uniform_int_distribution<std::size_t> letter{0, alphabet.size() - 1};
  for (int count = 0; count < 40; ++count) {
    std::string text;
    const std::size_t size{length(generator)};
    for (std::size_t index = 0; index < size; ++index) {
      text += alphabet[letter(generator)];
    }
    result.push_back(text);
  }
  // Perturbations of accepted spellings.
  for (std::size_t index = 0; index < spellings.size(); index += 3) {
    const std::string& spelling{spellings[index]};
    result.push_back(spelling + " ");
    result.push_back(" " + spelling);
    result.push_back(PhQ::Uppercase(spelling));
    result.push_back(PhQ::Lowercase(spelling));
    result.push_back(spelling.substr(0, spelling.size() / 2));
    result.push_back(spelling + spelling);
  }
  return result;
}

template <typename Enumeration>
std::string Streamed(const Enumeration enumeration) {
  std::ostringstream stream;
  stream << enumeration;
  return stream.str();
}

// ConstitutiveModel::Type has no stream operator of its own: the model itself streams.
template <>
std::string Streamed(const PhQ::ConstitutiveModel::Type type) {
  return std::string{PhQ::Abbreviation(type)};
}

template <typename Enumeration>
void TestTables(const char* const name) {
  std::printf("== tables %s\n", name);
  std::printf("abbreviations %zu spellings %zu\n", PhQ::Internal::Abbreviations<Enumeration>.size(),
              PhQ::Internal::Spellings<Enumeration>.size());
  for (const auto& entry : PhQ::Internal::Abbreviations<Enumeration>) {
    const Enumeration enumeration{entry.first};
    const std::string_view abbreviation{PhQ::Abbreviation(enumeration)};
    const std::optional<Enumeration> parsed{PhQ::ParseEnumeration<Enumeration>(abbreviation)};
    std::printf("enum %d abbr %s stream %s parse %d\n", static_cast<int>(enumeration),
                Quote(abbreviation).c_str(), Quote(Streamed(enumeration)).c_str(),
                parsed.has_value() ? static_cast<int>(parsed.value()) : -1);
  }
  std::vector<std::string> spellings;
  for (const auto& entry : PhQ::Internal::Spellings<Enumeration>) {
    spellings.emplace_back(entry.first);
  }
  std::sort(spellings.begin(), spellings.end());
  for (const std::string& spelling : spellings) {
    const std::optional<Enumeration> parsed{PhQ::ParseEnumeration<Enumeration>(spelling)};
    std::printf("spelling %s -> %d", Quote(spelling).c_str(),
                parsed.has_value() ? static_cast<int>(*parsed) : -1);
    if (parsed.has_value()) {
      std::printf(" %s", Quote(PhQ::Abbreviation(*parsed)).c_str());
    }
    std::printf("\n");
  }
  for (const std::string& text : OtherStrings(spellings)) {
    const std::optional<Enumeration> parsed{PhQ::ParseEnumeration<Enumeration>(text)};
    std::printf("other %s -> %d\n", Quote(text).c_str(),
                parsed.has_value() ? static_cast<int>(parsed.value()) : -1);
  }
}

template <typename T>
std::vector<T> ScalarInputs() {
  using Limits = std::numeric_limits<T>;
  std::vector<T> values{static_cast<T>(0.0L),
                        -static_cast<T>(0.0L),
                        static_cast<T>(1.0L),
                        static_cast<T>(-1.0L),
                        static_cast<T>(1.234567890123456789L),
                        static_cast<T>(-273.15L),
                        static_cast<T>(459.67L),
                        static_cast<T>(1.0e-30L),
                        static_cast<T>(-1.0e30L),
                        Limits::min(),
                        Limits::denorm_min(),
                        -Limits::denorm_min(),
                        Limits::max(),
                        Limits::lowest(),
                        Limits::epsilon(),
                        Limits::infinity(),
                        -Limits::infinity()};
  std::uniform_real_distribution<long double> mantissa{-10.0L, 10.0L};
  std::uniform_int_distribution<int> exponent{-30, 30};
  for (int count = 0; count < 8; ++count) {
    long double value{mantissa(generator)};
    const int power{exponent(generator)};
    for (int index = 0; index < power; ++index) {
      value *= 10.0L;
    }
    for (int index = 0; index > power; --index) {
      value /= 10.0L;
    }
    values.push_back(static_cast<T>(value));
  }
  return values;
}

template <typename T>
T RandomValue() {
  static const std::vector<T> special{static_cast<T>(0.0L), -static_cast<T>(0.0L),
                                      std::numeric_limits<T>::denorm_min(),
                                      std::numeric_limits<T>::max(), static_cast<T>(1.0L)};
  std::uniform_int_distribution<int> choice{0, 9};
  const int chosen{choice(generator)};
  if (chosen < static_cast<int>(special.size())) {
    return special[static_cast<std::size_t>(chosen)];
  }
  std::uniform_real_distribution<long double> mantissa{-1000.0L, 1000.0L};
  return static_cast<T>(mantissa(generator));
}

template <typename T, std::size_t Size>
std::array<T, Size> RandomArray() {
  std::array<T, Size> result{};
  for (T& value : result) {
    value = RandomValue<T>();
  }
  return result;
}

template <typename U, typename T>
void TestConversions(const char* const name) {
  std::printf("== conversions %s %s\n", name, TypeName<T>());
  std::vector<U> units;
  for (const auto& entry : PhQ::Internal::MapOfConversionsToStandard<U, T>) {
    units.push_back(entry.first);
  }
  std::printf("to %zu from %zu standard %d\n", PhQ::Internal::MapOfConversionsToStandard<U, T>.size(),
              PhQ::Internal::MapOfConversionsFromStandard<U, T>.size(),
              static_cast<int>(PhQ::Standard<U>));
  for (const auto& entry : PhQ::Internal::MapOfConversionsFromStandard<U, T>) {
    std::printf(" %d", static_cast<int>(entry.first));
  }
  std::printf("\n");
  const std::vector<T> inputs{ScalarInputs<T>()};
  for (const U from : units) {
    for (const U to : units) {
      Emit("%d>%d:", static_cast<int>(from), static_cast<int>(to));
      // Scalars: by value and in place.
      for (const T input : inputs) {
        PrintNumber(PhQ::Convert(input, from, to));
        T in_place{input};
        PhQ::ConvertInPlace(in_place, from, to);
        PrintNumber(in_place);
      }
      Emit("\n a:");
      {
        const std::array<T, 1> one{RandomArray<T, 1>()};
        PrintNumbers(PhQ::Convert(one, from, to));
        const std::array<T, 4> four{RandomArray<T, 4>()};
        PrintNumbers(PhQ::Convert(four, from, to));
        std::array<T, 5> five{RandomArray<T, 5>()};
        PhQ::ConvertInPlace(five, from, to);
        PrintNumbers(five);
        std::array<T, 0> none{};
        PhQ::ConvertInPlace(none, from, to);
        Emit(" |%zu", PhQ::Convert(none, from, to).size());
      }
      Emit("\n v:");
      {
        std::uniform_int_distribution<std::size_t> length{0, 7};
        std::vector<T> values(length(generator));
        for (T& value : values) {
          value = RandomValue<T>();
        }
        const std::vector<T> converted{PhQ::Convert(values, from, to)};
        Emit(" |%zu", converted.size());
        PrintNumbers(converted);
        PhQ::ConvertInPlace(values, from, to);
        PrintNumbers(values);
      }
      Emit("\n s:");
      {
        PhQ::PlanarVector<T> planar_vector{RandomArray<T, 2>()};
        PrintNumbers(PhQ::Convert(planar_vector, from, to).x_y());
        PhQ::ConvertInPlace(planar_vector, from, to);
        PrintNumbers(planar_vector.x_y());
        PhQ::Vector<T> vector{RandomArray<T, 3>()};
        PrintNumbers(PhQ::Convert(vector, from, to).x_y_z());
        PhQ::ConvertInPlace(vector, from, to);
        PrintNumbers(vector.x_y_z());
        PhQ::SymmetricDyad<T> symmetric_dyad{RandomArray<T, 6>()};
        PrintNumbers(PhQ::Convert(symmetric_dyad, from, to).xx_xy_xz_yy_yz_zz());
        PhQ::ConvertInPlace(symmetric_dyad, from, to);
        PrintNumbers(symmetric_dyad.xx_xy_xz_yy_yz_zz());
        PhQ::Dyad<T> dyad{RandomArray<T, 9>()};
        PrintNumbers(PhQ::Convert(dyad, from, to).xx_xy_xz_yx_yy_yz_zx_zy_zz());
        PhQ::ConvertInPlace(dyad, from, to);
        PrintNumbers(dyad.xx_xy_xz_yx_yy_yz_zx_zy_zz());
      }
      Emit("\n");
      Flush(from == PhQ::Standard<U> || to == PhQ::Standard<U> || from == to);
    }
  }
}

template <typename U>
void TestUnit(const char* const name) {
  TestTables<U>(name);
  std::printf("dimensions %s %s\n", name, PhQ::RelatedDimensions<U>.Print().c_str());
  for (const auto& entry : PhQ::Internal::ConsistentUnits<U>) {
    std::printf("consistent %d -> %d\n", static_cast<int>(entry.first),
                static_cast<int>(PhQ::ConsistentUnit<U>(entry.first)));
  }
  for (const auto& entry : PhQ::Internal::Abbreviations<U>) {
    const std::optional<PhQ::UnitSystem> system{PhQ::RelatedUnitSystem(entry.first)};
    std::printf("related %d -> %d\n", static_cast<int>(entry.first),
                system.has_value() ? static_cast<int>(system.value()) : -1);
  }
  TestConversions<U, float>(name);
  TestConversions<U, double>(name);
  TestConversions<U, long double>(name);
}

// Static conversions between every pair of units of a type whose enumerators are 0 .. Count - 1.
template <typename U, int From, int To, typename T>
void TestStaticPair() {
  constexpr U from{static_cast<U>(From)};
  constexpr U to{static_cast<U>(To)};
  Emit("static %d>%d %s:", From, To, TypeName<T>());
  for (const T input : ScalarInputs<T>()) {
    PrintNumber(PhQ::ConvertStatically<U, from, to>(input));
  }
  PrintNumbers(PhQ::ConvertStatically<U, from, to>(RandomArray<T, 1>()));
  PrintNumbers(PhQ::ConvertStatically<U, from, to>(RandomArray<T, 7>()));
  Emit(" |%zu", PhQ::ConvertStatically<U, from, to>(std::array<T, 0>{}).size());
  PrintNumbers(PhQ::ConvertStatically<U, from, to>(PhQ::PlanarVector<T>{RandomArray<T, 2>()}).x_y());
  PrintNumbers(PhQ::ConvertStatically<U, from, to>(PhQ::Vector<T>{RandomArray<T, 3>()}).x_y_z());
  PrintNumbers(PhQ::ConvertStatically<U, from, to>(PhQ::SymmetricDyad<T>{RandomArray<T, 6>()})
                   .xx_xy_xz_yy_yz_zz());
  PrintNumbers(PhQ::ConvertStatically<U, from, to>(PhQ::Dyad<T>{RandomArray<T, 9>()})
                   .xx_xy_xz_yx_yy_yz_zx_zy_zz());
  Emit("\n");
  Flush(true);
}

template <typename U, int From, int... To>
void TestStaticRow(std::integer_sequence<int, To...> /*unused*/) {
  (TestStaticPair<U, From, To, float>(), ...);
  (TestStaticPair<U, From, To, double>(), ...);
  (TestStaticPair<U, From, To, long double>(), ...);
}

template <typename U, int... From>
void TestStaticAll(const char* const name, std::integer_sequence<int, From...> sequence) {
  std::printf("== static %s\n", name);
  (TestStaticRow<U, From>(sequence), ...);
}

// The static conversions must remain usable in constant expressions.
constexpr std::array<double, 3> StaticArray{
  PhQ::ConvertStatically<PhQ::Unit::SolidAngle, PhQ::Unit::SolidAngle::SquareDegree,
                         PhQ::Unit::SolidAngle::SquareArcminute>(
      std::array<double, 3>{1.0, -2.5, 0.0})};
constexpr float StaticScalar{
  PhQ::ConvertStatically<PhQ::Unit::Speed, PhQ::Unit::Speed::Knot,
                         PhQ::Unit::Speed::MetrePerSecond>(3.0F)};
constexpr PhQ::Vector<long double> StaticVector{
  PhQ::ConvertStatically<PhQ::Unit::Length, PhQ::Unit::Length::Mile, PhQ::Unit::Length::Foot>(
      PhQ::Vector<long double>{1.0L, 2.0L, -3.0L})};

}  // namespace

int main() {
  TestTables<PhQ::UnitSystem>("UnitSystem");
  TestTables<PhQ::ConstitutiveModel::Type>("ConstitutiveModel::Type");

  TestUnit<PhQ::Unit::Acceleration>("Acceleration");
  TestUnit<PhQ::Unit::Angle>("Angle");
  TestUnit<PhQ::Unit::AngularAcceleration>("AngularAcceleration");
  TestUnit<PhQ::Unit::AngularSpeed>("AngularSpeed");
  TestUnit<PhQ::Unit::Area>("Area");
  TestUnit<PhQ::Unit::Diffusivity>("Diffusivity");
  TestUnit<PhQ::Unit::DynamicViscosity>("DynamicViscosity");
  TestUnit<PhQ::Unit::ElectricCharge>("ElectricCharge");
  TestUnit<PhQ::Unit::ElectricCurrent>("ElectricCurrent");
  TestUnit<PhQ::Unit::Energy>("Energy");
  TestUnit<PhQ::Unit::EnergyFlux>("EnergyFlux");
  TestUnit<PhQ::Unit::Force>("Force");
  TestUnit<PhQ::Unit::Frequency>("Frequency");
  TestUnit<PhQ::Unit::HeatCapacity>("HeatCapacity");
  TestUnit<PhQ::Unit::Length>("Length");
  TestUnit<PhQ::Unit::Mass>("Mass");
  TestUnit<PhQ::Unit::MassDensity>("MassDensity");
  TestUnit<PhQ::Unit::MassRate>("MassRate");
  TestUnit<PhQ::Unit::Memory>("Memory");
  TestUnit<PhQ::Unit::MemoryRate>("MemoryRate");
  TestUnit<PhQ::Unit::Power>("Power");
  TestUnit<PhQ::Unit::Pressure>("Pressure");
  TestUnit<PhQ::Unit::ReciprocalTemperature>("ReciprocalTemperature");
  TestUnit<PhQ::Unit::SolidAngle>("SolidAngle");
  TestUnit<PhQ::Unit::SpecificEnergy>("SpecificEnergy");
  TestUnit<PhQ::Unit::SpecificHeatCapacity>("SpecificHeatCapacity");
  TestUnit<PhQ::Unit::SpecificPower>("SpecificPower");
  TestUnit<PhQ::Unit::Speed>("Speed");
  TestUnit<PhQ::Unit::SubstanceAmount>("SubstanceAmount");
  TestUnit<PhQ::Unit::Temperature>("Temperature");
  TestUnit<PhQ::Unit::TemperatureDifference>("TemperatureDifference");
  TestUnit<PhQ::Unit::TemperatureGradient>("TemperatureGradient");
  TestUnit<PhQ::Unit::ThermalConductivity>("ThermalConductivity");
  TestUnit<PhQ::Unit::Time>("Time");
  TestUnit<PhQ::Unit::TransportEnergyConsumption>("TransportEnergyConsumption");
  TestUnit<PhQ::Unit::Volume>("Volume");
  TestUnit<PhQ::Unit::VolumeRate>("VolumeRate");

  TestStaticAll<PhQ::Unit::SolidAngle>("SolidAngle", std::make_integer_sequence<int, 4>{});
  TestStaticAll<PhQ::Unit::Angle>("Angle", std::make_integer_sequence<int, 5>{});
  TestStaticAll<PhQ::Unit::Temperature>("Temperature", std::make_integer_sequence<int, 4>{});

  std::printf("== constexpr\n");
  PrintNumbers(StaticArray);
  PrintNumber(StaticScalar);
  PrintNumbers(StaticVector.x_y_z());
  Emit("\n");
  Flush(true);

  // Streaming of unit systems and of units into a wider stream expression.
  using PhQ::operator<<;
  std::ostringstream stream;
  stream << PhQ::UnitSystem::FootPoundSecondRankine << " / " << PhQ::Unit::SolidAngle::Steradian
         << " / " << PhQ::Unit::Speed::Knot << " / "
         << PhQ::ParseEnumeration<PhQ::Unit::SolidAngle>("rad^2").value() << " / "
         << PhQ::ParseEnumeration<PhQ::Unit::Speed>("nmi/hr").value();
  std::printf("%s\n", stream.str().c_str());
  return 0;
}
