"""C11 — the angle between two vectors is always a real number in [0, pi]."""
import re
import sympy

from .. import facts, ev, nf, relations, shapes, cg
from ..facts import short, strip_cvref
from ..frontend import NUMERIC
from .c09 import TA


def subterms(t, pred, acc):
    if isinstance(t, tuple) and t:
        if pred(t):
            acc.append(t)
        for x in t:
            subterms(x, pred, acc)
    elif isinstance(t, ev.Obj):
        for v in t.f.values():
            subterms(v, pred, acc)
    elif isinstance(t, ev.Arr):
        for v in t.items:
            subterms(v, pred, acc)
    return acc


def const_value(t):
    if isinstance(t, int):
        return t
    if isinstance(t, tuple) and t and t[0] == "c":
        return t[1]
    if isinstance(t, tuple) and t and t[0] == "neg":
        v = const_value(t[1])
        return None if v is None else -v
    if isinstance(t, tuple) and t and t[0] == "cast":
        return const_value(t[2])
    return None


def in_unit_range(arg):
    """Is the acos argument of a form whose floating-point value is provably in [-1, 1]?  Returns (ok, inner, why)."""
    if isinstance(arg, tuple) and arg and arg[0] == "fn":
        if arg[1] == "clamp" and len(arg) == 5:
            lo, hi = const_value(arg[3]), const_value(arg[4])
            if lo is not None and hi is not None and -1 <= lo <= hi <= 1:
                return True, arg[2], "std::clamp(x, %s, %s)" % (lo, hi)
            return False, arg[2], "clamp bounds %s, %s are not constants inside [-1, 1]" % (ev.show(arg[3]), ev.show(arg[4]))
        if arg[1] in ("min", "fmin") and len(arg) == 4:
            for a, b in ((arg[2], arg[3]), (arg[3], arg[2])):
                hi = const_value(b)
                if hi is not None and hi <= 1 and isinstance(a, tuple) and a[0] == "fn" and a[1] in ("max", "fmax"):
                    for c, d in ((a[2], a[3]), (a[3], a[2])):
                        lo = const_value(d)
                        if lo is not None and lo >= -1:
                            return True, c, "min(max(x, %s), %s)" % (lo, hi)
        if arg[1] in ("max", "fmax") and len(arg) == 4:
            for a, b in ((arg[2], arg[3]), (arg[3], arg[2])):
                lo = const_value(b)
                if lo is not None and lo >= -1 and isinstance(a, tuple) and a[0] == "fn" and a[1] in ("min", "fmin"):
                    for c, d in ((a[2], a[3]), (a[3], a[2])):
                        hi = const_value(d)
                        if hi is not None and hi <= 1:
                            return True, c, "max(min(x, %s), %s)" % (hi, lo)
    if isinstance(arg, tuple) and arg and arg[0] == "g":
        # conditional saturation in any spelling (x < -1 ? -1 : (1 < x ? 1 : x), if/else chains, early returns ...):
        # case analysis over the comparisons with constants that guard each leaf
        ok, inner = _cases_in_range(arg, [])
        if ok:
            return True, inner, "saturating branches (every leaf is a constant in [-1, 1] or is guarded on both sides)"
    v = const_value(arg)
    if v is not None:
        return (-1 <= v <= 1), arg, "constant"
    return False, arg, "the argument is %s: its real range is [-1, 1] by Cauchy-Schwarz, but rounding can leave it just outside, where acos is NaN" % _shape(arg)


def _strip_casts(t):
    while isinstance(t, tuple) and t and t[0] == "cast":
        t = t[2]
    return t


def _cases_in_range(t, facts_):
    """t: tree of conditionals. facts_: list of (term, op, constant) known true on this path (negated comparisons are
    stored with the complementary operator, which is what they mean for non-NaN values; a NaN passes through every
    spelling of a clamp, std::clamp included).  Returns (ok, the clamped inner term or None)."""
    if isinstance(t, tuple) and t and t[0] == "g":
        c = t[1]
        add_t, add_f = [], []
        if isinstance(c, tuple) and c[0] == "cmp":
            op, x, y = c[1], c[2], c[3]
            kx, ky = const_value(x), const_value(y)
            if ky is not None and kx is None:
                add_t.append((_strip_casts(x), op, ky))
                add_f.append((_strip_casts(x), NEGATE[op], ky))
            elif kx is not None and ky is None:
                add_t.append((_strip_casts(y), FLIP[op], kx))
                add_f.append((_strip_casts(y), NEGATE[FLIP[op]], kx))
        ok1, in1 = _cases_in_range(t[2], facts_ + add_t)
        ok2, in2 = _cases_in_range(t[3], facts_ + add_f)
        return (ok1 and ok2), (in1 if in1 is not None else in2)
    v = const_value(t)
    if v is not None:
        return (-1 <= v <= 1), None
    x = _strip_casts(t)
    lower = any(term == x and ((op in (">=", ">") and k >= -1)) for term, op, k in facts_)
    upper = any(term == x and ((op in ("<=", "<") and k <= 1)) for term, op, k in facts_)
    if lower and upper:
        return True, t
    ok, inner, _why = in_unit_range(t) if isinstance(t, tuple) and t and t[0] == "fn" else (False, None, "")
    return ok, inner


NEGATE = {"<": ">=", ">=": "<", ">": "<=", "<=": ">", "==": "!=", "!=": "=="}
FLIP = {"<": ">", ">": "<", "<=": ">=", ">=": "<=", "==": "==", "!=": "!="}


def _is_plain(t):
    return not (isinstance(t, tuple) and t and t[0] in ("g", "fn"))


def _one_sided(c, va, b):
    return False, b, "one-sided saturation"


def _shape(arg):
    if isinstance(arg, tuple) and arg:
        if arg[0] == "div":
            return "an unclamped quotient dot/(|a||b|)"
        if arg[0] == "add":
            return "an unclamped dot product"
    return "unclamped (%s)" % ev.show(arg)[:80]


def degrees(t, deg_of_leaf, acc):
    """Homogeneity degree of every sub-term under a uniform scaling of the (non-direction) inputs; returns the
    degree of t (a Fraction) or None when the sub-term is not homogeneous. acc collects (degree, subterm)."""
    from fractions import Fraction as Fr
    if isinstance(t, int):
        return Fr(0)
    if not isinstance(t, tuple) or not t:
        return None
    k = t[0]
    if k in ("c", "pi"):
        d = Fr(0)
    elif k == "leaf":
        d = Fr(deg_of_leaf(t[1]))
    elif k in ("add", "sub"):
        a, b = degrees(t[1], deg_of_leaf, acc), degrees(t[2], deg_of_leaf, acc)
        d = a if a == b else (a if b is None else (b if a is None else max(a, b)))
    elif k == "mul":
        a, b = degrees(t[1], deg_of_leaf, acc), degrees(t[2], deg_of_leaf, acc)
        d = None if a is None or b is None else a + b
    elif k == "div":
        a, b = degrees(t[1], deg_of_leaf, acc), degrees(t[2], deg_of_leaf, acc)
        d = None if a is None or b is None else a - b
    elif k in ("neg", "cast"):
        d = degrees(t[-1], deg_of_leaf, acc)
    elif k == "fn" and t[1] == "sqrt":
        a = degrees(t[2], deg_of_leaf, acc)
        d = None if a is None else a / 2
    elif k == "fn" and t[1] == "pow" and len(t) == 4:
        a = degrees(t[2], deg_of_leaf, acc)
        e = const_value(t[3])
        d = None if a is None or e is None else a * e
    elif k == "fn" and t[1] in ("clamp", "min", "max", "abs", "fmin", "fmax"):
        d = degrees(t[2], deg_of_leaf, acc)
        for x in t[3:]:
            degrees(x, deg_of_leaf, acc)
    elif k == "fn":
        for x in t[2:]:
            degrees(x, deg_of_leaf, acc)
        d = Fr(0)
    elif k == "g":
        degrees(t[1], deg_of_leaf, acc)
        d = degrees(t[2], deg_of_leaf, acc)
        degrees(t[3], deg_of_leaf, acc)
    elif k == "cmp":
        degrees(t[2], deg_of_leaf, acc)
        degrees(t[3], deg_of_leaf, acc)
        d = Fr(0)
    else:
        d = None
    if d is not None:
        acc.append((d, t))
    return d


def operand_kind(t):
    t = strip_cvref(t)
    return "direction" if re.match(r"PhQ::(Planar)?Direction<", t) else "vector"


def run(chk):
    chk.level = "other"
    chk.technique = ("interval/shape rule on every std::acos reachable from the angle kernels: the argument must be dominated by a clamp "
                     "(or min/max/saturation) into [-1,1] under floating-point evaluation; the clamped expression is compared algebraically "
                     "with dot/(|a||b|); quantity-level angle constructors/members are shown to delegate to the kernels")
    chk.rule("R1", "the argument of every std::acos reachable from an angle kernel is provably in [-1, 1] in floating point (clamp / min-max / saturation)")
    chk.rule("R2", "the clamped expression equals dot(a,b)/(|a||b|) (no division by the norm of a direction operand): symmetric, scale-free, 1 on parallel and -1 on antiparallel inputs")
    chk.rule("R4", "no intermediate of an angle computation grows faster than the squared operand lengths (homogeneity degree within [-2, 2]): "
                   "inside the range where squared lengths neither overflow nor underflow nothing else does")
    chk.rule("R3", "every quantity-level Angle(Q, Q) constructor and Angle() member evaluates to the kernel applied to the operands' stored vectors, in order")
    chk.assumptions += ["with the argument in [-1, 1] (and not NaN), acos returns a non-NaN value in [0, pi] (libm contract)",
                        "non-zero finite inputs whose squared norms neither overflow nor underflow",
                        "agreement with atan2(|a x b|, a.b) to 1e-7 rad (conditioning of acos) is NOT decided"]
    n_k = n_q = 0
    for T in NUMERIC:
        F = facts.load(T, chk.tier)
        ang = "PhQ::Angle<%s>" % T
        kernels = {}
        # every function of the library that calls acos directly must be examined
        acos_callers = []
        for f in F.fns.values():
            if "body" not in f:
                continue
            for i in cg.callees(f):
                g = F.fns.get(i)
                if g is not None and g.get("extern") and g["sname"] in ("acos", "acosf", "acosl"):
                    acos_callers.append(f)
                    break
        if not acos_callers:
            chk.inconclusive("R1", "acos callers <%s>" % T, "no function calls std::acos (anchor vanished)", "")
        rels = relations.relations(F)
        def vecs(r):
            ts = ([F.T(r.f["parent"])] if r.kind == "member" else []) + F.param_types(r.f)
            return len(ts) == 2 and all(shapes.shape_of_type(F, t) in ("planar", "vector") for t in ts)
        cands = [r for r in rels if ((r.kind == "ctor" and r.this_q == ang) or (r.kind == "member" and r.f["sname"] == "Angle" and r.ret_q == ang)) and vecs(r)]
        # also the Angle members of the raw tensor classes (Vector::Angle etc.) which are not quantity relations
        for cls in ("Vector", "PlanarVector"):
            for f in F.methods("PhQ::%s<%s>" % (cls, T), "Angle"):
                if "body" in f:
                    r = relations.Rel(f, "member")
                    r.this_q, r.ret_q, r.arg_q = "raw", ang, ["raw"]
                    cands.append(r)
        reach_acos = set()
        for r in cands:
            f = r.f
            ptypes = ([F.T(f["parent"])] if r.kind == "member" else []) + F.param_types(f)
            sig = "%s(%s)" % (f["name"], ", ".join(strip_cvref(t).replace("PhQ::", "") for t in F.param_types(f)))
            loc = short(f.get("def_loc", f["loc"]))
            is_kernel = all(shapes.shape_of_type(F, t) in ("planar", "vector") and re.match(r"PhQ::(Planar)?(Vector|Direction)<", strip_cvref(t)) for t in ptypes)
            try:
                E = ev.Evaluator(F)
                if r.kind == "member":
                    res, this_lv, _ = E.run_symbolic(f, this_prefix="p0", arg_prefixes=["p1"])
                    val = E.rv(res)
                else:
                    res, this_lv, _ = E.run_symbolic(f, arg_prefixes=["p0", "p1"])
                    val = E.load(this_lv)
                reach_acos |= cg.reachable(F, [f["id"]])
                flat = ev.flatten(val)
                term = flat[0][1]
                ac = subterms(term, lambda t: t[0] == "fn" and t[1] == "acos", [])
                if len(flat) == 1 and isinstance(term, tuple) and term[:2] == ("fn", "atan2") and len(term) == 4:
                    # the alternative formulation atan2(|a x b|, a . b): in [0, pi] iff the first argument cannot be negative
                    from .. import errdom
                    conv = nf.Conv(positive=False)
                    E0 = ev.Evaluator(F)
                    ops = [shapes.to_sympy(conv, F, t, E0.symbolic(t, "p%d" % i))[0] for i, t in enumerate(ptypes)]
                    A, B = ops
                    cr = TA.cross(A, B)
                    wy2, wx = TA.dot(cr, cr), TA.dot(A, B)
                    na, nb = sympy.sqrt(TA.dot(A, A)), sympy.sqrt(TA.dot(B, B))
                    okf, bad_sign, y, x = True, None, term[2], term[3]
                    # conditionals inside the arguments (the zero-vector branch of a normalisation, ...) are resolved by case analysis:
                    # the formula must be the right one in every case
                    for _asm, tcase in ev.cases(term):
                        y, x = tcase[2], tcase[3]
                        signs = {n: "?" for n in ev.leaves(tcase)}
                        _b, sy = errdom.err(y, T, signs)
                        if sy not in ("+", "0"):
                            bad_sign = y
                            break
                        if any(c[0] == "cmp" and not tr for c, tr in _asm) and (y in (0, ev.ZERO) or nf.is_zero(conv(y))):
                            continue        # the degenerate branch (a zero cross product / zero operand): atan2(0, .) is what atan2(|a x b|, a.b) gives there
                        if not any(nf.equal(conv(y) ** 2, wy2 * k ** 2) and nf.equal(conv(x), wx * k) for k in (1, 1 / (na * nb), 1 / na, 1 / nb)):
                            okf = False
                            break
                    if bad_sign is not None:
                        chk.violated("R1", sig, "atan2(y, x) with y = %s of unknown sign: the result lies in (-pi, pi], not in [0, pi], and is not symmetric in the arguments" % ev.show(bad_sign)[:120], loc)
                        continue
                    if okf:
                        chk.holds("R1", sig, "atan2 of a non-negative first argument: value in [0, pi]", loc)
                        chk.holds("R2", sig, "atan2(|a x b|, a . b) up to a common positive factor", loc)
                    else:
                        chk.violated("R2", sig, "atan2(%s, %s) is not atan2(|a x b|, a . b)" % (ev.show(y)[:80], ev.show(x)[:80]), loc)
                    continue
                if len(flat) != 1 or not (isinstance(term, tuple) and term[:2] == ("fn", "acos")) or len(ac) != 1:
                    chk.violated("R2", sig, "the angle is not a single arc cosine: %s" % ev.show(term)[:200], loc)
                    continue
                ok, inner, why = in_unit_range(term[2])
                if ok:
                    chk.holds("R1", sig, why, loc)
                else:
                    chk.violated("R1", sig, "acos(%s): %s" % (ev.show(term[2])[:160], why), loc)
                # R2 formula
                conv = nf.Conv(positive=False)
                E0 = ev.Evaluator(F)
                ops = []
                for i, t in enumerate(ptypes):
                    m, s = shapes.to_sympy(conv, F, t, E0.symbolic(t, "p%d" % i))
                    ops.append((m, operand_kind(t)))
                (A, ka), (B, kb) = ops
                want = TA.dot(A, B)
                if ka == "vector":
                    want = want / sympy.sqrt(TA.dot(A, A))
                if kb == "vector":
                    want = want / sympy.sqrt(TA.dot(B, B))
                got = conv(inner)
                if nf.equal(got, want) or sympy.simplify(got - want) == 0:
                    chk.holds("R2", sig, "cosine = a.b%s%s" % ("/|a|" if ka == "vector" else "", "/|b|" if kb == "vector" else ""), loc)
                else:
                    chk.violated("R2", sig, "cosine computed as %s, expected %s" % (sympy.simplify(got), sympy.simplify(want)), loc, witness=nf.witness(got, want))
                # R4: no intermediate of degree > 2 (or < -2) in the lengths of the vector operands
                dir_prefixes = {"p%d" % i for i, t in enumerate(ptypes) if operand_kind(t) == "direction"}
                acc = []
                degrees(term, lambda name: 0 if name.split(".")[0] in dir_prefixes else 1, acc)
                worst = max(acc, key=lambda x: abs(x[0])) if acc else (0, None)
                if abs(worst[0]) > 2:
                    chk.violated("R4", sig, "an intermediate value scales with the %s power of the operand lengths (%s): it overflows or underflows although the squared lengths do not, so the angle depends on the lengths / can be NaN inside the stated range" % (worst[0], ev.show(worst[1])[:160]), loc)
                else:
                    chk.holds("R4", sig, "all intermediates have degree within [-2, 2] in the operand lengths", loc)
                if is_kernel:
                    n_k += 1
                    kernels[tuple(re.sub(r"<.*", "", strip_cvref(t)) for t in ptypes)] = term
                else:
                    n_q += 1
                    # R3: delegation = same term as the kernel on the stored vectors (leaf names coincide by construction)
                    kshape = []
                    for t in ptypes:
                        st = strip_cvref(t)
                        if re.match(r"PhQ::(Planar)?Direction<", st):
                            kshape.append(re.sub(r"<.*", "", st))
                        else:
                            kshape.append("PhQ::PlanarVector" if shapes.shape_of_type(F, t) == "planar" else "PhQ::Vector")
                    k = find_kernel(F, T, kshape)
                    if k is None:
                        chk.inconclusive("R3", sig, "no kernel Angle(%s)" % kshape, loc)
                        continue
                    E2 = ev.Evaluator(F)
                    argv = []
                    for i, (t, kt) in enumerate(zip(ptypes, kshape)):
                        st = strip_cvref(t)
                        if re.match(r"PhQ::(Planar)?(Direction|Vector)<", st):
                            v = E2.symbolic(st, "p%d" % i)
                        else:
                            v = E2.symbolic("%s<%s>" % (kt, T), "p%d.value" % i)
                        argv.append(E2.new_loc(v, "arg"))
                    this2 = E2.new_loc(E2.blank(ang), "this")
                    E2.call(k["id"], this2, argv)
                    kterm = ev.flatten(E2.load(this2))[0][1]
                    if kterm == term:
                        chk.holds("R3", sig, "same term as %s" % k["name"], loc)
                    else:
                        chk.violated("R3", sig, "computes %s but the kernel on the stored vectors gives %s" % (ev.show(term)[:200], ev.show(kterm)[:200]), loc)
            except ev.Inconclusive as x:
                chk.inconclusive("R1", sig, str(x), loc)
        for f in acos_callers:
            if f["id"] not in reach_acos:
                # a direct acos caller not reached from any angle function: examine it on its own
                sig = f["name"]
                try:
                    E = ev.Evaluator(F)
                    res, this_lv, _ = E.run_symbolic(f)
                    val = E.rv(res) if res is not None else (E.load(this_lv) if this_lv else None)
                    for t in subterms(val, lambda t: t[0] == "fn" and t[1] == "acos", []):
                        ok, inner, why = in_unit_range(t[2])
                        (chk.holds if ok else chk.violated)("R1", sig, why, short(f["loc"]))
                except ev.Inconclusive as x:
                    chk.inconclusive("R1", sig, str(x), short(f["loc"]))
    chk.floor("angle kernels (x3)", n_k, 24)
    chk.floor("quantity-level angle functions (x3)", n_q, 90)
    chk.coverage["kernels"] = n_k
    chk.coverage["quantity_level"] = n_q


def find_kernel(F, T, kshape):
    for f in F.methods("PhQ::Angle<%s>" % T):
        if f["kind"] == "ctor" and "body" in f and [re.sub(r"<.*", "", strip_cvref(t)) for t in F.param_types(f)] == kshape:
            return f
    return None
