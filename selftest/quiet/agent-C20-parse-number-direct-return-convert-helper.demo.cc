// Differential program for refactor C20q: exercises ParseNumber, ParseEnumeration, Abbreviation,
// RelatedUnitSystem, ConsistentUnit and every run-time ConvertInPlace/Convert overload (scalar,
// std::array, std::vector, PlanarVector, Vector, SymmetricDyad, Dyad) for every unit type, every
// pair of units and all three numeric types, plus ConvertStatically on a few units.
#include <PhQ/Base.hpp>
#include <PhQ/Dyad.hpp>
#include <PhQ/PlanarVector.hpp>
#include <PhQ/SymmetricDyad.hpp>
#include <PhQ/Unit.hpp>
#include <PhQ/Unit/Acceleration.hpp>
#include <PhQ/Unit/Angle.hpp>
#include <PhQ/Unit/AngularAcceleration.hpp>
#include <PhQ/Unit/AngularSpeed.hpp>
#include <PhQ/Unit/Area.hpp>
#include <PhQ/Unit/Diffusivity.hpp>
#include <PhQ/Unit/DynamicViscosity.hpp>
#include <PhQ/Unit/ElectricCharge.hpp>
#include <PhQ/Unit/ElectricCurrent.hpp>
#include <PhQ/Unit/Energy.hpp>
#include <PhQ/Unit/EnergyFlux.hpp>
#include <PhQ/Unit/Force.hpp>
#include <PhQ/Unit/Frequency.hpp>
#include <PhQ/Unit/HeatCapacity.hpp>
#include <PhQ/Unit/Length.hpp>
#include <PhQ/Unit/Mass.hpp>
#include <PhQ/Unit/MassDensity.hpp>
#include <PhQ/Unit/MassRate.hpp>
#include <PhQ/Unit/Memory.hpp>
#include <PhQ/Unit/MemoryRate.hpp>
#include <PhQ/Unit/Power.hpp>
#include <PhQ/Unit/Pressure.hpp>
#include <PhQ/Unit/ReciprocalTemperature.hpp>
#include <PhQ/Unit/SolidAngle.hpp>
#include <PhQ/Unit/SpecificEnergy.hpp>
#include <PhQ/Unit/SpecificHeatCapacity.hpp>
#include <PhQ/Unit/SpecificPower.hpp>
#include <PhQ/Unit/Speed.hpp>
#include <PhQ/Unit/SubstanceAmount.hpp>
#include <PhQ/Unit/Temperature.hpp>
#include <PhQ/Unit/TemperatureDifference.hpp>
#include <PhQ/Unit/TemperatureGradient.hpp>
#include <PhQ/Unit/ThermalConductivity.hpp>
#include <PhQ/Unit/Time.hpp>
#include <PhQ/Unit/TransportEnergyConsumption.hpp>
#include <PhQ/Unit/Volume.hpp>
#include <PhQ/Unit/VolumeRate.hpp>
#include <PhQ/UnitSystem.hpp>
#include <PhQ/Vector.hpp>

#include <array>
#include <cstdint>
#include <cstring>
#include <iomanip>
#include <iostream>
#include <limits>
#include <random>
#include <string>
#include <vector>

namespace {

// FNV-1a digest over the value bytes of floating-point numbers (padding bytes of long double are
// excluded).
struct Digest {
  std::uint64_t state{1469598103934665603ULL};
  void Bytes(const void* data, const std::size_t size) {
    const unsigned char* bytes = static_cast<const unsigned char*>(data);
    for (std::size_t i = 0; i < size; ++i) {
      state ^= bytes[i];
      state *= 1099511628211ULL;
    }
  }
  template <typename T>
  void Number(const T value) {
    constexpr std::size_t size = std::is_same<T, long double>::value ? 10 : sizeof(T);
    unsigned char buffer[sizeof(T)];
    std::memcpy(buffer, &value, sizeof(T));
    Bytes(buffer, size);
  }
};

template <typename T>
const char* TypeName() {
  if (std::is_same<T, float>::value) return "float";
  if (std::is_same<T, double>::value) return "double";
  return "long double";
}

template <typename T>
std::vector<T> Inputs() {
  std::vector<T> inputs{
      static_cast<T>(0.0),
      static_cast<T>(-0.0),
      static_cast<T>(1.0),
      static_cast<T>(-1.0),
      static_cast<T>(0.1),
      static_cast<T>(-273.15),
      static_cast<T>(459.67),
      static_cast<T>(32.0),
      static_cast<T>(1.0e-30),
      static_cast<T>(-1.0e-30),
      static_cast<T>(1.0e30),
      static_cast<T>(-1.0e30),
      std::numeric_limits<T>::min(),
      std::numeric_limits<T>::denorm_min(),
      -std::numeric_limits<T>::denorm_min(),
      std::numeric_limits<T>::max(),
      std::numeric_limits<T>::lowest(),
      std::numeric_limits<T>::epsilon(),
      static_cast<T>(3.14159265358979323846264338327950288L),
      static_cast<T>(123456.789L),
  };
  std::mt19937_64 generator(20240920);
  std::uniform_real_distribution<double> mantissa(-10.0, 10.0);
  std::uniform_int_distribution<int> exponent(-30, 30);
  for (int i = 0; i < 40; ++i) {
    inputs.push_back(static_cast<T>(mantissa(generator) * std::pow(10.0, exponent(generator))));
  }
  return inputs;
}

template <typename U, typename T>
void ConversionsOfType(const char* unit_name) {
  const std::vector<T> inputs = Inputs<T>();
  std::vector<U> units;
  for (const auto& entry : PhQ::Internal::Abbreviations<U>) {
    const U unit = entry.first;
    const bool convertible =
        unit == PhQ::Standard<U>
        || (PhQ::Internal::MapOfConversionsFromStandard<U, T>.count(unit) != 0
            && PhQ::Internal::MapOfConversionsToStandard<U, T>.count(unit) != 0);
    if (convertible) {
      units.push_back(unit);
    } else {
      std::cout << unit_name << " " << TypeName<T>() << " unit " << static_cast<int>(unit)
                << " has no conversion row\n";
    }
  }
  for (const U from : units) {
    for (const U to : units) {
      Digest digest;
      // Scalars.
      for (const T input : inputs) {
        digest.Number(PhQ::Convert<U, T>(input, from, to));
        T in_place{input};
        PhQ::ConvertInPlace<U, T>(in_place, from, to);
        digest.Number(in_place);
      }
      // Vector of all inputs, and an empty vector.
      {
        std::vector<T> values{inputs};
        PhQ::ConvertInPlace<U, T>(values, from, to);
        for (const T value : values) digest.Number(value);
        const std::vector<T> copied = PhQ::Convert<U, T>(inputs, from, to);
        for (const T value : copied) digest.Number(value);
        std::vector<T> empty;
        PhQ::ConvertInPlace<U, T>(empty, from, to);
        digest.Number(static_cast<T>(empty.size()));
      }
      // Arrays and the shapes built on them.
      for (std::size_t i = 0; i + 9 <= inputs.size(); i += 7) {
        std::array<T, 1> a1{inputs[i]};
        PhQ::ConvertInPlace<U, 1, T>(a1, from, to);
        digest.Number(a1[0]);
        const std::array<T, 4> a4{inputs[i], inputs[i + 1], inputs[i + 2], inputs[i + 3]};
        for (const T value : PhQ::Convert<U, 4, T>(a4, from, to)) digest.Number(value);

        PhQ::PlanarVector<T> planar_vector(inputs[i], inputs[i + 1]);
        const PhQ::PlanarVector<T> planar_vector2 = PhQ::Convert<U, T>(planar_vector, from, to);
        PhQ::ConvertInPlace<U, T>(planar_vector, from, to);
        for (const T value : planar_vector.x_y()) digest.Number(value);
        for (const T value : planar_vector2.x_y()) digest.Number(value);

        PhQ::Vector<T> vector(inputs[i], inputs[i + 1], inputs[i + 2]);
        const PhQ::Vector<T> vector2 = PhQ::Convert<U, T>(vector, from, to);
        PhQ::ConvertInPlace<U, T>(vector, from, to);
        for (const T value : vector.x_y_z()) digest.Number(value);
        for (const T value : vector2.x_y_z()) digest.Number(value);

        PhQ::SymmetricDyad<T> symmetric_dyad(inputs[i], inputs[i + 1], inputs[i + 2],
                                             inputs[i + 3], inputs[i + 4], inputs[i + 5]);
        const PhQ::SymmetricDyad<T> symmetric_dyad2 =
            PhQ::Convert<U, T>(symmetric_dyad, from, to);
        PhQ::ConvertInPlace<U, T>(symmetric_dyad, from, to);
        for (const T value : symmetric_dyad.xx_xy_xz_yy_yz_zz()) digest.Number(value);
        for (const T value : symmetric_dyad2.xx_xy_xz_yy_yz_zz()) digest.Number(value);

        PhQ::Dyad<T> dyad(inputs[i], inputs[i + 1], inputs[i + 2], inputs[i + 3], inputs[i + 4],
                          inputs[i + 5], inputs[i + 6], inputs[i + 7], inputs[i + 8]);
        const PhQ::Dyad<T> dyad2 = PhQ::Convert<U, T>(dyad, from, to);
        PhQ::ConvertInPlace<U, T>(dyad, from, to);
        for (const T value : dyad.xx_xy_xz_yx_yy_yz_zx_zy_zz()) digest.Number(value);
        for (const T value : dyad2.xx_xy_xz_yx_yy_yz_zx_zy_zz()) digest.Number(value);
      }
      std::cout << unit_name << " " << TypeName<T>() << " " << PhQ::Abbreviation(from) << " -> "
                << PhQ::Abbreviation(to) << " : " << std::hex << digest.state << std::dec << " "
                << std::hexfloat
                << static_cast<long double>(PhQ::Convert<U, T>(static_cast<T>(1.25), from, to))
                << std::defaultfloat << "\n";
    }
  }
}

const std::vector<std::string>& ProbeStrings() {
  static const std::vector<std::string> strings = [] {
    std::vector<std::string> result{
        "", " ", "m", "M", "kg", "KG", "s", "hr", "°C", "°", "\xC2", "\xB0" "C", "degC", "K", "k",
        "ft", "in", "lbf", "m·kg·s·K", "m-kg-s-K", "ft·lbf·s·°R", "in lb s R", "mm, g, s, K",
        "m/s", "m/s^2", "m/s2", "N", "Pa", "J", "W", "Hz", "rad", "deg", "sr", "mol", "A", "C",
        "B", "b", "bit", "byte", "GiB", "kB/s", "J/kg/K", "W/m/K", "1/K", "/K", "K/m", "kg/m^3",
        "Pa·s", "m^2/s", "m^3", "m^3/s", "W/m^2", "J/m", "kg/s", "rad/s", "rad/s^2", "m^2",
        std::string("m\0kg", 4), std::string("\0", 1), std::string("\0\0\0", 3), "\xFF\xFE\xFD",
        "\x80", "m ", " m", "\tm", "m\n", "mm·g·s·K\xC2", "nan", "inf",
    };
    std::mt19937 generator(7);
    std::uniform_int_distribution<int> byte(0, 255);
    std::uniform_int_distribution<int> length(0, 6);
    for (int i = 0; i < 300; ++i) {
      std::string s;
      const int n = length(generator);
      for (int j = 0; j < n; ++j) s.push_back(static_cast<char>(byte(generator)));
      result.push_back(s);
    }
    return result;
  }();
  return strings;
}

std::string Escaped(const std::string& s) {
  std::ostringstream stream;
  for (const unsigned char c : s) {
    if (c >= 0x20 && c < 0x7F && c != '\\') {
      stream << c;
    } else {
      stream << "\\x" << std::hex << std::setw(2) << std::setfill('0') << static_cast<int>(c)
             << std::dec;
    }
  }
  return stream.str();
}

template <typename E>
void Enumerations(const char* name) {
  // Every spelling of the table must round-trip to the same enumeration value.
  std::vector<std::string> spellings;
  for (const auto& entry : PhQ::Internal::Spellings<E>) spellings.emplace_back(entry.first);
  std::sort(spellings.begin(), spellings.end());
  Digest digest;
  for (const std::string& spelling : spellings) {
    const std::optional<E> parsed = PhQ::ParseEnumeration<E>(spelling);
    digest.Bytes(spelling.data(), spelling.size());
    const int code = parsed.has_value() ? static_cast<int>(parsed.value()) : -1000;
    digest.Bytes(&code, sizeof(code));
  }
  std::cout << name << " spellings " << spellings.size() << " digest " << std::hex << digest.state
            << std::dec << "\n";
  for (const std::string& probe : ProbeStrings()) {
    const std::optional<E> parsed = PhQ::ParseEnumeration<E>(probe);
    if (parsed.has_value()) {
      std::cout << name << " parse \"" << Escaped(probe) << "\" = "
                << static_cast<int>(parsed.value()) << " " << PhQ::Abbreviation(parsed.value())
                << "\n";
    }
    const int code = parsed.has_value() ? static_cast<int>(parsed.value()) : -1000;
    digest.Bytes(&code, sizeof(code));
  }
  std::cout << name << " probes digest " << std::hex << digest.state << std::dec << "\n";
  for (const auto& entry : PhQ::Internal::Abbreviations<E>) {
    std::cout << name << " " << static_cast<int>(entry.first) << " abbreviation "
              << PhQ::Abbreviation(entry.first) << "\n";
  }
}

template <typename U>
void UnitSystems(const char* name) {
  for (const auto& entry : PhQ::Internal::Abbreviations<U>) {
    const std::optional<PhQ::UnitSystem> system = PhQ::RelatedUnitSystem(entry.first);
    std::cout << name << " " << static_cast<int>(entry.first) << " related system "
              << (system.has_value() ? static_cast<int>(system.value()) : -1) << "\n";
  }
  if (!PhQ::Internal::ConsistentUnits<U>.empty()) {
    for (const auto& entry : PhQ::Internal::Abbreviations<PhQ::UnitSystem>) {
      if (PhQ::Internal::ConsistentUnits<U>.count(entry.first) != 0) {
        std::cout << name << " consistent unit of system " << static_cast<int>(entry.first) << " = "
                  << static_cast<int>(PhQ::ConsistentUnit<U>(entry.first)) << "\n";
      }
    }
  }
}

template <typename U>
void UnitType(const char* name) {
  Enumerations<U>(name);
  UnitSystems<U>(name);
  ConversionsOfType<U, float>(name);
  ConversionsOfType<U, double>(name);
  ConversionsOfType<U, long double>(name);
}

template <typename T>
void Numbers() {
  std::vector<std::string> strings{
      "", " ", "0", "-0", "+0", "0.0", "-0.0", "1", "-1", "1.5", " 1.5", "1.5 ", "1.5abc", "abc",
      "1e10", "1E10", "1e-10", "1e", "1e+", ".5", "5.", ".", "-", "+", "--1", "+-1", "0x10",
      "0x1.8p3", "0x", "nan", "NaN", "nan(123)", "-nan", "inf", "-inf", "INF", "infinity",
      "Infinity", "infinit", "1e38", "1e39", "3.4028235e38", "3.4028236e38", "1e-38", "1e-45",
      "1e-46", "1e308", "1e309", "1.7976931348623157e308", "1.7976931348623159e308", "1e-308",
      "1e-323", "1e-324", "1e-325", "1e4932", "1e4933", "1e-4950", "1e-4951", "1e-4966", "1e-5000",
      "1e99999", "-1e99999", "1e-99999", "1,5", "1 5", "1_000", "١", "\xC2\xA0" "1", "\t1", "\n1",
      "\v1", "\f1", "\r1", std::string("1\0" "2", 3), std::string("\0" "1", 2),
      std::string("\0", 1), "\xFF", "\x80" "1", "1\xFF", "0.1", "0.2", "0.3",
      "3.141592653589793238462643383279502884", "123456789012345678901234567890",
      "0.000000000000000000000000000000000000001", "2.2250738585072011e-308",
      "2.2250738585072014e-308", "4.9406564584124654e-324", "1.17549435e-38", "1.17549421e-38",
      "9007199254740993", "16777217", "1e+05", "1e0005", "00001", "-00.100",
  };
  std::mt19937 generator(11);
  std::uniform_int_distribution<int> byte(0, 255);
  std::uniform_int_distribution<int> length(0, 8);
  const std::string alphabet = "0123456789+-.eExXpPnaifNAIF \t";
  std::uniform_int_distribution<std::size_t> letter(0, alphabet.size() - 1);
  for (int i = 0; i < 400; ++i) {
    std::string s;
    const int n = length(generator);
    for (int j = 0; j < n; ++j) s.push_back(static_cast<char>(byte(generator)));
    strings.push_back(s);
  }
  for (int i = 0; i < 1500; ++i) {
    std::string s;
    const int n = length(generator) + 1;
    for (int j = 0; j < n; ++j) s.push_back(alphabet[letter(generator)]);
    strings.push_back(s);
  }
  std::uniform_real_distribution<double> mantissa(-10.0, 10.0);
  std::uniform_int_distribution<int> exponent(-340, 340);
  for (int i = 0; i < 300; ++i) {
    std::ostringstream stream;
    stream << std::setprecision(21) << mantissa(generator) << "e" << exponent(generator);
    strings.push_back(stream.str());
  }
  for (const std::string& string : strings) {
    const std::optional<T> number = PhQ::ParseNumber<T>(string);
    std::cout << "ParseNumber<" << TypeName<T>() << ">(\"" << Escaped(string) << "\") = ";
    if (number.has_value()) {
      Digest digest;
      digest.Number(number.value());
      std::cout << std::hexfloat << static_cast<long double>(number.value()) << std::defaultfloat
                << " bits " << std::hex << digest.state << std::dec << " print "
                << PhQ::Print(number.value()) << "\n";
    } else {
      std::cout << "nullopt\n";
    }
  }
}

template <typename T>
void Static() {
  const std::vector<T> inputs = Inputs<T>();
  Digest digest;
  for (std::size_t i = 0; i + 9 <= inputs.size(); ++i) {
    digest.Number(PhQ::ConvertStatically<PhQ::Unit::Temperature, PhQ::Unit::Temperature::Fahrenheit,
                                         PhQ::Unit::Temperature::Celsius>(inputs[i]));
    digest.Number(PhQ::ConvertStatically<PhQ::Unit::Length, PhQ::Unit::Length::Mile,
                                         PhQ::Unit::Length::Inch>(inputs[i]));
    const std::array<T, 5> a5{inputs[i], inputs[i + 1], inputs[i + 2], inputs[i + 3],
                              inputs[i + 4]};
    for (const T value :
         PhQ::ConvertStatically<PhQ::Unit::Pressure, PhQ::Unit::Pressure::PoundPerSquareInch,
                                PhQ::Unit::Pressure::Kilopascal, 5, T>(a5)) {
      digest.Number(value);
    }
    const std::array<T, 0> a0{};
    digest.Number(static_cast<T>(
        PhQ::ConvertStatically<PhQ::Unit::Time, PhQ::Unit::Time::Hour, PhQ::Unit::Time::Minute, 0,
                               T>(a0).size()));
    const PhQ::PlanarVector<T> planar_vector(inputs[i], inputs[i + 1]);
    const PhQ::PlanarVector<T> planar_vector2 =
        PhQ::ConvertStatically<PhQ::Unit::Speed, PhQ::Unit::Speed::MilePerHour,
                               PhQ::Unit::Speed::FootPerSecond>(planar_vector);
    for (const T value : planar_vector2.x_y()) digest.Number(value);
    const PhQ::Vector<T> vector(inputs[i], inputs[i + 1], inputs[i + 2]);
    const PhQ::Vector<T> vector2 =
        PhQ::ConvertStatically<PhQ::Unit::Force, PhQ::Unit::Force::Pound,
                               PhQ::Unit::Force::Newton>(vector);
    for (const T value : vector2.x_y_z()) digest.Number(value);
    const PhQ::SymmetricDyad<T> symmetric_dyad(inputs[i], inputs[i + 1], inputs[i + 2],
                                               inputs[i + 3], inputs[i + 4], inputs[i + 5]);
    const PhQ::SymmetricDyad<T> symmetric_dyad2 =
        PhQ::ConvertStatically<PhQ::Unit::Pressure, PhQ::Unit::Pressure::Pascal,
                               PhQ::Unit::Pressure::PoundPerSquareFoot>(symmetric_dyad);
    for (const T value : symmetric_dyad2.xx_xy_xz_yy_yz_zz()) digest.Number(value);
    const PhQ::Dyad<T> dyad(inputs[i], inputs[i + 1], inputs[i + 2], inputs[i + 3], inputs[i + 4],
                            inputs[i + 5], inputs[i + 6], inputs[i + 7], inputs[i + 8]);
    const PhQ::Dyad<T> dyad2 =
        PhQ::ConvertStatically<PhQ::Unit::Frequency, PhQ::Unit::Frequency::Kilohertz,
                               PhQ::Unit::Frequency::PerMinute>(dyad);
    for (const T value : dyad2.xx_xy_xz_yx_yy_yz_zx_zy_zz()) digest.Number(value);
  }
  std::cout << "ConvertStatically " << TypeName<T>() << " digest " << std::hex << digest.state
            << std::dec << "\n";
}

// Compile-time evaluation of the refactored constexpr loops.
constexpr std::array<double, 3> kStatic = PhQ::ConvertStatically<
    PhQ::Unit::Length, PhQ::Unit::Length::Foot, PhQ::Unit::Length::Inch, 3, double>(
    std::array<double, 3>{1.0, -2.5, 0.0});
static_assert(kStatic[0] != 0.0, "constexpr conversion must be usable at compile time");

}  // namespace

int main() {
  Enumerations<PhQ::UnitSystem>("UnitSystem");
  {
    std::ostringstream stream;
    for (const auto& entry : PhQ::Internal::Abbreviations<PhQ::UnitSystem>) {
      stream << entry.first << ";";
    }
    std::cout << "UnitSystem stream " << stream.str() << "\n";
  }

#define PHQ_DEMO_UNIT(Name) UnitType<PhQ::Unit::Name>(#Name)
  PHQ_DEMO_UNIT(Acceleration);
  PHQ_DEMO_UNIT(Angle);
  PHQ_DEMO_UNIT(AngularAcceleration);
  PHQ_DEMO_UNIT(AngularSpeed);
  PHQ_DEMO_UNIT(Area);
  PHQ_DEMO_UNIT(Diffusivity);
  PHQ_DEMO_UNIT(DynamicViscosity);
  PHQ_DEMO_UNIT(ElectricCharge);
  PHQ_DEMO_UNIT(ElectricCurrent);
  PHQ_DEMO_UNIT(Energy);
  PHQ_DEMO_UNIT(EnergyFlux);
  PHQ_DEMO_UNIT(Force);
  PHQ_DEMO_UNIT(Frequency);
  PHQ_DEMO_UNIT(HeatCapacity);
  PHQ_DEMO_UNIT(Length);
  PHQ_DEMO_UNIT(Mass);
  PHQ_DEMO_UNIT(MassDensity);
  PHQ_DEMO_UNIT(MassRate);
  PHQ_DEMO_UNIT(Memory);
  PHQ_DEMO_UNIT(MemoryRate);
  PHQ_DEMO_UNIT(Power);
  PHQ_DEMO_UNIT(Pressure);
  PHQ_DEMO_UNIT(ReciprocalTemperature);
  PHQ_DEMO_UNIT(SolidAngle);
  PHQ_DEMO_UNIT(SpecificEnergy);
  PHQ_DEMO_UNIT(SpecificHeatCapacity);
  PHQ_DEMO_UNIT(SpecificPower);
  PHQ_DEMO_UNIT(Speed);
  PHQ_DEMO_UNIT(SubstanceAmount);
  PHQ_DEMO_UNIT(Temperature);
  PHQ_DEMO_UNIT(TemperatureDifference);
  PHQ_DEMO_UNIT(TemperatureGradient);
  PHQ_DEMO_UNIT(ThermalConductivity);
  PHQ_DEMO_UNIT(Time);
  PHQ_DEMO_UNIT(TransportEnergyConsumption);
  PHQ_DEMO_UNIT(Volume);
  PHQ_DEMO_UNIT(VolumeRate);
#undef PHQ_DEMO_UNIT

  Numbers<float>();
  Numbers<double>();
  Numbers<long double>();

  Static<float>();
  Static<double>();
  Static<long double>();
  std::cout << "constexpr " << std::hexfloat << kStatic[0] << " " << kStatic[1] << " "
            << kStatic[2] << std::defaultfloat << "\n";
  return 0;
}
