// Differential program for the C07 refactor: exercises ConsistentUnit, RelatedUnitSystem, the
// conversion sequences behind Convert/ConvertInPlace/ConvertStatically, and the dimension sets.
#include <array>
#include <cmath>
#include <cstdint>
#include <cstdio>
#include <limits>
#include <optional>
#include <random>
#include <string>
#include <vector>

#include <PhQ/Dimensions.hpp>
#include <PhQ/Dyad.hpp>
#include <PhQ/PlanarVector.hpp>
#include <PhQ/SymmetricDyad.hpp>
#include <PhQ/Unit.hpp>
#include <PhQ/Unit/Acceleration.hpp>
#include <PhQ/Unit/Angle.hpp>
#include <PhQ/Unit/AngularAcceleration.hpp>
#include <PhQ/Unit/AngularSpeed.hpp>
#include <PhQ/Unit/Area.hpp>
#include <PhQ/Unit/Diffusivity.hpp>
#include <PhQ/Unit/DynamicViscosity.hpp>
#include <PhQ/Unit/ElectricCharge.hpp>
#include <PhQ/Unit/ElectricCurrent.hpp>
#include <PhQ/Unit/Energy.hpp>
#include <PhQ/Unit/EnergyFlux.hpp>
#include <PhQ/Unit/Force.hpp>
#include <PhQ/Unit/Frequency.hpp>
#include <PhQ/Unit/HeatCapacity.hpp>
#include <PhQ/Unit/Length.hpp>
#include <PhQ/Unit/Mass.hpp>
#include <PhQ/Unit/MassDensity.hpp>
#include <PhQ/Unit/MassRate.hpp>
#include <PhQ/Unit/Memory.hpp>
#include <PhQ/Unit/MemoryRate.hpp>
#include <PhQ/Unit/Power.hpp>
#include <PhQ/Unit/Pressure.hpp>
#include <PhQ/Unit/ReciprocalTemperature.hpp>
#include <PhQ/Unit/SolidAngle.hpp>
#include <PhQ/Unit/SpecificEnergy.hpp>
#include <PhQ/Unit/SpecificHeatCapacity.hpp>
#include <PhQ/Unit/SpecificPower.hpp>
#include <PhQ/Unit/Speed.hpp>
#include <PhQ/Unit/SubstanceAmount.hpp>
#include <PhQ/Unit/Temperature.hpp>
#include <PhQ/Unit/TemperatureDifference.hpp>
#include <PhQ/Unit/TemperatureGradient.hpp>
#include <PhQ/Unit/ThermalConductivity.hpp>
#include <PhQ/Unit/Time.hpp>
#include <PhQ/Unit/TransportEnergyConsumption.hpp>
#include <PhQ/Unit/Volume.hpp>
#include <PhQ/Unit/VolumeRate.hpp>
#include <PhQ/UnitSystem.hpp>
#include <PhQ/Vector.hpp>

namespace {

constexpr std::array<PhQ::UnitSystem, 4> kSystems{
  PhQ::UnitSystem::MetreKilogramSecondKelvin,
  PhQ::UnitSystem::MillimetreGramSecondKelvin,
  PhQ::UnitSystem::FootPoundSecondRankine,
  PhQ::UnitSystem::InchPoundSecondRankine,
};

// FNV-1a digest over the exact bytes of the values.
struct Digest {
  std::uint64_t h{1469598103934665603ULL};
  void Bytes(const void* p, std::size_t n) {
    const unsigned char* c = static_cast<const unsigned char*>(p);
    for (std::size_t i = 0; i < n; ++i) {
      h ^= c[i];
      h *= 1099511628211ULL;
    }
  }
  template <typename T>
  void Value(const T v) {
    // long double has padding bytes: hash a canonical text form instead.
    char buffer[64];
    const int n = std::snprintf(buffer, sizeof buffer, "%La", static_cast<long double>(v));
    Bytes(buffer, static_cast<std::size_t>(n));
    Bytes("|", 1);
  }
};

template <typename T>
const char* TypeName();
template <>
const char* TypeName<float>() {
  return "float";
}
template <>
const char* TypeName<double>() {
  return "double";
}
template <>
const char* TypeName<long double>() {
  return "long double";
}

template <typename T>
std::vector<T> Inputs() {
  std::vector<T> v{
    static_cast<T>(0),
    -static_cast<T>(0),
    static_cast<T>(1),
    static_cast<T>(-1),
    static_cast<T>(0.1L),
    static_cast<T>(-273.15L),
    static_cast<T>(459.67L),
    static_cast<T>(1.0e-30L),
    static_cast<T>(-1.0e30L),
    std::numeric_limits<T>::min(),
    std::numeric_limits<T>::denorm_min(),
    std::numeric_limits<T>::max(),
    -std::numeric_limits<T>::max(),
    std::numeric_limits<T>::epsilon(),
    std::numeric_limits<T>::infinity(),
    std::numeric_limits<T>::quiet_NaN(),
  };
  std::mt19937_64 generator(20240927U);
  std::uniform_real_distribution<double> mantissa(-10.0, 10.0);
  std::uniform_int_distribution<int> exponent(-30, 30);
  for (int i = 0; i < 24; ++i) {
    v.push_back(static_cast<T>(std::ldexp(static_cast<long double>(mantissa(generator)),
                                          exponent(generator))));
  }
  return v;
}

void PrintOptional(const std::optional<PhQ::UnitSystem>& system) {
  if (system.has_value()) {
    std::printf("%d(%s)", static_cast<int>(system.value()),
                std::string(PhQ::Abbreviation(system.value())).c_str());
  } else {
    std::printf("none");
  }
}

template <typename Unit>
std::vector<Unit> AllUnits() {
  std::vector<Unit> units;
  for (const auto& entry : PhQ::Internal::Abbreviations<Unit>) {
    units.push_back(entry.first);
  }
  return units;
}

// SI magnitude of one unit: value 1 (and, for offset units, also 0 and 2) converted to the standard.
template <typename Unit, typename T>
void PrintMagnitude(const Unit unit) {
  const T zero = PhQ::Convert<Unit, T>(static_cast<T>(0), unit, PhQ::Standard<Unit>);
  const T one = PhQ::Convert<Unit, T>(static_cast<T>(1), unit, PhQ::Standard<Unit>);
  const T two = PhQ::Convert<Unit, T>(static_cast<T>(2), unit, PhQ::Standard<Unit>);
  const T back = PhQ::Convert<Unit, T>(static_cast<T>(1), PhQ::Standard<Unit>, unit);
  std::printf(" %s:[%La %La %La %La]", TypeName<T>(), static_cast<long double>(zero),
              static_cast<long double>(one), static_cast<long double>(two),
              static_cast<long double>(back));
}

template <typename Unit, typename T>
void Bulk(const char* name, const std::vector<Unit>& units) {
  const std::vector<T> inputs = Inputs<T>();
  Digest total;
  for (const Unit from : units) {
    Digest digest;
    for (const Unit to : units) {
      // Scalars, both out-of-place and in-place.
      for (const T value : inputs) {
        digest.Value(PhQ::Convert<Unit, T>(value, from, to));
        T copy = value;
        PhQ::ConvertInPlace<Unit, T>(copy, from, to);
        digest.Value(copy);
      }
      // std::vector, including the empty one and odd sizes.
      for (const std::size_t size : {std::size_t{0}, std::size_t{1}, std::size_t{7}, inputs.size()}) {
        std::vector<T> sequence(inputs.begin(), inputs.begin() + static_cast<std::ptrdiff_t>(size));
        const std::vector<T> converted = PhQ::Convert<Unit, T>(sequence, from, to);
        PhQ::ConvertInPlace<Unit, T>(sequence, from, to);
        digest.Value(static_cast<T>(converted.size()));
        for (std::size_t i = 0; i < size; ++i) {
          digest.Value(converted[i]);
          digest.Value(sequence[i]);
        }
      }
      // std::array of sizes 0, 2, 3, 6, 9 and the vector and tensor shapes.
      {
        std::array<T, 0> empty{};
        const std::array<T, 0> converted = PhQ::Convert<Unit, 0, T>(empty, from, to);
        PhQ::ConvertInPlace<Unit, 0, T>(empty, from, to);
        digest.Value(static_cast<T>(converted.size() + empty.size()));
      }
      for (std::size_t offset = 0; offset + 9 <= inputs.size(); offset += 5) {
        const T* const p = inputs.data() + offset;
        std::array<T, 2> a2{p[0], p[1]};
        std::array<T, 3> a3{p[0], p[1], p[2]};
        std::array<T, 6> a6{p[0], p[1], p[2], p[3], p[4], p[5]};
        std::array<T, 9> a9{p[0], p[1], p[2], p[3], p[4], p[5], p[6], p[7], p[8]};
        for (const T x : PhQ::Convert<Unit, 2, T>(a2, from, to)) digest.Value(x);
        for (const T x : PhQ::Convert<Unit, 3, T>(a3, from, to)) digest.Value(x);
        for (const T x : PhQ::Convert<Unit, 6, T>(a6, from, to)) digest.Value(x);
        for (const T x : PhQ::Convert<Unit, 9, T>(a9, from, to)) digest.Value(x);
        PhQ::PlanarVector<T> planar{a2};
        PhQ::Vector<T> vector{a3};
        PhQ::SymmetricDyad<T> symmetric{a6};
        PhQ::Dyad<T> dyad{a9};
        for (const T x : PhQ::Convert<Unit, T>(planar, from, to).x_y()) digest.Value(x);
        for (const T x : PhQ::Convert<Unit, T>(vector, from, to).x_y_z()) digest.Value(x);
        for (const T x : PhQ::Convert<Unit, T>(symmetric, from, to).xx_xy_xz_yy_yz_zz())
          digest.Value(x);
        for (const T x : PhQ::Convert<Unit, T>(dyad, from, to).xx_xy_xz_yx_yy_yz_zx_zy_zz())
          digest.Value(x);
        PhQ::ConvertInPlace<Unit, T>(planar, from, to);
        PhQ::ConvertInPlace<Unit, T>(vector, from, to);
        PhQ::ConvertInPlace<Unit, T>(symmetric, from, to);
        PhQ::ConvertInPlace<Unit, T>(dyad, from, to);
        for (const T x : planar.x_y()) digest.Value(x);
        for (const T x : vector.x_y_z()) digest.Value(x);
        for (const T x : symmetric.xx_xy_xz_yy_yz_zz()) digest.Value(x);
        for (const T x : dyad.xx_xy_xz_yx_yy_yz_zx_zy_zz()) digest.Value(x);
      }
    }
    std::printf("bulk %s %s from=%d digest=%016llx\n", name, TypeName<T>(), static_cast<int>(from),
                static_cast<unsigned long long>(digest.h));
    total.Bytes(&digest.h, sizeof digest.h);
  }
  std::printf("bulk %s %s total=%016llx\n", name, TypeName<T>(),
              static_cast<unsigned long long>(total.h));
}

template <typename Unit>
void Report(const char* name) {
  const std::vector<Unit> units = AllUnits<Unit>();
  const PhQ::Dimensions& d = PhQ::RelatedDimensions<Unit>;
  std::printf("== %s units=%zu standard=%d dimensions=[T%d L%d M%d I%d Th%d N%d J%d] \"%s\"\n", name,
              units.size(), static_cast<int>(PhQ::Standard<Unit>),
              static_cast<int>(d.Time().Value()), static_cast<int>(d.Length().Value()),
              static_cast<int>(d.Mass().Value()), static_cast<int>(d.ElectricCurrent().Value()),
              static_cast<int>(d.Temperature().Value()),
              static_cast<int>(d.SubstanceAmount().Value()),
              static_cast<int>(d.LuminousIntensity().Value()), d.Print().c_str());
  // Forward table: the consistent unit of each system, with its SI magnitude and the product of
  // the base units of that system raised to the dimension exponents.
  for (const PhQ::UnitSystem system : kSystems) {
    const Unit unit = PhQ::ConsistentUnit<Unit>(system);
    const PhQ::UnitSystem& reference = system;
    const Unit again = PhQ::ConsistentUnit<Unit>(reference);
    std::printf("consistent %s system=%d unit=%d(%s) again=%d", name, static_cast<int>(system),
                static_cast<int>(unit), std::string(PhQ::Abbreviation(unit)).c_str(),
                static_cast<int>(again));
    PrintMagnitude<Unit, float>(unit);
    PrintMagnitude<Unit, double>(unit);
    PrintMagnitude<Unit, long double>(unit);
    const long double length = PhQ::Convert<PhQ::Unit::Length, long double>(
        1.0L, PhQ::ConsistentUnit<PhQ::Unit::Length>(system), PhQ::Unit::Length::Metre);
    const long double mass = PhQ::Convert<PhQ::Unit::Mass, long double>(
        1.0L, PhQ::ConsistentUnit<PhQ::Unit::Mass>(system), PhQ::Unit::Mass::Kilogram);
    const long double time = PhQ::Convert<PhQ::Unit::Time, long double>(
        1.0L, PhQ::ConsistentUnit<PhQ::Unit::Time>(system), PhQ::Unit::Time::Second);
    const long double temperature = PhQ::Convert<PhQ::Unit::TemperatureDifference, long double>(
        1.0L, PhQ::ConsistentUnit<PhQ::Unit::TemperatureDifference>(system),
        PhQ::Unit::TemperatureDifference::Kelvin);
    const long double current = PhQ::Convert<PhQ::Unit::ElectricCurrent, long double>(
        1.0L, PhQ::ConsistentUnit<PhQ::Unit::ElectricCurrent>(system),
        PhQ::Unit::ElectricCurrent::Ampere);
    const long double amount = PhQ::Convert<PhQ::Unit::SubstanceAmount, long double>(
        1.0L, PhQ::ConsistentUnit<PhQ::Unit::SubstanceAmount>(system),
        PhQ::Unit::SubstanceAmount::Mole);
    const long double product =
        std::pow(time, static_cast<long double>(d.Time().Value()))
        * std::pow(length, static_cast<long double>(d.Length().Value()))
        * std::pow(mass, static_cast<long double>(d.Mass().Value()))
        * std::pow(current, static_cast<long double>(d.ElectricCurrent().Value()))
        * std::pow(temperature, static_cast<long double>(d.Temperature().Value()))
        * std::pow(amount, static_cast<long double>(d.SubstanceAmount().Value()));
    std::printf(" product=%La\n", product);
  }
  // Reverse lookup for every unit, compared with the inverse of the forward table.
  for (const Unit unit : units) {
    const std::optional<PhQ::UnitSystem> related = PhQ::RelatedUnitSystem(unit);
    const std::optional<PhQ::UnitSystem> explicit_related = PhQ::RelatedUnitSystem<Unit>(unit);
    int owners = 0;
    int owner = -1;
    for (const PhQ::UnitSystem system : kSystems) {
      if (PhQ::ConsistentUnit<Unit>(system) == unit) {
        ++owners;
        owner = static_cast<int>(system);
      }
    }
    std::printf("related %s unit=%d(%s) -> ", name, static_cast<int>(unit),
                std::string(PhQ::Abbreviation(unit)).c_str());
    PrintOptional(related);
    std::printf(" ");
    PrintOptional(explicit_related);
    std::printf(" has=%d eq_nullopt=%d owners=%d owner=%d", related.has_value() ? 1 : 0,
                related == std::nullopt ? 1 : 0, owners, owner);
    PrintMagnitude<Unit, float>(unit);
    PrintMagnitude<Unit, double>(unit);
    PrintMagnitude<Unit, long double>(unit);
    std::printf("\n");
  }
  Bulk<Unit, float>(name, units);
  Bulk<Unit, double>(name, units);
  Bulk<Unit, long double>(name, units);
}

template <typename T>
void Static() {
  using PhQ::ConvertStatically;
  namespace U = PhQ::Unit;
  Digest digest;
  for (const T value : Inputs<T>()) {
    constexpr T fixed = ConvertStatically<U::Force, U::Force::Pound, U::Force::Micronewton, T>(
        static_cast<T>(1.25L));
    digest.Value(fixed);
    digest.Value(ConvertStatically<U::Force, U::Force::Pound, U::Force::Micronewton, T>(value));
    digest.Value(ConvertStatically<U::Force, U::Force::Newton, U::Force::Pound, T>(value));
    digest.Value(ConvertStatically<U::Length, U::Length::Foot, U::Length::Millimetre, T>(value));
    digest.Value(ConvertStatically<U::Length, U::Length::Inch, U::Length::Metre, T>(value));
    digest.Value(ConvertStatically<U::Mass, U::Mass::Slug, U::Mass::Slinch, T>(value));
    digest.Value(ConvertStatically<U::Mass, U::Mass::Gram, U::Mass::Kilogram, T>(value));
    digest.Value(
        ConvertStatically<U::Temperature, U::Temperature::Rankine, U::Temperature::Kelvin, T>(value));
    digest.Value(ConvertStatically<U::Temperature, U::Temperature::Fahrenheit,
                                   U::Temperature::Celsius, T>(value));
    digest.Value(ConvertStatically<U::SpecificHeatCapacity,
                                   U::SpecificHeatCapacity::FootPoundPerSlugPerRankine,
                                   U::SpecificHeatCapacity::JoulePerKilogramPerKelvin, T>(value));
    digest.Value(ConvertStatically<U::SpecificHeatCapacity,
                                   U::SpecificHeatCapacity::InchPoundPerSlinchPerRankine,
                                   U::SpecificHeatCapacity::NanojoulePerGramPerKelvin, T>(value));
    digest.Value(ConvertStatically<U::Pressure, U::Pressure::PoundPerSquareInch,
                                   U::Pressure::PoundPerSquareFoot, T>(value));
    const std::array<T, 9> a9{value, -value, value, value, static_cast<T>(2) * value,
                              value, value,  value, static_cast<T>(0)};
    const std::array<T, 0> a0{};
    digest.Value(static_cast<T>(
        ConvertStatically<U::Force, U::Force::Pound, U::Force::Newton, 0, T>(a0).size()));
    for (const T x : ConvertStatically<U::Force, U::Force::Pound, U::Force::Newton, 9, T>(a9))
      digest.Value(x);
    const PhQ::Vector<T> vector{value, -value, static_cast<T>(3) * value};
    const PhQ::PlanarVector<T> planar{value, -value};
    const PhQ::SymmetricDyad<T> symmetric{value, value, -value, value, value, value};
    const PhQ::Dyad<T> dyad{a9};
    for (const T x :
         ConvertStatically<U::Length, U::Length::Foot, U::Length::Inch, T>(vector).x_y_z())
      digest.Value(x);
    for (const T x :
         ConvertStatically<U::Length, U::Length::Millimetre, U::Length::Foot, T>(planar).x_y())
      digest.Value(x);
    for (const T x : ConvertStatically<U::Pressure, U::Pressure::PoundPerSquareFoot,
                                       U::Pressure::Pascal, T>(symmetric)
                         .xx_xy_xz_yy_yz_zz())
      digest.Value(x);
    for (const T x : ConvertStatically<U::Pressure, U::Pressure::Pascal,
                                       U::Pressure::PoundPerSquareInch, T>(dyad)
                         .xx_xy_xz_yx_yy_yz_zx_zy_zz())
      digest.Value(x);
  }
  std::printf("static %s digest=%016llx\n", TypeName<T>(),
              static_cast<unsigned long long>(digest.h));
}

}  // namespace

#define REPORT(name) Report<PhQ::Unit::name>(#name)

int main() {
  std::printf("standard system=%d\n", static_cast<int>(PhQ::Standard<PhQ::UnitSystem>));
  for (const PhQ::UnitSystem system : kSystems) {
    std::printf("system %d %s\n", static_cast<int>(system),
                std::string(PhQ::Abbreviation(system)).c_str());
  }
  REPORT(Acceleration);
  REPORT(Angle);
  REPORT(AngularAcceleration);
  REPORT(AngularSpeed);
  REPORT(Area);
  REPORT(Diffusivity);
  REPORT(DynamicViscosity);
  REPORT(ElectricCharge);
  REPORT(ElectricCurrent);
  REPORT(Energy);
  REPORT(EnergyFlux);
  REPORT(Force);
  REPORT(Frequency);
  REPORT(HeatCapacity);
  REPORT(Length);
  REPORT(Mass);
  REPORT(MassDensity);
  REPORT(MassRate);
  REPORT(Memory);
  REPORT(MemoryRate);
  REPORT(Power);
  REPORT(Pressure);
  REPORT(ReciprocalTemperature);
  REPORT(SolidAngle);
  REPORT(SpecificEnergy);
  REPORT(SpecificHeatCapacity);
  REPORT(SpecificPower);
  REPORT(Speed);
  REPORT(SubstanceAmount);
  REPORT(Temperature);
  REPORT(TemperatureDifference);
  REPORT(TemperatureGradient);
  REPORT(ThermalConductivity);
  REPORT(Time);
  REPORT(TransportEnergyConsumption);
  REPORT(Volume);
  REPORT(VolumeRate);
  Static<float>();
  Static<double>();
  Static<long double>();
  return 0;
}
