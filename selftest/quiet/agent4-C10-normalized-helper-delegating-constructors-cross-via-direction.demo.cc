// Differential program for the Direction / PlanarDirection refactor (property C10).
#include <PhQ/Acceleration.hpp>
#include <PhQ/Angle.hpp>
#include <PhQ/Direction.hpp>
#include <PhQ/Displacement.hpp>
#include <PhQ/Force.hpp>
#include <PhQ/HeatFlux.hpp>
#include <PhQ/PlanarAcceleration.hpp>
#include <PhQ/PlanarDirection.hpp>
#include <PhQ/PlanarDisplacement.hpp>
#include <PhQ/PlanarForce.hpp>
#include <PhQ/PlanarHeatFlux.hpp>
#include <PhQ/PlanarPosition.hpp>
#include <PhQ/PlanarTemperatureGradient.hpp>
#include <PhQ/PlanarTraction.hpp>
#include <PhQ/PlanarVector.hpp>
#include <PhQ/PlanarVelocity.hpp>
#include <PhQ/Position.hpp>
#include <PhQ/TemperatureGradient.hpp>
#include <PhQ/Traction.hpp>
#include <PhQ/Vector.hpp>
#include <PhQ/VectorArea.hpp>
#include <PhQ/Velocity.hpp>

#include <array>
#include <cmath>
#include <cstdint>
#include <cstdio>
#include <functional>
#include <limits>
#include <random>
#include <string>
#include <vector>

namespace {

// Output sink: either prints every value (edge cases) or folds it into an FNV-1a digest (bulk).
struct Sink {
  bool print = true;
  std::uint64_t digest = 1469598103934665603ULL;
  std::uint64_t count = 0;

  void Text(const std::string& text) {
    ++count;
    if (print) {
      std::fputs(text.c_str(), stdout);
      std::fputc('\n', stdout);
    } else {
      for (const char c : text) {
        digest ^= static_cast<unsigned char>(c);
        digest *= 1099511628211ULL;
      }
      digest ^= 0xffU;
      digest *= 1099511628211ULL;
    }
  }
};

template <typename T>
std::string Hex(const T value) {
  char buffer[96];
  // Widening to long double is exact for float and double.
  std::snprintf(buffer, sizeof(buffer), "%La", static_cast<long double>(value));
  return buffer;
}

template <typename T>
std::string Hex3(const PhQ::Vector<T>& v) {
  return "(" + Hex(v.x()) + " " + Hex(v.y()) + " " + Hex(v.z()) + ")";
}

template <typename T>
std::string Hex2(const PhQ::PlanarVector<T>& v) {
  return "(" + Hex(v.x()) + " " + Hex(v.y()) + ")";
}

template <typename T>
std::string HexDyad(const PhQ::Dyad<T>& d) {
  std::string out = "[";
  for (const T c : d.xx_xy_xz_yx_yy_yz_zx_zy_zz()) {
    out += Hex(c) + " ";
  }
  return out + "]";
}

template <typename T>
const char* TypeName();
template <>
const char* TypeName<float>() {
  return "float";
}
template <>
const char* TypeName<double>() {
  return "double";
}
template <>
const char* TypeName<long double>() {
  return "long double";
}

template <typename T, typename U>
void CrossType3(Sink& sink, const PhQ::Direction<T>& d) {
  const PhQ::Direction<U> converted(d);
  sink.Text("conv3 " + Hex3(converted.Value()));
  PhQ::Direction<U> assigned;
  assigned = d;
  sink.Text("asgn3 " + Hex3(assigned.Value()));
}

template <typename T, typename U>
void CrossType2(Sink& sink, const PhQ::PlanarDirection<T>& d) {
  const PhQ::PlanarDirection<U> converted(d);
  sink.Text("conv2 " + Hex2(converted.Value()));
  PhQ::PlanarDirection<U> assigned;
  assigned = d;
  sink.Text("asgn2 " + Hex2(assigned.Value()));
}

template <typename T>
void Three(Sink& sink, const T x, const T y, const T z, const T a, const T b, const T c) {
  using namespace PhQ;
  const Vector<T> v(x, y, z);
  const Vector<T> w(a, b, c);
  const std::array<T, 3> arr{x, y, z};

  const Direction<T> d1(x, y, z);
  const Direction<T> d2(arr);
  const Direction<T> d3(v);
  const Direction<T> d4 = v.Direction();
  Direction<T> d5;
  d5.Set(x, y, z);
  Direction<T> d6(w);
  d6.Set(arr);
  Direction<T> d7(a, b, c);
  d7.Set(v);
  const Direction<T> d8{x, y, z};
  sink.Text("in3 " + Hex3(v) + " " + Hex3(w));
  sink.Text("d1 " + Hex3(d1.Value()));
  sink.Text("d2 " + Hex3(d2.Value()));
  sink.Text("d3 " + Hex3(d3.Value()));
  sink.Text("d4 " + Hex3(d4.Value()));
  sink.Text("d5 " + Hex3(d5.Value()));
  sink.Text("d6 " + Hex3(d6.Value()));
  sink.Text("d7 " + Hex3(d7.Value()));
  sink.Text("d8 " + Hex3(d8.Value()));
  sink.Text("xyz " + Hex(d1.x()) + " " + Hex(d1.y()) + " " + Hex(d1.z()));
  sink.Text("mag " + Hex(d1.Magnitude()) + " " + Hex(d1.MagnitudeSquared()));
  sink.Text("print " + d1.Print() + " " + d1.JSON() + " " + d1.XML() + " " + d1.YAML());
  sink.Text("hash " + std::to_string(std::hash<Direction<T>>()(d1)));

  const Direction<T> e(w);
  sink.Text("e " + Hex3(e.Value()));
  sink.Text("dotD " + Hex(d1.Dot(e)) + " " + Hex(e.Dot(d1)) + " " + Hex(d1.Dot(d1)));
  sink.Text("dotV " + Hex(d1.Dot(w)) + " " + Hex(w.Dot(d1)) + " " + Hex(v.Dot(e)));
  sink.Text("crossD " + Hex3(d1.Cross(e).Value()) + " " + Hex3(e.Cross(d1).Value()) + " "
            + Hex3(d1.Cross(d1).Value()));
  sink.Text("crossV " + Hex3(d1.Cross(w)) + " " + Hex3(w.Cross(d1)) + " " + Hex3(v.Cross(e)));
  sink.Text("dyad " + HexDyad(d1.Dyadic(e)) + HexDyad(d1.Dyadic(w)) + HexDyad(w.Dyadic(d1)));
  sink.Text("angle " + Hex(d1.Angle(e).Value()) + " " + Hex(d1.Angle(w).Value()) + " "
            + Hex(w.Angle(d1).Value()) + " " + Hex(Angle<T>(d1, e).Value()));
  sink.Text(std::string("cmp ") + (d1 == e ? "1" : "0") + (d1 != e ? "1" : "0")
            + (d1 < e ? "1" : "0") + (d1 > e ? "1" : "0") + (d1 <= e ? "1" : "0")
            + (d1 >= e ? "1" : "0") + (d1 == d2 ? "1" : "0"));

  // Conversions between the two kinds of direction.
  const PlanarDirection<T> p1(d1);
  const Direction<T> back(p1);
  sink.Text("proj " + Hex2(p1.Value()) + " back " + Hex3(back.Value()));
  sink.Text("projE " + Hex2(PlanarDirection<T>(e).Value()));

  // Magnitude times direction.
  const T magnitude = v.Magnitude();
  sink.Text("recomp " + Hex(magnitude) + " " + Hex3(Vector<T>(magnitude, d1)) + " "
            + Hex3(d1.Value() * magnitude));

  // Other numeric types.
  CrossType3<T, float>(sink, d1);
  CrossType3<T, double>(sink, d1);
  CrossType3<T, long double>(sink, d1);

  // Vector quantities.
  const Velocity<T> velocity(v, Unit::Speed::MetrePerSecond);
  const Acceleration<T> acceleration(v, Unit::Acceleration::MetrePerSquareSecond);
  const Force<T> force(v, Unit::Force::Newton);
  const Position<T> position(v, Unit::Length::Metre);
  const Displacement<T> displacement(v, Unit::Length::Metre);
  const HeatFlux<T> heat_flux(v, Unit::EnergyFlux::WattPerSquareMetre);
  const TemperatureGradient<T> temperature_gradient(v, Unit::TemperatureGradient::KelvinPerMetre);
  const Traction<T> traction(v, Unit::Pressure::Pascal);
  const VectorArea<T> vector_area(v, Unit::Area::SquareMetre);
  sink.Text("qV " + Hex3(velocity.Direction().Value()) + Hex3(Direction<T>(velocity).Value())
            + Hex(velocity.Magnitude().Value())
            + Hex3((velocity.Direction() * velocity.Magnitude()).Value())
            + Hex3(Velocity<T>(velocity.Magnitude(), velocity.Direction()).Value()));
  sink.Text("qA " + Hex3(acceleration.Direction().Value())
            + Hex3(Direction<T>(acceleration).Value())
            + Hex3((acceleration.Direction() * acceleration.Magnitude()).Value()));
  sink.Text("qF " + Hex3(force.Direction().Value()) + Hex3(Direction<T>(force).Value())
            + Hex3((force.Direction() * force.Magnitude()).Value()));
  sink.Text("qP " + Hex3(position.Direction().Value()) + Hex3(Direction<T>(position).Value())
            + Hex3((position.Direction() * position.Magnitude()).Value()));
  sink.Text("qD " + Hex3(displacement.Direction().Value())
            + Hex3(Direction<T>(displacement).Value()));
  sink.Text("qH " + Hex3(heat_flux.Direction().Value()) + Hex3(Direction<T>(heat_flux).Value())
            + Hex3((heat_flux.Direction() * heat_flux.Magnitude()).Value()));
  sink.Text("qT " + Hex3(temperature_gradient.Direction().Value())
            + Hex3(Direction<T>(temperature_gradient).Value())
            + Hex3((temperature_gradient.Direction() * temperature_gradient.Magnitude()).Value()));
  sink.Text("qX " + Hex3(traction.Direction().Value()) + Hex3(Direction<T>(traction).Value())
            + Hex3((traction.Direction() * traction.Magnitude()).Value()));
  sink.Text("qS " + Hex3(vector_area.Direction().Value())
            + Hex3(Direction<T>(vector_area).Value())
            + Hex3((vector_area.Direction() * vector_area.Magnitude()).Value()));
  sink.Text("qAngle " + Hex(velocity.Angle(Velocity<T>(w, Unit::Speed::MetrePerSecond)).Value()));
}

template <typename T>
void Two(Sink& sink, const T x, const T y, const T a, const T b) {
  using namespace PhQ;
  const PlanarVector<T> v(x, y);
  const PlanarVector<T> w(a, b);
  const std::array<T, 2> arr{x, y};

  const PlanarDirection<T> d1(x, y);
  const PlanarDirection<T> d2(arr);
  const PlanarDirection<T> d3(v);
  const PlanarDirection<T> d4 = v.PlanarDirection();
  PlanarDirection<T> d5;
  d5.Set(x, y);
  PlanarDirection<T> d6(w);
  d6.Set(arr);
  PlanarDirection<T> d7(a, b);
  d7.Set(v);
  const PlanarDirection<T> d8{x, y};
  sink.Text("in2 " + Hex2(v) + " " + Hex2(w));
  sink.Text("p1 " + Hex2(d1.Value()));
  sink.Text("p2 " + Hex2(d2.Value()));
  sink.Text("p3 " + Hex2(d3.Value()));
  sink.Text("p4 " + Hex2(d4.Value()));
  sink.Text("p5 " + Hex2(d5.Value()));
  sink.Text("p6 " + Hex2(d6.Value()));
  sink.Text("p7 " + Hex2(d7.Value()));
  sink.Text("p8 " + Hex2(d8.Value()));
  sink.Text("xy " + Hex(d1.x()) + " " + Hex(d1.y()));
  sink.Text("mag " + Hex(d1.Magnitude()) + " " + Hex(d1.MagnitudeSquared()));
  sink.Text("print " + d1.Print() + " " + d1.JSON() + " " + d1.XML() + " " + d1.YAML());
  sink.Text("hash " + std::to_string(std::hash<PlanarDirection<T>>()(d1)));

  const PlanarDirection<T> e(w);
  sink.Text("e " + Hex2(e.Value()));
  sink.Text("dotD " + Hex(d1.Dot(e)) + " " + Hex(e.Dot(d1)) + " " + Hex(d1.Dot(d1)));
  sink.Text("dotV " + Hex(d1.Dot(w)) + " " + Hex(w.Dot(d1)) + " " + Hex(v.Dot(e)));
  sink.Text("crossD " + Hex3(d1.Cross(e).Value()) + " " + Hex3(e.Cross(d1).Value()) + " "
            + Hex3(d1.Cross(d1).Value()));
  sink.Text("crossV " + Hex3(d1.Cross(w)) + " " + Hex3(w.Cross(d1)) + " " + Hex3(v.Cross(e)));
  sink.Text("dyad " + HexDyad(d1.Dyadic(e)) + HexDyad(d1.Dyadic(w)) + HexDyad(w.Dyadic(d1)));
  sink.Text("angle " + Hex(d1.Angle(e).Value()) + " " + Hex(d1.Angle(w).Value()) + " "
            + Hex(w.Angle(d1).Value()) + " " + Hex(Angle<T>(d1, e).Value()));
  sink.Text(std::string("cmp ") + (d1 == e ? "1" : "0") + (d1 != e ? "1" : "0")
            + (d1 < e ? "1" : "0") + (d1 > e ? "1" : "0") + (d1 <= e ? "1" : "0")
            + (d1 >= e ? "1" : "0") + (d1 == d2 ? "1" : "0"));

  const Direction<T> lifted(d1);
  const PlanarDirection<T> back(lifted);
  sink.Text("lift " + Hex3(lifted.Value()) + " back " + Hex2(back.Value()));

  const T magnitude = v.Magnitude();
  sink.Text("recomp " + Hex(magnitude) + " " + Hex2(PlanarVector<T>(magnitude, d1)) + " "
            + Hex2(d1.Value() * magnitude));

  CrossType2<T, float>(sink, d1);
  CrossType2<T, double>(sink, d1);
  CrossType2<T, long double>(sink, d1);

  const PlanarVelocity<T> velocity(v, Unit::Speed::MetrePerSecond);
  const PlanarAcceleration<T> acceleration(v, Unit::Acceleration::MetrePerSquareSecond);
  const PlanarForce<T> force(v, Unit::Force::Newton);
  const PlanarPosition<T> position(v, Unit::Length::Metre);
  const PlanarDisplacement<T> displacement(v, Unit::Length::Metre);
  const PlanarHeatFlux<T> heat_flux(v, Unit::EnergyFlux::WattPerSquareMetre);
  const PlanarTemperatureGradient<T> temperature_gradient(
      v, Unit::TemperatureGradient::KelvinPerMetre);
  const PlanarTraction<T> traction(v, Unit::Pressure::Pascal);
  sink.Text("qV " + Hex2(velocity.PlanarDirection().Value())
            + Hex2(PlanarDirection<T>(velocity).Value()) + Hex(velocity.Magnitude().Value())
            + Hex2((velocity.PlanarDirection() * velocity.Magnitude()).Value())
            + Hex2(PlanarVelocity<T>(velocity.Magnitude(), velocity.PlanarDirection()).Value()));
  sink.Text("qA " + Hex2(acceleration.PlanarDirection().Value())
            + Hex2(PlanarDirection<T>(acceleration).Value())
            + Hex2((acceleration.PlanarDirection() * acceleration.Magnitude()).Value()));
  sink.Text("qF " + Hex2(force.PlanarDirection().Value()) + Hex2(PlanarDirection<T>(force).Value())
            + Hex2((force.PlanarDirection() * force.Magnitude()).Value()));
  sink.Text("qP " + Hex2(position.PlanarDirection().Value())
            + Hex2(PlanarDirection<T>(position).Value())
            + Hex2((position.PlanarDirection() * position.Magnitude()).Value()));
  sink.Text("qD " + Hex2(displacement.PlanarDirection().Value())
            + Hex2(PlanarDirection<T>(displacement).Value()));
  sink.Text("qH " + Hex2(heat_flux.PlanarDirection().Value())
            + Hex2(PlanarDirection<T>(heat_flux).Value())
            + Hex2((heat_flux.PlanarDirection() * heat_flux.Magnitude()).Value()));
  sink.Text(
      "qT " + Hex2(temperature_gradient.PlanarDirection().Value())
      + Hex2(PlanarDirection<T>(temperature_gradient).Value())
      + Hex2((temperature_gradient.PlanarDirection() * temperature_gradient.Magnitude()).Value()));
  sink.Text("qX " + Hex2(traction.PlanarDirection().Value())
            + Hex2(PlanarDirection<T>(traction).Value())
            + Hex2((traction.PlanarDirection() * traction.Magnitude()).Value()));
}

template <typename T>
std::vector<T> EdgeValues() {
  using L = std::numeric_limits<T>;
  return {static_cast<T>(0),
          -static_cast<T>(0),
          static_cast<T>(1),
          static_cast<T>(-1),
          static_cast<T>(3),
          static_cast<T>(-4),
          static_cast<T>(0.1L),
          static_cast<T>(1) + L::epsilon(),
          L::denorm_min(),
          -L::denorm_min(),
          L::min(),
          std::sqrt(L::min()),
          std::sqrt(L::min()) / static_cast<T>(3),
          std::sqrt(L::max()),
          std::sqrt(L::max()) * static_cast<T>(0.7L),
          L::max(),
          -L::max(),
          L::infinity(),
          -L::infinity(),
          L::quiet_NaN()};
}

template <typename T>
T RandomValue(std::mt19937_64& generator, const int mode) {
  using L = std::numeric_limits<T>;
  std::uniform_real_distribution<long double> mantissa(-1.0L, 1.0L);
  const T m = static_cast<T>(mantissa(generator));
  int exponent = 0;
  switch (mode) {
    case 0:
      exponent = 0;
      break;
    case 1:
      exponent = std::uniform_int_distribution<int>(-100, 100)(generator);
      break;
    default:
      exponent = std::uniform_int_distribution<int>(L::min_exponent - L::digits - 2,
                                                    L::max_exponent + 1)(generator);
      break;
  }
  return std::ldexp(m, exponent);
}

template <typename T>
void RunType() {
  std::printf("=== %s ===\n", TypeName<T>());
  Sink edge;
  edge.print = true;
  const std::vector<T> values = EdgeValues<T>();
  // A printed subset of edge cases, then a digest over the full cartesian products.
  const std::size_t n = values.size();
  for (std::size_t i = 0; i < n; ++i) {
    const T x = values[i];
    const T y = values[(i * 7 + 3) % n];
    const T z = values[(i * 11 + 5) % n];
    Three<T>(edge, x, y, z, z, x, static_cast<T>(2));
    Two<T>(edge, x, y, y, static_cast<T>(-3));
  }
  Three<T>(edge, static_cast<T>(0), static_cast<T>(0), static_cast<T>(0), static_cast<T>(1),
           static_cast<T>(2), static_cast<T>(3));
  Three<T>(edge, static_cast<T>(3), static_cast<T>(0), static_cast<T>(-4), static_cast<T>(0),
           static_cast<T>(0), static_cast<T>(0));
  Two<T>(edge, static_cast<T>(0), static_cast<T>(0), static_cast<T>(1), static_cast<T>(2));
  Two<T>(edge, static_cast<T>(3), static_cast<T>(-4), static_cast<T>(0), -static_cast<T>(0));

  Sink bulk;
  bulk.print = false;
  for (std::size_t i = 0; i < n; ++i) {
    for (std::size_t j = 0; j < n; ++j) {
      Two<T>(bulk, values[i], values[j], values[(i + j) % n], values[(i * j + 1) % n]);
      for (std::size_t k = 0; k < n; ++k) {
        Three<T>(bulk, values[i], values[j], values[k], values[(i + k) % n], values[(j + k) % n],
                 values[(i + j) % n]);
      }
    }
  }
  std::printf("edge-product digest %016llx over %llu records\n",
              static_cast<unsigned long long>(bulk.digest),
              static_cast<unsigned long long>(bulk.count));

  std::mt19937_64 generator(20240927ULL + sizeof(T));
  for (int mode = 0; mode < 3; ++mode) {
    Sink random;
    random.print = false;
    for (int i = 0; i < 6000; ++i) {
      const T x = RandomValue<T>(generator, mode);
      const T y = RandomValue<T>(generator, mode);
      const T z = RandomValue<T>(generator, mode);
      const T a = RandomValue<T>(generator, mode);
      const T b = RandomValue<T>(generator, mode);
      const T c = RandomValue<T>(generator, mode);
      Three<T>(random, x, y, z, a, b, c);
      Two<T>(random, x, y, a, b);
      // Near-degenerate and axis-aligned shapes.
      Three<T>(random, x, static_cast<T>(0), static_cast<T>(0), a, b, c);
      Three<T>(random, x, x * std::numeric_limits<T>::epsilon(), -static_cast<T>(0), c, b, a);
      Two<T>(random, static_cast<T>(0), y, b, a);
      // Positive rescaling by powers of two and by three.
      Three<T>(random, x * static_cast<T>(4), y * static_cast<T>(4), z * static_cast<T>(4), a, b, c);
      Three<T>(random, x * static_cast<T>(3), y * static_cast<T>(3), z * static_cast<T>(3), a, b, c);
      Two<T>(random, x * static_cast<T>(0.5L), y * static_cast<T>(0.5L), a, b);
    }
    std::printf("random mode %d digest %016llx over %llu records\n", mode,
                static_cast<unsigned long long>(random.digest),
                static_cast<unsigned long long>(random.count));
  }
}

}  // namespace

int main() {
  RunType<float>();
  RunType<double>();
  RunType<long double>();
  return 0;
}
