"""Loader and indexes over the facts written by phqx (one shard per numeric type)."""
import json
import os
import re
from . import frontend
from .frontend import AnalysisBroken, NUMERIC, TAG


class Facts:
    def __init__(self, path, numeric):
        self.numeric = numeric
        raw = json.load(open(path, encoding="utf-8"))
        self.types = raw["types"]
        self.fns = {}
        for f in raw["functions"] + raw["late_functions"]:
            self.fns[f["id"]] = f
        self.records = {}
        for r in raw["records"]:
            self.records[r["name"]] = r
        self.enums = {e["name"]: e for e in raw["enums"]}
        self.vars = {v["id"]: v for v in raw["variables"]}
        self.vars_by_name = {}
        for v in raw["variables"]:
            self.vars_by_name.setdefault(v["name"], []).append(v)
        self.diagnostics = raw["diagnostics"]
        self.by_name = {}
        for f in self.fns.values():
            self.by_name.setdefault(f["name"], []).append(f)
        self.by_qname = {}
        for f in self.fns.values():
            self.by_qname.setdefault(f.get("qname", f["name"]), []).append(f)
        self.by_parent = {}
        for f in self.fns.values():
            if "parent" in f:
                self.by_parent.setdefault(self.types[f["parent"]], []).append(f)

    def T(self, i):
        return self.types[i] if i is not None and i >= 0 else None

    def fn(self, i):
        return self.fns[i]

    def methods(self, record_name, sname=None):
        out = self.by_parent.get(record_name, [])
        if sname is not None:
            out = [f for f in out if f["sname"] == sname]
        return out

    def param_types(self, f):
        return [self.types[p["t"]] for p in f["params"]]

    def repo_diagnostics(self):
        """Errors whose primary location is in a /repo header (an ill-formed instantiation)."""
        return [d for d in self.diagnostics if d["loc"].startswith(frontend.INC)]

    def driver_diagnostics(self):
        return [d for d in self.diagnostics if not d["loc"].startswith(frontend.INC)]


_cache = {}


def load(numeric="double", tier="quick"):
    work = frontend.build_facts(tier)
    key = (work, numeric)
    if key not in _cache:
        _cache[key] = Facts(os.path.join(work, "facts_%s.json" % TAG[numeric]), numeric)
        bad = _cache[key].driver_diagnostics()
        if bad and not _cache[key].repo_diagnostics():
            # (with an error inside /repo/include the driver's own errors are consequences of it: the checks go on with
            # what was instantiated, and core.Check.wellformedness reports the ill-formed construct if they cannot finish)
            raise AnalysisBroken("generated driver does not type-check (%s): %s at %s"
                                 % (numeric, bad[0]["msg"], bad[0]["loc"]))
    return _cache[key]


def inventory(tier="quick"):
    work = frontend.build_facts(tier)
    return json.load(open(os.path.join(work, "inventory.json")))


# ------------------------------------------------------------------------------------------------
# type-string helpers

def strip_cvref(t):
    t = t.strip()
    t = re.sub(r"\s*&&?$", "", t)
    t = re.sub(r"^const\s+", "", t)
    t = re.sub(r"\s+const$", "", t)
    return t.strip()


def is_ref(t):
    return t.rstrip().endswith("&")


def is_const(t):
    t2 = re.sub(r"\s*&&?$", "", t.strip())
    return t2.startswith("const ") or t2.endswith(" const")


def is_pointer(t):
    return strip_cvref(t).endswith("*")


def short(loc):
    if not loc:
        return loc
    m = re.match(r"(.*?)(:\d+(?::\d+)?)?$", loc)
    path, tail = m.group(1), m.group(2) or ""
    path = os.path.normpath(path) if path.startswith("/") else path
    return path.replace(frontend.INC + "/", "") + tail
