"""C02 — all conversion entry points agree; a quantity read back in its unit is unchanged."""
import re
from .. import facts, ev, quant, affine, tables, cg
from ..units_model import UnitModel, close
from ..facts import short, strip_cvref, is_ref
from ..frontend import NUMERIC


def slot_affines(val, T):
    """[(slot path, leaf name, Affine)] for a compound value whose slots each depend on one input leaf."""
    out = []
    for path, t in ev.flatten(val):
        ls = sorted(ev.leaves(t))
        if len(ls) != 1:
            raise ev.Inconclusive("slot %s depends on %d inputs (%s)" % (path, len(ls), ev.show(t)[:80]))
        out.append((path, ls[0], affine.affine_of(t, ls[0], T)))
    return out


class Conv:
    def __init__(self, M):
        self.M = M

    def to(self, ut, x):
        a, f, d = self.M.conversion_affine(ut, x, "ToStandard")
        if a is None:
            raise ev.Inconclusive("conversion %s::%s: %s" % (ut, x, d))
        return a

    def frm(self, ut, x):
        a, f, d = self.M.conversion_affine(ut, x, "FromStandard")
        if a is None:
            raise ev.Inconclusive("conversion %s::%s: %s" % (ut, x, d))
        return a


def subst_leaf(t, name, rep):
    if isinstance(t, tuple):
        if t and t[0] == "leaf":
            return rep if t[1] == name else t
        return tuple(subst_leaf(x, name, rep) if isinstance(x, tuple) else x for x in t)
    return t


def rounding_mismatch(value, src, to_aff, frm_aff, T):
    """"Agrees with the plain scalar conversion to within one ulp", decided without running anything: every slot must be
    the very same sequence of rounded operations as the unit's own kernels applied to the same input slot (then the
    results are bit-identical), or both computations must be provably within half an ulp of the exact value.  Returns
    None, or a description of the first slot for which neither can be shown."""
    from .. import errdom
    for (path, got), leaf in zip(ev.flatten(value), src):
        ref = ("leaf", leaf)
        if to_aff is not None:
            ref = subst_leaf(to_aff.term, "v", ref)
        if frm_aff is not None:
            ref = subst_leaf(frm_aff.term, "v", ref)
        if got == ref:
            continue
        try:
            ea, _ = errdom.err(got, T)
            eb, _ = errdom.err(ref, T)
        except Exception:
            ea = eb = None
        if ea is not None and eb is not None and ea <= 1 and eb <= 1:
            continue
        return ("slot '%s' computes %s, the plain scalar conversion computes %s: not the same sequence of rounded operations (relative error bounds %s and %s "
                "unit roundoffs), so the two are not guaranteed to agree to within one ulp" % (path, ev.show(got)[:160], ev.show(ref)[:160], ea, eb))
    return None


def same(a, b):
    return close(a.A, b.A) and close(a.B, b.B)


IDENT = affine.Affine(affine.num(1), {})


def pick_units(names, std, tier, seed):
    if tier == "thorough" or len(names) <= 3:
        return list(names)
    others = [n for n in names if n != std]
    k = seed % max(1, len(others))
    return [std, others[k], others[-1 - (seed % max(1, len(others) - 1)) if len(others) > 1 else 0]]


def run(chk):
    chk.level = "other"
    chk.technique = ("data-flow / term evaluation of every conversion entry point with concrete unit enumerators: quantity constructors, "
                     "Value(unit), StaticValue<unit>, Create<unit>, Print/JSON/XML/YAML(unit), and the free Convert/ConvertInPlace/"
                     "ConvertStatically overloads for all container shapes; each result slot's affine map over Q(pi) is compared with the "
                     "composition of the per-unit Conversion kernels analysed in C01")
    chk.rule("R1", "Q(value, X) stores To_X(value) in every slot: converted exactly once, slot preserved")
    chk.rule("R2", "Value(X), StaticValue<X>() return From_X(stored) per slot; Create<X>(v) stores To_X(v); Print/JSON/XML/YAML(X) print From_X(stored) "
                   "in slot order followed by the abbreviation of the *given* unit")
    chk.rule("R3", "the free Convert / ConvertInPlace / ConvertStatically overloads for scalars, std::array, std::vector, planar vectors, vectors, "
                   "symmetric dyads and dyads apply From_Y o To_X to each slot in place; copying forms leave their argument unchanged")
    chk.rule("R4", "Convert(v, u, u) is the identity map; reading back in the construction unit is From_X o To_X = identity (with C01.R2)")
    chk.assumptions += ["agreement is decided as equality of real affine maps built from the same Conversion<U,X> kernels; the size of the read-back rounding "
                        "error is bounded by C01.R4 and not re-derived here",
                        "quick tier analyses the standard unit and two other units per unit type for the member entry points; the thorough tier all units"]
    n = 0
    for T in NUMERIC:
        F = facts.load(T, chk.tier)
        M = UnitModel(F)
        C = Conv(M)
        inv = quant.inventory(F)
        print_hook = lambda E_, fn, this_lv, args: ev.Str([("num", E_.rv(args[0]))])
        for name, q in sorted(inv.items()):
            if q.kind != "quantity" or q.unit is None:
                continue
            ut = q.unit
            units = M.T.enumerators(ut)
            std = M.T.standard.get(ut)
            sel = pick_units(units, std, chk.tier, chk.seed + len(name))
            field = quant.all_fields(F, name)[0][0]
            # constructor (value, unit)
            ctors = [f for f in F.methods(name) if f["kind"] == "ctor" and "body" in f and len(f["params"]) == 2
                     and strip_cvref(F.T(f["params"][1]["t"])) == ut]
            if not ctors:
                chk.violated("R1", name + "(value, unit)", "no constructor from a value and a unit", short(q.rec["loc"]))
            for f in ctors:
                for x in sel:
                    inst = "%s(%s, %s)" % (name, strip_cvref(F.T(f["params"][0]["t"])).replace("PhQ::", ""), x)
                    n += 1
                    try:
                        E = ev.Evaluator(F)
                        _, this_lv, _ = E.run_symbolic(f, arg_prefixes=["v", None], concrete={1: ("enum", ut, x)})
                        got = slot_affines(E.load(this_lv), T)
                        E0 = ev.Evaluator(F)
                        src = [t[1] for _, t in ev.flatten(E0.symbolic(F.T(f["params"][0]["t"]), "v"))]
                        want = C.to(ut, x)
                        bad = [p for (p, leaf, a), s in zip(got, src) if leaf != s or not same(a, want)]
                        mm = None if (bad or len(got) != len(src)) else rounding_mismatch(E.load(this_lv), src, want, None, T)
                        if bad or len(got) != len(src):
                            chk.violated("R1", inst, "slot %s is not To_%s of the same input slot (got %s)" % (bad[:1], x, affine.n_show(got[0][2].A)), short(f["loc"]))
                        elif mm:
                            chk.violated("R1", inst, mm, short(f["loc"]))
                        else:
                            chk.holds("R1", inst, "every slot = (%s)*v + (%s)" % (affine.n_show(want.A), affine.n_show(want.B)), short(f["loc"]), nontrivial=(x != std))
                    except ev.Inconclusive as e:
                        chk.inconclusive("R1", inst, str(e), short(f["loc"]))
            # Value(unit)
            for f in quant.find_method(F, name, "Value", lambda f: len(f["params"]) == 1):
                for x in sel:
                    inst = "%s::Value(%s)" % (name, x)
                    n += 1
                    try:
                        E = ev.Evaluator(F)
                        res, this_lv, _ = E.run_symbolic(f, this_prefix="self", concrete={0: ("enum", ut, x)})
                        got = slot_affines(E.rv(res), T)
                        src = [t[1] for _, t in ev.flatten(E.load(this_lv))]
                        want = C.frm(ut, x)
                        bad = [p for (p, leaf, a), s in zip(got, src) if leaf != s or not same(a, want)]
                        mm = None if (bad or len(got) != len(src)) else rounding_mismatch(E.rv(res), src, None, want, T)
                        if mm:
                            chk.violated("R2", inst, mm, short(f["loc"]))
                        else:
                            (chk.violated if bad or len(got) != len(src) else chk.holds)("R2", inst, "From_%s per slot" % x if not bad else "slot %s differs from From_%s" % (bad[:1], x), short(f["loc"]))
                    except ev.Inconclusive as e:
                        chk.inconclusive("R2", inst, str(e), short(f["loc"]))
            # StaticValue<X>, Create<X> (instantiated per enumerator by the driver)
            for sname, direction in (("StaticValue", "from"), ("Create", "to")):
                fs = quant.find_method(F, name, sname) if sname == "StaticValue" else F.methods(name, sname)
                seen_units = set()
                for f in fs:
                    if "body" not in f or not f.get("targs"):
                        continue
                    x = f["targs"][0].split("::")[-1]
                    if f["targs"][0].rsplit("::", 1)[0] != ut:
                        continue
                    if chk.tier != "thorough" and x not in sel:
                        continue
                    seen_units.add(x)
                    inst = "%s::%s<%s>(%s)" % (name, sname, x, ", ".join(strip_cvref(t).replace("PhQ::", "") for t in F.param_types(f)))
                    n += 1
                    try:
                        E = ev.Evaluator(F)
                        res, this_lv, args = E.run_symbolic(f, this_prefix="self")
                        got = slot_affines(E.rv(res), T)
                        want = C.frm(ut, x) if direction == "from" else C.to(ut, x)
                        if direction == "from":
                            src = [t[1] for _, t in ev.flatten(E.load(this_lv))]
                        else:
                            E0 = ev.Evaluator(F)
                            src = []
                            for p in f["params"]:
                                src += [t[1] for _, t in ev.flatten(E0.symbolic(F.T(p["t"]), p["n"]))]
                        bad = [p for (p, leaf, a), s in zip(got, src) if leaf != s or not same(a, want)]
                        mm = None if (bad or len(got) != len(src)) else rounding_mismatch(E.rv(res), src, want if direction == "to" else None, want if direction == "from" else None, T)
                        if bad or len(got) != len(src):
                            chk.violated("R2", inst, "slot %s is not %s_%s of the matching input slot: (%s)*v+(%s)" % (bad[:1], "From" if direction == "from" else "To", x, affine.n_show(got[0][2].A), affine.n_show(got[0][2].B)), short(f["loc"]))
                        elif mm:
                            chk.violated("R2", inst, mm, short(f["loc"]))
                        else:
                            chk.holds("R2", inst, "%s_%s per slot" % ("From" if direction == "from" else "To", x), short(f["loc"]), nontrivial=(x != std))
                    except ev.Inconclusive as e:
                        chk.inconclusive("R2", inst, str(e), short(f["loc"]))
                missing = [x for x in (units if chk.tier == "thorough" else sel) if x not in seen_units]
                if missing and fs:
                    chk.inconclusive("R2", "%s::%s" % (name, sname), "not instantiated for units %s" % missing[:3], short(q.rec["loc"]))
                if not fs:
                    chk.violated("R2", "%s::%s" % (name, sname), "member template not found", short(q.rec["loc"]))
            # Print/JSON/XML/YAML(unit)
            for sname in ("Print", "JSON", "XML", "YAML"):
                for f in quant.find_method(F, name, sname, lambda f: len(f["params"]) == 1):
                    for x in sel[:2] if chk.tier != "thorough" else sel:
                        inst = "%s::%s(%s)" % (name, sname, x)
                        n += 1
                        try:
                            E = ev.Evaluator(F)
                            E.hooks["PhQ::Print"] = print_hook
                            res, this_lv, _ = E.run_symbolic(f, this_prefix="self", concrete={0: ("enum", ut, x)})
                            r = E.rv(res)
                            nums = flatten_nums(r)
                            text = "".join(p for p in flatten_text(r))
                            src = [t[1] for _, t in ev.flatten(E.load(this_lv))]
                            want = C.frm(ut, x)
                            abbr = M.abbreviations(ut).get(x)
                            ok = len(nums) == len(src)
                            why = "prints %d numbers for %d slots" % (len(nums), len(src))
                            if ok:
                                for t, s in zip(nums, src):
                                    ls = sorted(ev.leaves(t))
                                    if ls != [s] or not same(affine.affine_of(t, s, T), want):
                                        ok, why = False, "number %s is not From_%s of slot %s" % (ev.show(t)[:80], x, s)
                                        break
                            if ok and (abbr is None or abbr not in text or text[text.rfind(abbr) + len(abbr):] not in ("", '"}', "</unit>", '"')):
                                ok, why = False, "the text %r does not end with the abbreviation %r of the given unit" % (text[-30:], abbr)
                            (chk.holds if ok else chk.violated)("R2", inst, "numbers = From_%s(slots) in order; unit text %r" % (x, abbr) if ok else why, short(f["loc"]))
                        except ev.Inconclusive as e:
                            chk.inconclusive("R2", inst, str(e), short(f["loc"]))
        # R4: reading back in the construction unit / converting a unit to itself is the identity map, for every unit
        from fractions import Fraction as _Fr
        for ut in M.unit_types():
            for x in M.T.enumerators(ut):
                inst = "%s::%s<%s> From o To" % (M.short(ut), x, T)
                try:
                    comp = affine.compose(C.frm(ut, x), C.to(ut, x))
                    okA = close(comp.A, affine.num(1))
                    okB = all(abs(v) < _Fr(1, 2 ** 60) for v in comp.B.values())
                    if okA and okB:
                        chk.holds("R4", inst, "identity", "", nontrivial=(x != M.T.standard.get(ut)))
                    else:
                        fr = M.conversion_fn(ut, x, "FromStandard")
                        chk.violated("R4", inst, "constructing in %s and reading back in %s gives (%s)*v + (%s), not v" % (x, x, affine.n_show(comp.A), affine.n_show(comp.B)), short(fr["loc"]) if fr else "")
                except ev.Inconclusive as e:
                    chk.inconclusive("R4", inst, str(e), "")
        free_overloads(chk, F, M, C, T)
    chk.floor("member entry-point instances", n, 5000 if chk.tier != "thorough" else 20000)
    chk.coverage["member_entry_point_instances"] = n


def flatten_nums(s):
    out = []
    if isinstance(s, ev.Str):
        for p in s.parts:
            if isinstance(p, tuple) and p and p[0] == "num":
                out.append(p[1])
            elif isinstance(p, ev.Str):
                out += flatten_nums(p)
    return out


def flatten_text(s):
    out = []
    if isinstance(s, ev.Str):
        for p in s.parts:
            if isinstance(p, str):
                out.append(p)
            elif isinstance(p, ev.Str):
                out += flatten_text(p)
    return out


SHAPE_ARGS = [("scalar", "%s"), ("array", "std::array<%s, 5>"), ("stdvector", "std::vector<%s, std::allocator<%s>>"),
              ("planar", "PhQ::PlanarVector<%s>"), ("vector", "PhQ::Vector<%s>"), ("symdyad", "PhQ::SymmetricDyad<%s>"), ("dyad", "PhQ::Dyad<%s>")]


def free_overloads(chk, F, M, C, T, r3="R3", r4="R4", only_shapes=None):
    """Convert / ConvertInPlace / ConvertStatically for every container shape and unit type (rule ids r3/r4; only_shapes
    restricts to some parameter shapes: C01 re-uses this for the plain-number entry points)."""
    groups = {}
    for qn in ("PhQ::ConvertInPlace", "PhQ::Convert", "PhQ::ConvertStatically"):
        for f in F.by_qname.get(qn, []):
            if "body" not in f or not f.get("targs"):
                continue
            ut = f["targs"][0]
            if ut not in F.enums:
                # an additional overload written for one unit type (its unit type is in the parameter list, not a
                # template parameter): an entry point like any other
                pts_ = [strip_cvref(t) for t in F.param_types(f)]
                cand = [t for t in pts_[1:] if t in F.enums]
                if qn == "PhQ::ConvertStatically" or not cand:
                    continue
                ut = cand[0]
                f = dict(f, _all_pairs=True)      # written for this unit type: it may single out any pair of units
            pt = strip_cvref(F.T(f["params"][0]["t"]))
            mnum = re.search(r"\b(long double|double|float)\b", pt)
            if not mnum or mnum.group(1) != T:
                continue      # (an instantiation for another numeric type requested by a mixed-precision member: analysed with that type's facts)
            groups.setdefault((qn, ut), []).append(f)
    n = 0
    seen_shapes = {}
    for (qn, ut), fs in sorted(groups.items()):
        units = M.T.enumerators(ut)
        std = M.T.standard.get(ut)
        others = [u for u in units if u != std]
        if not others:
            continue
        pairs = [(others[0], others[-1]), (std, others[-1]), (others[0], std), (others[-1], others[-1])]
        for f in fs:
            pt = strip_cvref(F.T(f["params"][0]["t"]))
            shape = re.sub(r"<.*", "", pt).replace("PhQ::", "").replace("std::", "std") if pt not in ("float", "double", "long double") else "scalar"
            seen_shapes.setdefault(qn, set()).add(shape)
            if only_shapes is not None and shape not in only_shapes:
                continue
            if qn == "PhQ::ConvertStatically":
                x, y = f["targs"][1].split("::")[-1], f["targs"][2].split("::")[-1]
                todo = [(x, y)]
            elif f.get("_all_pairs"):
                todo = [(a_, b_) for a_ in units for b_ in units]
            else:
                todo = pairs
            for x, y in todo:
                inst = "%s<%s>(%s; %s -> %s)" % (qn.replace("PhQ::", ""), M.short(ut), pt.replace("PhQ::", ""), x, y)
                n += 1
                try:
                    E = ev.Evaluator(F)
                    conc = {} if qn == "PhQ::ConvertStatically" else {1: ("enum", ut, x), 2: ("enum", ut, y)}
                    res, _, args = E.run_symbolic(f, arg_prefixes=["v", None, None], concrete=conc)
                    E0 = ev.Evaluator(F)
                    orig = E0.symbolic(F.T(f["params"][0]["t"]), "v")
                    src = [t[1] for _, t in ev.flatten(orig)]
                    if qn == "PhQ::ConvertInPlace":
                        out = E.load(args[0])
                    else:
                        out = E.rv(res)
                        after = E.load(args[0]) if isinstance(args[0], ev.LV) else args[0]
                        if after != orig:
                            chk.violated(r3, inst, "the copying form modifies its argument", short(f["loc"]))
                            continue
                    got = slot_affines(out, T)
                    want = affine.compose(C.frm(ut, y), C.to(ut, x))
                    if x == std:
                        want = C.frm(ut, y)
                    if y == std:
                        want = C.to(ut, x) if x != std else IDENT
                    bad = [p for (p, leaf, a), s in zip(got, src) if leaf != s or not same(a, want)]
                    if bad or len(got) != len(src):
                        chk.violated(r3, inst, "slot %s: got (%s)*v+(%s), expected From_%s o To_%s = (%s)*v+(%s)" % (
                            bad[:1], affine.n_show(got[0][2].A), affine.n_show(got[0][2].B), y, x, affine.n_show(want.A), affine.n_show(want.B)), short(f["loc"]))
                    elif x == y and not same(want, IDENT):
                        chk.violated(r4, inst, "converting a unit to itself is not the identity map", short(f["loc"]))
                    elif rounding_mismatch(out, src, C.to(ut, x), C.frm(ut, y), T):
                        chk.violated(r3, inst, rounding_mismatch(out, src, C.to(ut, x), C.frm(ut, y), T), short(f["loc"]))
                    else:
                        chk.holds(r4 if x == y else r3, inst, "%d slot(s): From_%s o To_%s" % (len(got), y, x), short(f["loc"]))
                except ev.Inconclusive as e:
                    chk.inconclusive(r3, inst, str(e), short(f["loc"]))
    for qn, want_n in (("PhQ::ConvertInPlace", 7), ("PhQ::Convert", 7), ("PhQ::ConvertStatically", 6)):
        if only_shapes is not None:
            want_n = len(only_shapes)
            seen_shapes[qn] = seen_shapes.get(qn, set()) & set(only_shapes)
        if len(seen_shapes.get(qn, ())) < want_n:
            chk.inconclusive(r3, "%s<%s> overload set" % (qn, T), "only shapes %s found (expected %d container forms)" % (sorted(seen_shapes.get(qn, ())), want_n), "PhQ/Unit.hpp")
    chk.coverage.setdefault("free_overload_instances", 0)
    chk.coverage["free_overload_instances"] += n
    return n
