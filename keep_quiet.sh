#!/bin/bash
# usage: keep_quiet.sh <seed dir> <name> <check> [<check>...] : keep an independently produced behaviour-preserving refactor as a quiet control
S="$1"; NAME="$2"; shift 2
cp "$S/patch.diff" /verif/selftest/quiet/$NAME.diff
python3 - "$S" "$NAME" "$@" <<'PY'
import json,sys
s,name=sys.argv[1:3]; checks=sys.argv[3:]
m=json.load(open(s+'/meta.json'))
json.dump({"checks":checks,"why_equivalent":m.get("why_equivalent",""),"summary":m.get("summary",""),"origin":"independent sub-agent; full suite passed and differential demo outputs identical (agent's commands: %s)" % "; ".join(str(c)[:120] for c in m.get("commands_run",[])[:6])},
          open('/verif/selftest/quiet/%s.json'%name,'w'),indent=1)
PY
cp "$S/demo.cc" /verif/selftest/quiet/$NAME.demo.cc 2>/dev/null
echo kept quiet/$NAME
