"""C05 — relations that undo each other really are mutual inverses."""
import itertools
import re
import sympy

from .. import facts, ev, nf, relations, shapes, quant, errdom
from ..facts import short, strip_cvref
from ..frontend import NUMERIC


class Fn:
    def __init__(self, F, r):
        f = r.f
        self.r, self.f = r, f
        self.args = []   # operand type names in order (this first for methods)
        if r.kind in ("op", "member"):
            self.args.append(r.this_q)
        self.args += [strip_cvref(t) for t in F.param_types(f)]
        self.res = r.this_q if r.kind == "ctor" else r.ret_q
        self.label = "%s(%s)" % (f["name"], ", ".join(strip_cvref(t).replace("PhQ::", "") for t in F.param_types(f)))
        self._val = None

    def evaluate(self, F, names):
        """Result as list of sympy expressions (slots) with operands named by `names`."""
        f = self.f
        E = ev.Evaluator(F)
        if self.r.kind in ("op", "member"):
            res, this_lv, _ = E.run_symbolic(f, this_prefix=names[0], arg_prefixes=names[1:])
            val = E.rv(res)
        elif self.r.kind == "ctor":
            res, this_lv, _ = E.run_symbolic(f, arg_prefixes=names)
            val = E.load(this_lv)
        else:
            res, _, _ = E.run_symbolic(f, arg_prefixes=names)
            val = E.rv(res)
        if E.unknown_calls:
            raise ev.Inconclusive("unmodelled call " + E.unknown_calls[0])
        from ..models import narrowing_casts
        nar = narrowing_casts(val, F.numeric)
        self.narrowed = (nar[0][0], ev.show(nar[0][1])[:100]) if nar else None
        conv = nf.Conv(positive=True)
        return [conv(t) for _, t in ev.flatten(val)]


def evaluate_value(F, fn, names, values=None):
    """Evaluate fn with operands named `names`; operands listed in `values` (name -> evaluator value) are passed as
    those values instead of fresh symbols. Returns (Evaluator, result value)."""
    values = values or {}
    f = fn.f
    E = ev.Evaluator(F)
    this_lv = None
    ops = list(names)
    if fn.r.kind in ("op", "member"):
        tn = fn.args[0]
        v = values.get(ops[0]) if ops[0] in values else E.symbolic(tn, ops[0])
        this_lv = E.new_loc(v, "this")
        ops, targs = ops[1:], fn.args[1:]
    elif fn.r.kind == "ctor":
        this_lv = E.new_loc(E.blank(fn.res), "this")
        targs = fn.args
    else:
        targs = fn.args
    args = []
    for nme, p in zip(ops, f["params"]):
        pt = F.T(p["t"])
        v = values[nme] if nme in values else E.symbolic(pt, nme)
        lv = E.new_loc(v, "arg")
        args.append(lv if facts.is_ref(pt) else v)
    res = E.call(f["id"], this_lv, args)
    val = E.load(this_lv) if fn.r.kind == "ctor" else E.rv(res)
    return E, val


def slot_symbols(F, tname, name):
    E = ev.Evaluator(F)
    conv = nf.Conv(positive=True)
    return [conv(t) for _, t in ev.flatten(E.symbolic(tname, name))]


def run(chk):
    chk.level = "other"
    chk.technique = ("inverse pairs enumerated from the resolved signatures of all relation functions; each pair composed symbolically "
                     "(substitution of algebraic normal forms, positive symbols) and compared with the identity")
    chk.rule("R2", "where the composed computation contains no subtraction of rounded quantities, its a-priori forward error (standard model, first order) is <= 24 ulps for all positive inputs")
    chk.rule("R1", "G(F(a, b...), b...) == a algebraically for every pair F: (A,B..)->C, G: (C,B..)->A the library declares")
    chk.assumptions += ["the algebraic inverse law is a necessary condition (a non-identity rational function differs from the identity on an open set of positive inputs); the 'few ulps' clause is decided only by R2's a-priori bound where no cancellation can occur",
                        "pairs involving a direction operand (unit-norm constraint) or a projection (fewer result slots than the recovered operand) are not inverse pairs and are skipped"]
    n_pairs = 0
    skipped = 0
    ambiguous = 0
    decided, undecided, worst = [0], [0], {}
    seen_pairs = set()
    for T in NUMERIC:
        F = facts.load(T, chk.tier)
        rels = [r for r in relations.relations(F) if r.kind in ("ctor", "op", "free_op", "member")]
        fns = []
        for r in rels:
            fn = Fn(F, r)
            if fn.res in ("num", "raw", "void", "other", "bool", None):
                continue
            if any(a in ("float", "double", "long double") or shapes.shape_of_type(F, a) is None for a in fn.args):
                continue
            if any(re.match(r"PhQ::(Planar)?Direction<", a) for a in fn.args + [fn.res]):
                continue
            if not fn.args:
                continue
            nres = quant.SHAPE_N[shapes.shape_of_type(F, fn.res)]
            if len(fn.args) == 1 and nres < quant.SHAPE_N[shapes.shape_of_type(F, fn.args[0])]:
                continue   # one-operand projection (component accessor, magnitude, planar part, von Mises): not invertible
            fns.append(fn)
        by_sig = {}
        for fn in fns:
            by_sig.setdefault((fn.res, tuple(sorted(fn.args))), []).append(fn)
        nslots = lambda t: quant.SHAPE_N[shapes.shape_of_type(F, t)]
        cache = {}
        ecache = {}

        def evaluate(fn, names):
            k = (fn.f["id"], tuple(names))
            if k not in ecache:
                ecache[k] = fn.evaluate(F, names)
            return ecache[k]
        for Ffn in fns:
            for i, ai in enumerate(Ffn.args):
                if nslots(Ffn.res) < nslots(ai):
                    skipped += 1
                    continue
                rest = [a for j, a in enumerate(Ffn.args) if j != i]
                key = (ai, tuple(sorted(rest + [Ffn.res])))
                Gs = list(by_sig.get(key, []))
                if not Gs:
                    continue
                distinct_types = len(set(Ffn.args + [Ffn.res])) == len(Ffn.args) + 1
                inst = "%s ; recover argument %d (%s)" % (Ffn.label, i, ai.replace("PhQ::", ""))
                n_pairs += 1
                results = []
                try:
                    fnames = ["x%d" % j for j in range(len(Ffn.args))]
                    Fres = evaluate(Ffn, fnames)
                    target = slot_symbols(F, ai, fnames[i])
                    csyms = slot_symbols(F, Ffn.res, "c")
                    sub = dict(zip(csyms, Fres))
                    pool = {}
                    for j, a in enumerate(Ffn.args):
                        if j != i:
                            pool.setdefault(a, []).append(fnames[j])
                    want_multiset = sorted(["c"] + [fnames[j] for j in range(len(fnames)) if j != i])
                except ev.Inconclusive as x:
                    if "gamma" in str(x):
                        skipped += 1
                        n_pairs -= 1
                    else:
                        chk.inconclusive("R1", inst, str(x), short(Ffn.f["loc"]))
                    continue
                for Gfn in Gs:
                    loc = short(Gfn.f.get("def_loc", Gfn.f["loc"]))
                    try:
                        cands = [[]]
                        for a in Gfn.args:
                            opts = (["c"] if a == Ffn.res else []) + pool.get(a, [])
                            cands = [c + [o] for c in cands for o in opts]
                        cands = [c for c in cands if sorted(c) == want_multiset]
                        ok, last = False, None
                        for c in cands:
                            Gres = evaluate(Gfn, c)
                            comp = [sympy.sympify(g).subs(sub, simultaneous=True) for g in Gres]
                            if len(comp) == len(target) and all(nf.equal(x, y) for x, y in zip(comp, target)):
                                ok = True
                                break
                            last = comp
                        results.append((Gfn, ok, last, loc))
                    except ev.Inconclusive as x:
                        results.append((Gfn, None, str(x), loc))
                # With all-distinct operand types every declared G must invert F.  When types repeat (a+b, a-b on one
                # type) the signature does not identify which G is meant as the inverse: at least one must invert.
                good = [g for g in results if g[1] is True]
                bad = [g for g in results if g[1] is False]
                inc = [g for g in results if g[1] is None]
                if not distinct_types and not good and bad:
                    # repeated operand types (a+b, a-b, d-p on one family): the signature alone does not say which
                    # function is meant as the inverse and none of the candidates is one -> not an inverse pair
                    ambiguous += 1
                    n_pairs -= 1
                    continue
                if distinct_types and bad:
                    Gfn, _, comp, loc = bad[0]
                    k = next((k for k, (x, y) in enumerate(zip(comp, target)) if not nf.equal(x, y)), 0)
                    w = nf.witness(comp[k], target[k])
                    chk.violated("R1", inst, "%s applied to the result gives %s instead of %s%s" % (Gfn.label, sympy.simplify(comp[k]), target[k], "; e.g. at %s" % w if w else ""), loc, witness=w)
                elif inc and not good:
                    chk.inconclusive("R1", inst, "%s: %s" % (inc[0][0].label, inc[0][2]), inc[0][3])
                elif any(getattr(x, "narrowed", None) for x in [Ffn] + [g[0] for g in good]):
                    nx = next(x for x in [Ffn] + [g[0] for g in good] if getattr(x, "narrowed", None))
                    chk.violated("R1", inst, "%s computes through %s (%s): the round trip returns the original only to %s precision, not to a few ulps of %s" % (nx.label, nx.narrowed[0], nx.narrowed[1], nx.narrowed[0], T), short(nx.f.get("def_loc", nx.f["loc"])))
                else:
                    chk.holds("R1", inst, "inverted by %s" % ", ".join(g[0].label for g in good)[:300], good[0][3] if good else "")
                    # R2: a-priori forward error bound of the composed computation (positive inputs)
                    try:
                        Gfn = good[0][0]
                        EF, valF = evaluate_value(F, Ffn, fnames)
                        cands = [[]]
                        for a in Gfn.args:
                            opts = (["c"] if a == Ffn.res else []) + pool.get(a, [])
                            cands = [c + [o] for c in cands for o in opts]
                        cands = [c for c in cands if sorted(c) == want_multiset]
                        best = None
                        for c in cands:
                            EG, valG = evaluate_value(F, Gfn, c, {"c": valF})
                            terms = [t for _, t in ev.flatten(valG)]
                            conv = nf.Conv(positive=True)
                            if len(terms) == len(target) and all(nf.equal(conv(t), y) for t, y in zip(terms, target)):
                                li = dict(EF.leaf_info)
                                li.update(EG.leaf_info)
                                signs = {n: ("+" if shapes.shape_of_type(F, (info.get("qtype") or T)) == "scalar" else "?") for n, info in li.items()}
                                bs = [errdom.err(t, T, signs)[0] for t in terms]
                                best = None if any(b is None for b in bs) else max(bs)
                                break
                        if best is None:
                            undecided[0] += 1
                        elif best > 24:
                            chk.violated("R2", inst, "a-priori forward error bound of the round trip is %s u (> 24 ulps)" % float(best), good[0][3])
                        else:
                            decided[0] += 1
                            worst[T] = max(worst.get(T, 0.0), float(best))
                    except ev.Inconclusive:
                        undecided[0] += 1
    n_emb = embeddings(chk)
    chk.floor("planar <-> 3-D embeddings (x3 numeric types)", n_emb, 24)
    chk.floor("inverse pairs (x3 numeric types)", n_pairs, 900)
    chk.coverage["pairs"] = n_pairs
    chk.coverage["round_trip_error_bound_decided"] = decided[0]
    chk.coverage["round_trip_error_bound_undecided_cancellation"] = undecided[0]
    chk.coverage["round_trip_error_bound_max_u"] = worst
    if decided[0]:
        chk.holds("R2", "a-priori round-trip bounds", "%d round trips without cancellation: relative error <= %s u; %d with a subtraction of rounded values not decided" % (decided[0], worst, undecided[0]), "")
    chk.coverage["skipped_projection_or_branching"] = skipped
    chk.coverage["ambiguous_same_type_signatures_without_inverse"] = ambiguous


def embeddings(chk):
    """R3: planar -> three-dimensional -> planar is the identity, exactly (slot-wise same leaf, no arithmetic)."""
    chk.rule("R3", "for every planar type P with a three-dimensional counterpart Q: P(Q(p)) has every slot equal to the same slot of p (exact; no arithmetic), "
                   "and Q(p) has p's components in x, y and zero in z")
    n = 0
    for T in NUMERIC:
        F = facts.load(T, chk.tier)
        cands = {}
        for name, rec in F.records.items():
            if not name.endswith("<%s>" % T) or not name.startswith("PhQ::"):
                continue
            sh = shapes.shape_of_type(F, name)
            if sh in ("planar", "vector"):
                cands[name] = sh
        for pname, sh in sorted(cands.items()):
            if sh != "planar":
                continue
            for qname, sh2 in sorted(cands.items()):
                if sh2 != "vector":
                    continue
                up = [f for f in F.methods(qname) if f["kind"] == "ctor" and "body" in f and len(f["params"]) == 1 and strip_cvref(F.T(f["params"][0]["t"])) == pname]
                down = [f for f in F.methods(pname) if f["kind"] == "ctor" and "body" in f and len(f["params"]) == 1 and strip_cvref(F.T(f["params"][0]["t"])) == qname]
                if not up or not down:
                    continue
                n += 1
                inst = "%s -> %s -> %s" % (pname.replace("PhQ::", ""), qname.replace("PhQ::", ""), pname.replace("PhQ::", ""))
                loc = short(down[0].get("def_loc", down[0]["loc"]))
                try:
                    E = ev.Evaluator(F)
                    p0 = E.symbolic(pname, "p")
                    qlv = E.new_loc(E.blank(qname), "this")
                    E.call(up[0]["id"], qlv, [E.new_loc(p0, "arg")])
                    qv = E.load(qlv)
                    plv = E.new_loc(E.blank(pname), "this")
                    E.call(down[0]["id"], plv, [E.new_loc(qv, "arg")])
                    back = [t for _, t in ev.flatten(E.load(plv))]
                    orig = [t for _, t in ev.flatten(p0)]
                    up_slots = [t for _, t in ev.flatten(qv)]
                    is_dir = "Direction<" in pname
                    if is_dir:
                        # directions re-normalise on the way: compare algebraically under |p| = 1 is out of reach; require the
                        # numerators to be the original slots in order
                        from .c10 import classify_direction_value, strip_cast
                        k1, d1 = classify_direction_value(up_slots, set())
                        ok = k1 == "normalised" and [strip_cast(c) for c in d1[:2]] == orig and d1[2] == ev.ZERO
                        detail = "3-D direction normalises (p.x, p.y, 0)"
                        if not ok and up_slots[:2] == orig and up_slots[2] == ev.ZERO:
                            ok, detail = True, "3-D direction stores (p.x, p.y, 0) exactly (a planar unit vector embedded is a unit vector)"
                    else:
                        ok = back == orig and up_slots[:2] == orig and up_slots[2] == ev.ZERO
                        detail = "slots preserved exactly; z = 0"
                    if ok:
                        chk.holds("R3", inst, detail, loc)
                    else:
                        chk.violated("R3", inst, "embedding gives %s and the way back gives %s (expected the original slots %s)" % ([ev.show(x)[:40] for x in up_slots], [ev.show(x)[:40] for x in back], [ev.show(x) for x in orig]), loc)
                except ev.Inconclusive as x:
                    chk.inconclusive("R3", inst, str(x), loc)
    chk.coverage["embeddings"] = n
    return n
