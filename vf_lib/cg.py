"""Syntactic walks over extracted bodies: references, call graph, reachability."""


def walk(node, fn):
    """Pre-order walk over every dict node of a body/initialiser tree."""
    stack = [node]
    while stack:
        n = stack.pop()
        if isinstance(n, dict):
            fn(n)
            stack.extend(n.values())
        elif isinstance(n, list):
            stack.extend(n)


def body_nodes(f):
    out = []
    for part in (f.get("body"), f.get("inits")):
        if part is not None:
            walk(part, out.append)
    return out


def callees(f):
    out = set()
    for n in body_nodes(f):
        if n.get("k") in ("call", "ctor", "fnref", "methref", "lambda", "inhctor") and "f" in n:
            out.add(n["f"])
    return out


def gvar_refs(f):
    return {n["v"] for n in body_nodes(f) if n.get("k") == "gvar"}


def tree_gvar_refs(tree):
    out = set()
    walk(tree, lambda n: out.add(n["v"]) if n.get("k") == "gvar" else None)
    return out


def tree_callees(tree):
    out = set()
    walk(tree, lambda n: out.add(n["f"]) if n.get("k") in ("call", "ctor", "fnref", "methref", "lambda") and "f" in n else None)
    return out


def reachable(F, roots):
    seen = set()
    stack = list(roots)
    while stack:
        i = stack.pop()
        if i in seen or i not in F.fns:
            continue
        seen.add(i)
        stack.extend(callees(F.fns[i]))
    return seen
