// Differential program for the C02r refactor (Unit.hpp conversion plumbing and Temperature.hpp
// conversion constants). Prints every result either in full (hexfloat) or as an FNV-1a digest of
// the hexfloat text of all results.
#include <PhQ/Dyad.hpp>
#include <PhQ/Length.hpp>
#include <PhQ/PlanarPosition.hpp>
#include <PhQ/PlanarTemperatureGradient.hpp>
#include <PhQ/PlanarVector.hpp>
#include <PhQ/Position.hpp>
#include <PhQ/Stress.hpp>
#include <PhQ/SymmetricDyad.hpp>
#include <PhQ/Temperature.hpp>
#include <PhQ/TemperatureGradient.hpp>
#include <PhQ/Unit/Frequency.hpp>
#include <PhQ/Unit/Length.hpp>
#include <PhQ/Unit/Pressure.hpp>
#include <PhQ/Unit/Temperature.hpp>
#include <PhQ/Unit/TemperatureGradient.hpp>
#include <PhQ/Vector.hpp>
#include <PhQ/VelocityGradient.hpp>
#include <array>
#include <cmath>
#include <cstdint>
#include <cstdio>
#include <limits>
#include <random>
#include <string>
#include <type_traits>
#include <utility>
#include <vector>

namespace {

template <typename T>
const char* TypeName() {
  if (std::is_same<T, float>::value) return "float";
  if (std::is_same<T, double>::value) return "double";
  return "long double";
}

template <typename T>
std::string Hex(const T value) {
  char buffer[96];
  std::snprintf(buffer, sizeof(buffer), "%La", static_cast<long double>(value));
  return buffer;
}

struct Digest {
  std::uint64_t state = 1469598103934665603ULL;
  std::uint64_t count = 0;
  void Add(const std::string& text) {
    for (const char c : text) {
      state ^= static_cast<unsigned char>(c);
      state *= 1099511628211ULL;
    }
    state ^= 0xffU;
    state *= 1099511628211ULL;
    ++count;
  }
  template <typename T>
  void AddValue(const T value) {
    Add(Hex(value));
  }
  template <typename T, std::size_t N>
  void AddArray(const std::array<T, N>& values) {
    for (const T value : values) AddValue(value);
  }
  template <typename T>
  void AddVector(const std::vector<T>& values) {
    AddValue(static_cast<double>(values.size()));
    for (const T value : values) AddValue(value);
  }
};

template <typename T>
std::vector<T> TestValues(const std::uint64_t seed) {
  using L = std::numeric_limits<T>;
  std::vector<T> values{
    static_cast<T>(0),        -static_cast<T>(0),       L::denorm_min(),         -L::denorm_min(),
    L::min(),                 -L::min(),                L::max(),                -L::max(),
    L::epsilon(),             static_cast<T>(1),        static_cast<T>(-1),      static_cast<T>(273.15L),
    static_cast<T>(-273.15L), static_cast<T>(459.67L),  static_cast<T>(-459.67L), static_cast<T>(1.8L),
    static_cast<T>(0.3048L),  static_cast<T>(101325.0L), static_cast<T>(1.0e10L), static_cast<T>(-1.0e-10L),
    static_cast<T>(32),       static_cast<T>(212),      static_cast<T>(491.67L), static_cast<T>(-40),
    L::infinity(),            -L::infinity(),           L::quiet_NaN(),          L::max() / static_cast<T>(2),
    L::min() * static_cast<T>(3), static_cast<T>(1.0e-30L), static_cast<T>(3.0e30L), static_cast<T>(1) / static_cast<T>(3)};
  std::mt19937_64 generator(seed);
  std::uniform_real_distribution<long double> mantissa(1.0L, 2.0L);
  std::uniform_int_distribution<int> exponent(-40, 40);
  std::uniform_int_distribution<int> wide_exponent(L::min_exponent - L::digits, L::max_exponent - 1);
  std::uniform_int_distribution<int> coin(0, 1);
  for (int i = 0; i < 160; ++i) {
    const long double m = mantissa(generator);
    const int e = (i % 4 == 3) ? wide_exponent(generator) : exponent(generator);
    const long double sign = coin(generator) == 0 ? 1.0L : -1.0L;
    values.push_back(static_cast<T>(sign * std::ldexp(m, e)));
  }
  return values;
}

// Exercises every run-time free conversion entry point for a unit type.
template <typename UnitT, typename T>
void ExerciseFree(const char* unit_name, const std::vector<UnitT>& units, const bool full) {
  const std::vector<T> values = TestValues<T>(0xC02ULL + sizeof(T));
  const std::size_t n = values.size();
  for (const UnitT from : units) {
    for (const UnitT to : units) {
      Digest scalar, scalar_in_place, array5, array5_in_place, array0, vec, vec_in_place, empty_vec,
          planar, planar_in_place, vector3, vector3_in_place, symdyad, symdyad_in_place, dyad,
          dyad_in_place, untouched;
      for (std::size_t i = 0; i < n; ++i) {
        const T v = values[i];
        const T r = PhQ::Convert(v, from, to);
        scalar.AddValue(r);
        if (full) {
          std::printf("%s %s %d->%d %s => %s\n", unit_name, TypeName<T>(), static_cast<int>(from),
                      static_cast<int>(to), Hex(v).c_str(), Hex(r).c_str());
        }
        T w = v;
        PhQ::ConvertInPlace(w, from, to);
        scalar_in_place.AddValue(w);

        const auto at = [&values, n, i](const std::size_t k) { return values[(i + 7 * k) % n]; };

        const std::array<T, 5> a5{at(0), at(1), at(2), at(3), at(4)};
        const std::array<T, 5> a5_before = a5;
        array5.AddArray(PhQ::Convert(a5, from, to));
        untouched.AddArray(a5);
        untouched.AddArray(a5_before);
        std::array<T, 5> a5m = a5;
        PhQ::ConvertInPlace(a5m, from, to);
        array5_in_place.AddArray(a5m);

        const std::array<T, 0> a0{};
        array0.AddValue(static_cast<double>(PhQ::Convert(a0, from, to).size()));

        std::vector<T> vs;
        for (std::size_t k = 0; k < (i % 11); ++k) vs.push_back(at(k));
        const std::vector<T> vs_const = vs;
        vec.AddVector(PhQ::Convert(vs_const, from, to));
        untouched.AddVector(vs_const);
        PhQ::ConvertInPlace(vs, from, to);
        vec_in_place.AddVector(vs);
        const std::vector<T> none;
        empty_vec.AddVector(PhQ::Convert(none, from, to));

        const PhQ::PlanarVector<T> pv{at(0), at(1)};
        planar.AddArray(PhQ::Convert(pv, from, to).x_y());
        untouched.AddArray(pv.x_y());
        PhQ::PlanarVector<T> pvm = pv;
        PhQ::ConvertInPlace(pvm, from, to);
        planar_in_place.AddArray(pvm.x_y());

        const PhQ::Vector<T> v3{at(0), at(1), at(2)};
        vector3.AddArray(PhQ::Convert(v3, from, to).x_y_z());
        untouched.AddArray(v3.x_y_z());
        PhQ::Vector<T> v3m = v3;
        PhQ::ConvertInPlace(v3m, from, to);
        vector3_in_place.AddArray(v3m.x_y_z());

        const PhQ::SymmetricDyad<T> sd{at(0), at(1), at(2), at(3), at(4), at(5)};
        symdyad.AddArray(PhQ::Convert(sd, from, to).xx_xy_xz_yy_yz_zz());
        untouched.AddArray(sd.xx_xy_xz_yy_yz_zz());
        PhQ::SymmetricDyad<T> sdm = sd;
        PhQ::ConvertInPlace(sdm, from, to);
        symdyad_in_place.AddArray(sdm.xx_xy_xz_yy_yz_zz());

        const PhQ::Dyad<T> dy{at(0), at(1), at(2), at(3), at(4), at(5), at(6), at(7), at(8)};
        dyad.AddArray(PhQ::Convert(dy, from, to).xx_xy_xz_yx_yy_yz_zx_zy_zz());
        untouched.AddArray(dy.xx_xy_xz_yx_yy_yz_zx_zy_zz());
        PhQ::Dyad<T> dym = dy;
        PhQ::ConvertInPlace(dym, from, to);
        dyad_in_place.AddArray(dym.xx_xy_xz_yx_yy_yz_zx_zy_zz());
      }
      std::printf(
          "FREE %s %s %d->%d scalar=%016llx/%016llx array5=%016llx/%016llx array0=%016llx "
          "vector=%016llx/%016llx empty=%016llx planar=%016llx/%016llx vector3=%016llx/%016llx "
          "symdyad=%016llx/%016llx dyad=%016llx/%016llx untouched=%016llx\n",
          unit_name, TypeName<T>(), static_cast<int>(from), static_cast<int>(to),
          static_cast<unsigned long long>(scalar.state),
          static_cast<unsigned long long>(scalar_in_place.state),
          static_cast<unsigned long long>(array5.state),
          static_cast<unsigned long long>(array5_in_place.state),
          static_cast<unsigned long long>(array0.state), static_cast<unsigned long long>(vec.state),
          static_cast<unsigned long long>(vec_in_place.state),
          static_cast<unsigned long long>(empty_vec.state),
          static_cast<unsigned long long>(planar.state),
          static_cast<unsigned long long>(planar_in_place.state),
          static_cast<unsigned long long>(vector3.state),
          static_cast<unsigned long long>(vector3_in_place.state),
          static_cast<unsigned long long>(symdyad.state),
          static_cast<unsigned long long>(symdyad_in_place.state),
          static_cast<unsigned long long>(dyad.state),
          static_cast<unsigned long long>(dyad_in_place.state),
          static_cast<unsigned long long>(untouched.state));
    }
  }
}

// Compile-time entry points for one (From, To) pair of a unit type.
template <typename UnitT, UnitT From, UnitT To, typename T>
void ExerciseStaticPair(const char* unit_name, Digest& digest, const bool full) {
  const std::vector<T> values = TestValues<T>(0x57A7ULL + sizeof(T));
  const std::size_t n = values.size();
  for (std::size_t i = 0; i < n; ++i) {
    const auto at = [&values, n, i](const std::size_t k) { return values[(i + 5 * k) % n]; };
    const T r = PhQ::ConvertStatically<UnitT, From, To>(at(0));
    digest.AddValue(r);
    if (full) {
      std::printf("STATIC %s %s %d->%d %s => %s\n", unit_name, TypeName<T>(),
                  static_cast<int>(From), static_cast<int>(To), Hex(at(0)).c_str(), Hex(r).c_str());
    }
    const std::array<T, 4> a4{at(0), at(1), at(2), at(3)};
    digest.AddArray(PhQ::ConvertStatically<UnitT, From, To>(a4));
    digest.AddArray(a4);
    const PhQ::PlanarVector<T> pv{at(0), at(1)};
    digest.AddArray(PhQ::ConvertStatically<UnitT, From, To>(pv).x_y());
    const PhQ::Vector<T> v3{at(0), at(1), at(2)};
    digest.AddArray(PhQ::ConvertStatically<UnitT, From, To>(v3).x_y_z());
    const PhQ::SymmetricDyad<T> sd{at(0), at(1), at(2), at(3), at(4), at(5)};
    digest.AddArray(PhQ::ConvertStatically<UnitT, From, To>(sd).xx_xy_xz_yy_yz_zz());
    const PhQ::Dyad<T> dy{at(0), at(1), at(2), at(3), at(4), at(5), at(6), at(7), at(8)};
    digest.AddArray(PhQ::ConvertStatically<UnitT, From, To>(dy).xx_xy_xz_yx_yy_yz_zx_zy_zz());
  }
  // Genuinely compile-time evaluations.
  constexpr T c0 = PhQ::ConvertStatically<UnitT, From, To>(static_cast<T>(36.6L));
  constexpr std::array<T, 3> c1 = PhQ::ConvertStatically<UnitT, From, To>(
      std::array<T, 3>{static_cast<T>(-40), static_cast<T>(0), static_cast<T>(1.0e3L)});
  constexpr PhQ::Vector<T> c2 = PhQ::ConvertStatically<UnitT, From, To>(
      PhQ::Vector<T>{static_cast<T>(0.1L), static_cast<T>(-0.2L), static_cast<T>(300)});
  digest.AddValue(c0);
  digest.AddArray(c1);
  digest.AddArray(c2.x_y_z());
  std::printf("CONSTEXPR %s %s %d->%d %s %s %s %s %s %s %s\n", unit_name, TypeName<T>(),
              static_cast<int>(From), static_cast<int>(To), Hex(c0).c_str(), Hex(c1[0]).c_str(),
              Hex(c1[1]).c_str(), Hex(c1[2]).c_str(), Hex(c2.x()).c_str(), Hex(c2.y()).c_str(),
              Hex(c2.z()).c_str());
}

template <typename UnitT, typename T, UnitT From, UnitT... To>
void ExerciseStaticRow(const char* unit_name, const bool full) {
  Digest digest;
  (ExerciseStaticPair<UnitT, From, To, T>(unit_name, digest, full), ...);
  std::printf("STATICROW %s %s from=%d digest=%016llx count=%llu\n", unit_name, TypeName<T>(),
              static_cast<int>(From), static_cast<unsigned long long>(digest.state),
              static_cast<unsigned long long>(digest.count));
}

template <typename UnitT, typename T, UnitT... Units>
struct StaticAllPairs {
  static void Run(const char* unit_name, const bool full) {
    (ExerciseStaticRow<UnitT, T, Units, Units...>(unit_name, full), ...);
  }
};

using UT = PhQ::Unit::Temperature;
using UL = PhQ::Unit::Length;
using UG = PhQ::Unit::TemperatureGradient;
using UP = PhQ::Unit::Pressure;
using UF = PhQ::Unit::Frequency;

// Quantity member entry points: constructor in a unit, Value(unit), StaticValue, Create, printing
// and serialisation in a unit.
template <typename T, UT Made, UT Read>
void TemperatureStaticPair(const std::vector<T>& values) {
  Digest digest;
  for (const T v : values) {
    const PhQ::Temperature<T> created = PhQ::Temperature<T>::template Create<Made>(v);
    digest.AddValue(created.Value());
    digest.AddValue(created.template StaticValue<Read>());
    const PhQ::Temperature<T> constructed(v, Made);
    digest.AddValue(constructed.Value());
    digest.AddValue(constructed.Value(Read));
    digest.AddValue(constructed.template StaticValue<Read>());
    std::printf("TEMPERATURE %s %d/%d %s : %s %s %s %s | %s | %s | %s | %s\n", TypeName<T>(),
                static_cast<int>(Made), static_cast<int>(Read), Hex(v).c_str(),
                Hex(created.Value()).c_str(), Hex(created.template StaticValue<Read>()).c_str(),
                Hex(constructed.Value()).c_str(), Hex(constructed.Value(Read)).c_str(),
                constructed.Print(Read).c_str(), constructed.JSON(Read).c_str(),
                constructed.XML(Read).c_str(), constructed.YAML(Read).c_str());
  }
  constexpr PhQ::Temperature<T> boiling = PhQ::Temperature<T>::template Create<Made>(static_cast<T>(212));
  constexpr T read_back = boiling.template StaticValue<Read>();
  std::printf("TEMPERATURE-CONSTEXPR %s %d/%d %s %s digest=%016llx\n", TypeName<T>(),
              static_cast<int>(Made), static_cast<int>(Read), Hex(boiling.Value()).c_str(),
              Hex(read_back).c_str(), static_cast<unsigned long long>(digest.state));
}

template <typename T, UT Made, UT... Read>
void TemperatureStaticRow(const std::vector<T>& values) {
  (TemperatureStaticPair<T, Made, Read>(values), ...);
}

template <typename T, UT... Units>
void TemperatureStaticAll(const std::vector<T>& values) {
  (TemperatureStaticRow<T, Units, Units...>(values), ...);
}

template <typename T>
void ExerciseQuantities() {
  std::vector<T> values = TestValues<T>(0xABCDULL + sizeof(T));
  values.resize(72);  // edge cases and a block of random values
  TemperatureStaticAll<T, UT::Kelvin, UT::Celsius, UT::Rankine, UT::Fahrenheit>(values);

  const std::size_t n = values.size();
  const std::vector<UL> lengths{UL::Metre, UL::Mile, UL::Foot, UL::Inch, UL::Millimetre, UL::Microinch};
  const std::vector<UG> gradients{UG::KelvinPerMetre,  UG::KelvinPerMillimetre, UG::CelsiusPerMetre,
                                  UG::CelsiusPerMillimetre, UG::RankinePerFoot, UG::RankinePerInch,
                                  UG::FahrenheitPerFoot, UG::FahrenheitPerInch};
  const std::vector<UP> pressures{UP::Pascal, UP::Kilopascal, UP::Megapascal, UP::Gigapascal,
                                  UP::Bar, UP::Atmosphere, UP::PoundPerSquareFoot, UP::PoundPerSquareInch};
  const std::vector<UF> frequencies{UF::Hertz, UF::Kilohertz, UF::Megahertz, UF::Gigahertz,
                                    UF::PerMinute, UF::PerHour};
  for (std::size_t i = 0; i < n; i += 3) {
    const auto at = [&values, n, i](const std::size_t k) { return values[(i + 3 * k) % n]; };
    for (const UL made : lengths) {
      const PhQ::Length<T> length(at(0), made);
      const PhQ::Position<T> position(PhQ::Vector<T>{at(0), at(1), at(2)}, made);
      const PhQ::PlanarPosition<T> planar_position(PhQ::PlanarVector<T>{at(0), at(1)}, made);
      for (const UL read : lengths) {
        const PhQ::Vector<T> p = position.Value(read);
        const PhQ::PlanarVector<T> q = planar_position.Value(read);
        std::printf("LENGTH %s %d/%d %s %s %s %s %s %s | %s | %s | %s | %s | %s\n", TypeName<T>(),
                    static_cast<int>(made), static_cast<int>(read), Hex(length.Value(read)).c_str(),
                    Hex(p.x()).c_str(), Hex(p.y()).c_str(), Hex(p.z()).c_str(), Hex(q.x()).c_str(),
                    Hex(q.y()).c_str(), length.Print(read).c_str(), position.Print(read).c_str(),
                    position.JSON(read).c_str(), planar_position.XML(read).c_str(),
                    planar_position.YAML(read).c_str());
      }
    }
    for (const UG made : gradients) {
      const PhQ::TemperatureGradient<T> gradient(PhQ::Vector<T>{at(0), at(1), at(2)}, made);
      const PhQ::PlanarTemperatureGradient<T> planar_gradient(PhQ::PlanarVector<T>{at(1), at(2)}, made);
      for (const UG read : gradients) {
        const PhQ::Vector<T> g = gradient.Value(read);
        const PhQ::PlanarVector<T> h = planar_gradient.Value(read);
        std::printf("GRADIENT %s %d/%d %s %s %s %s %s | %s | %s\n", TypeName<T>(),
                    static_cast<int>(made), static_cast<int>(read), Hex(g.x()).c_str(),
                    Hex(g.y()).c_str(), Hex(g.z()).c_str(), Hex(h.x()).c_str(), Hex(h.y()).c_str(),
                    gradient.JSON(read).c_str(), planar_gradient.Print(read).c_str());
      }
    }
    for (const UP made : pressures) {
      const PhQ::Stress<T> stress(
          PhQ::SymmetricDyad<T>{at(0), at(1), at(2), at(3), at(4), at(5)}, made);
      for (const UP read : pressures) {
        Digest digest;
        digest.AddArray(stress.Value(read).xx_xy_xz_yy_yz_zz());
        std::printf("STRESS %s %d/%d %016llx | %s | %s\n", TypeName<T>(), static_cast<int>(made),
                    static_cast<int>(read), static_cast<unsigned long long>(digest.state),
                    stress.Print(read).c_str(), stress.YAML(read).c_str());
      }
    }
    for (const UF made : frequencies) {
      const PhQ::VelocityGradient<T> velocity_gradient(
          PhQ::Dyad<T>{at(0), at(1), at(2), at(3), at(4), at(5), at(6), at(7), at(8)}, made);
      for (const UF read : frequencies) {
        Digest digest;
        digest.AddArray(velocity_gradient.Value(read).xx_xy_xz_yx_yy_yz_zx_zy_zz());
        std::printf("VELGRAD %s %d/%d %016llx | %s | %s\n", TypeName<T>(), static_cast<int>(made),
                    static_cast<int>(read), static_cast<unsigned long long>(digest.state),
                    velocity_gradient.Print(read).c_str(), velocity_gradient.XML(read).c_str());
      }
    }
  }
  // Compile-time creation and read-back of the non-scalar shapes.
  constexpr PhQ::Position<T> position = PhQ::Position<T>::template Create<UL::Foot>(
      static_cast<T>(1), static_cast<T>(-2), static_cast<T>(3.5L));
  constexpr PhQ::Vector<T> position_inch = position.template StaticValue<UL::Inch>();
  constexpr PhQ::Stress<T> stress = PhQ::Stress<T>::template Create<UP::PoundPerSquareInch>(
      static_cast<T>(1), static_cast<T>(2), static_cast<T>(3), static_cast<T>(4), static_cast<T>(5),
      static_cast<T>(6));
  constexpr PhQ::SymmetricDyad<T> stress_bar = stress.template StaticValue<UP::Bar>();
  constexpr PhQ::TemperatureGradient<T> gradient =
      PhQ::TemperatureGradient<T>::template Create<UG::FahrenheitPerInch>(
          static_cast<T>(7), static_cast<T>(-8), static_cast<T>(9));
  constexpr PhQ::Vector<T> gradient_cmm = gradient.template StaticValue<UG::CelsiusPerMillimetre>();
  Digest digest;
  digest.AddArray(position.Value().x_y_z());
  digest.AddArray(position_inch.x_y_z());
  digest.AddArray(stress.Value().xx_xy_xz_yy_yz_zz());
  digest.AddArray(stress_bar.xx_xy_xz_yy_yz_zz());
  digest.AddArray(gradient.Value().x_y_z());
  digest.AddArray(gradient_cmm.x_y_z());
  std::printf("SHAPES-CONSTEXPR %s %016llx %s %s %s %s\n", TypeName<T>(),
              static_cast<unsigned long long>(digest.state), Hex(position_inch.z()).c_str(),
              Hex(stress_bar.zz()).c_str(), Hex(gradient_cmm.y()).c_str(),
              Hex(gradient.Value().x()).c_str());
}

template <typename T>
void RunAll() {
  const std::vector<UT> temperatures{UT::Kelvin, UT::Celsius, UT::Rankine, UT::Fahrenheit};
  const std::vector<UL> lengths{UL::Metre,     UL::NauticalMile, UL::Mile,       UL::Kilometre,
                                UL::Yard,      UL::Foot,         UL::Decimetre,  UL::Inch,
                                UL::Centimetre, UL::Millimetre,  UL::Milliinch,  UL::Micrometre,
                                UL::Microinch};
  const std::vector<UG> gradients{UG::KelvinPerMetre,  UG::KelvinPerMillimetre, UG::CelsiusPerMetre,
                                  UG::CelsiusPerMillimetre, UG::RankinePerFoot, UG::RankinePerInch,
                                  UG::FahrenheitPerFoot, UG::FahrenheitPerInch};
  const std::vector<UP> pressures{UP::Pascal, UP::Kilopascal, UP::Megapascal, UP::Gigapascal,
                                  UP::Bar, UP::Atmosphere, UP::PoundPerSquareFoot, UP::PoundPerSquareInch};
  const std::vector<UF> frequencies{UF::Hertz, UF::Kilohertz, UF::Megahertz, UF::Gigahertz,
                                    UF::PerMinute, UF::PerHour};
  ExerciseFree<UT, T>("Temperature", temperatures, true);
  ExerciseFree<UL, T>("Length", lengths, false);
  ExerciseFree<UG, T>("TemperatureGradient", gradients, false);
  ExerciseFree<UP, T>("Pressure", pressures, false);
  ExerciseFree<UF, T>("Frequency", frequencies, false);

  StaticAllPairs<UT, T, UT::Kelvin, UT::Celsius, UT::Rankine, UT::Fahrenheit>::Run("Temperature", true);
  StaticAllPairs<UL, T, UL::Metre, UL::Mile, UL::Foot, UL::Inch, UL::Microinch>::Run("Length", false);
  StaticAllPairs<UG, T, UG::KelvinPerMetre, UG::CelsiusPerMillimetre, UG::RankinePerFoot,
                 UG::FahrenheitPerInch>::Run("TemperatureGradient", false);
  StaticAllPairs<UP, T, UP::Pascal, UP::Atmosphere, UP::PoundPerSquareInch>::Run("Pressure", false);

  ExerciseQuantities<T>();
}

}  // namespace

int main() {
  RunAll<float>();
  RunAll<double>();
  RunAll<long double>();
  return 0;
}
