"""C18 — named physical definitions evaluate their textbook formulas."""
import sys
import sympy

from fractions import Fraction
from .. import facts, ev, nf, shapes, errdom
from ..facts import short, strip_cvref
from ..frontend import NUMERIC, VERIF

sys.path.insert(0, VERIF)
from oracle import formulas as FM  # noqa: E402


def tshort(F, t):
    return strip_cvref(t).replace("PhQ::", "").replace("<%s>" % F.numeric, "")


def locate(F, entry):
    name, kind, cls = entry[0], entry[1], entry[2]
    T = F.numeric
    cname = "PhQ::%s<%s>" % (cls, T)
    if kind == "ctor":
        ptypes = entry[3]
        return [f for f in F.methods(cname) if f["kind"] == "ctor" and "body" in f and [tshort(F, t) for t in F.param_types(f)] == ptypes]
    mname, ptypes = entry[3], entry[4]
    return [f for f in F.methods(cname, mname) if "body" in f and [tshort(F, t) for t in F.param_types(f)] == ptypes]


def run(chk):
    chk.level = "other"
    chk.technique = ("each definitional constructor/member located by its parameter *types*, evaluated to terms, normalised with sympy "
                     "(positive symbols, exact rationals, radicals) and compared with the textbook formula from oracle/formulas.py")
    chk.rule("R3", "the implementation's evaluation is not worse conditioned than the definition as written: when the textbook form has an a-priori "
                   "error bound, so has the form the library evaluates")
    chk.rule("R2", "where the formula as written contains no subtraction of rounded quantities, an a-priori forward error bound (standard model, first order) holds for all positive inputs: <= 16 ulps")
    chk.rule("R1", "the implementing function exists for each numeric type and its algebraic normal form equals the textbook formula, constants included")
    chk.assumptions += ["few-ulp accuracy is decided only by R2's a-priori bound where no cancellation can occur; formulas with a subtraction of rounded intermediates (listed in coverage) are NOT decided",
                        "inputs positive (square roots are taken of positive quantities)"]
    n = 0
    undecided = []
    worst_all = {}
    for T in NUMERIC:
        F = facts.load(T, chk.tier)
        for entry in FM.FORMULAS:
            name, kind, cls = entry[0], entry[1], entry[2]
            oracle = entry[-1]
            sig = "%s<%s> %s" % (cls, T, "(%s)" % ", ".join(entry[3]) if kind == "ctor" else "::%s(%s)" % (entry[3], ", ".join(entry[4])))
            fs = locate(F, entry)
            if len(fs) != 1:
                chk.inconclusive("R1", "%s | %s" % (name, sig), "expected exactly one function with this signature, found %d (anchor vanished?)" % len(fs), "")
                continue
            f = fs[0]
            n += 1
            loc = short(f.get("def_loc", f["loc"]))
            try:
                E = ev.Evaluator(F)
                nparams = len(f["params"])
                res, this_lv, args = E.run_symbolic(f, this_prefix="self", arg_prefixes=["p%d" % i for i in range(nparams)])
                from ..models import narrowing_casts
                nar = narrowing_casts(E.load(this_lv) if kind == "ctor" else E.rv(res), T)
                if nar:
                    chk.violated("R1", "%s | %s" % (name, sig), "the %s instance computes through %s (%s): not the formula to a few ulps of %s" % (T, nar[0][0], ev.show(nar[0][1])[:100], T), loc)
                    continue
                conv = nf.Conv(positive=True)
                E0 = ev.Evaluator(F)
                ins = []
                if kind == "member":
                    ins.append(shapes.to_sympy(conv, F, F.T(f["parent"]), E0.symbolic(F.T(f["parent"]), "self"))[0])
                for i, p in enumerate(f["params"]):
                    ins.append(shapes.to_sympy(conv, F, F.T(p["t"]), E0.symbolic(F.T(p["t"]), "p%d" % i))[0])
                want = oracle(*ins)
                if kind == "ctor":
                    got, gs = shapes.to_sympy(conv, F, F.T(f["parent"]), E.load(this_lv))
                else:
                    got, gs = shapes.to_sympy(conv, F, F.T(f["ret"]), E.rv(res))
                bad = None
                if isinstance(got, sympy.MatrixBase):
                    if not isinstance(want, sympy.MatrixBase) or want.shape != got.shape:
                        bad = ("result shape %s vs formula shape %s" % (got.shape, getattr(want, "shape", "scalar")), None)
                    else:
                        for i in range(got.shape[0]):
                            for j in range(got.shape[1]):
                                if not nf.equal(got[i, j], want[i, j]):
                                    bad = ("component (%d,%d) is %s, the definition gives %s" % (i, j, sympy.simplify(got[i, j]), sympy.simplify(want[i, j])), (got[i, j], want[i, j]))
                                    break
                            if bad:
                                break
                else:
                    if isinstance(want, sympy.MatrixBase):
                        bad = ("scalar result vs tensor formula", None)
                    elif not nf.equal(got, want):
                        bad = ("computes %s, the definition is %s" % (sympy.simplify(got), sympy.simplify(want)), (got, want))
                if bad is None:
                    chk.holds("R1", "%s | %s" % (name, sig), "= %s" % (str(sympy.simplify(want))[:120] if not isinstance(want, sympy.MatrixBase) else "tensor formula"), loc)
                    # R2: a-priori forward error bound of the evaluation as written (all positive inputs)
                    val = E.load(this_lv) if kind == "ctor" else E.rv(res)
                    signs = {n: ("+" if shapes.shape_of_type(F, (info.get("qtype") or T)) == "scalar" else "?") for n, info in E.leaf_info.items()}
                    worst, undec = Fraction(0), 0
                    for _, term in ev.flatten(val):
                        b, _s = errdom.err(term, T, signs)
                        if b is None:
                            undec += 1
                        else:
                            worst = max(worst, b)
                    inst2 = "%s | %s" % (name, sig)
                    # R3: conditioning must not be worse than that of the definition as written in the oracle
                    if undec:
                        try:
                            wants = list(want) if isinstance(want, sympy.MatrixBase) else [want]
                            ob = [errdom.err(errdom.term_of_sympy(w), T, signs)[0] for w in wants if w != 0]
                            if ob and all(b is not None for b in ob):
                                chk.violated("R3", inst2, "the definition as written has an a-priori error bound of %.1f u for all inputs, but the implementation "
                                                          "evaluates it in a form with a subtraction of rounded intermediates (no bound: catastrophic "
                                                          "cancellation for some inputs), e.g. %s" % (float(max(ob)), ev.show([t for _, t in ev.flatten(val)][0])[:160]), loc)
                                continue
                        except (ValueError, AttributeError):
                            pass
                    if undec:
                        undecided.append(inst2)
                    elif worst > 16:
                        chk.violated("R2", inst2, "a-priori forward error bound %s u exceeds 16 ulps: the formula as written loses accuracy for all inputs" % float(worst), loc)
                    else:
                        chk.holds("R2", inst2, "relative error <= %.1f u (<= %.1f ulp) for all positive inputs" % (float(worst), float(worst)), loc)
                        worst_all[T] = max(worst_all.get(T, 0.0), float(worst))
                else:
                    w = nf.witness(bad[1][0], bad[1][1]) if bad[1] else None
                    chk.violated("R1", "%s | %s" % (name, sig), bad[0] + ("; e.g. at %s" % w if w else ""), loc, witness=w)
            except ev.Inconclusive as x:
                chk.inconclusive("R1", "%s | %s" % (name, sig), str(x), loc)
    chk.floor("formula instances (x3 numeric types)", n, 3 * len(FM.FORMULAS) - 3)
    chk.coverage["formulas"] = len(FM.FORMULAS)
    chk.coverage["forward_error_bound_max_u"] = worst_all
    chk.coverage["forward_error_undecided_cancellation"] = len(undecided)
    chk.coverage["forward_error_undecided_examples"] = undecided[:12]
