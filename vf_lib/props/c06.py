"""C06 — declared dimension sets equal the dimensions of the units themselves."""
import itertools
import re
from .. import facts, ev, quant, order, tables
from ..units_model import UnitModel, U
from ..facts import short, strip_cvref
from ..frontend import NUMERIC

SYMBOLS = {"time": "T", "length": "L", "mass": "M", "electric_current": "I", "temperature": "Θ",
           "substance_amount": "N", "luminous_intensity": "J"}
CLASS_OF = {"time": "Time", "length": "Length", "mass": "Mass", "electric_current": "ElectricCurrent",
            "temperature": "Temperature", "substance_amount": "SubstanceAmount", "luminous_intensity": "LuminousIntensity"}


def run(chk):
    chk.level = "proof"
    chk.technique = ("every unit symbol expanded to its exponent vector by the independent unit grammar and compared with the "
                     "RelatedDimensions<U> initialiser read from the AST; term evaluation of Dimensions() of every quantity; "
                     "case-complete evaluation of the Print() decision trees; ordering enumeration (3^7) of the Dimensions operators")
    chk.rule("R1", "the exponent vector of every unit symbol of U equals the seven literals of RelatedDimensions<U>")
    chk.rule("R2", "Q::Dimensions() returns RelatedDimensions<U> of Q's own unit type (all-zero for dimensionless quantities)")
    chk.rule("R3", "Dimension::X::Print() is '', A, A^n (n>1), A^(n) (n<0) with A in T,L,M,I,Θ,N,J; Dimensions::Print() joins the "
                   "non-empty ones in the order T,L,M,I,Θ,N,J with '·' and prints 1 when all are empty")
    chk.rule("R4", "==, !=, <, >, <=, >= on Dimensions are the lexicographic order of the exponent 7-tuple (3^7 cases); the hash reads exactly the seven exponents")
    F = facts.load("double", chk.tier)
    M = UnitModel(F)
    n_units = 0
    for ut in M.unit_types():
        var = M.T.dims.get(ut)
        loc = short(var["loc"]) if var else short(F.enums[ut]["loc"])
        dv = M.dims_vector(ut)
        if dv is None:
            chk.violated("R1", M.short(ut), "no RelatedDimensions specialisation", loc)
            continue
        abbrs = M.abbreviations(ut)
        for name in M.T.enumerators(ut):
            n_units += 1
            inst = "%s::%s" % (M.short(ut), name)
            a = abbrs.get(name)
            if a is None:
                chk.inconclusive("R1", inst, "no abbreviation (see C08)", loc)
                continue
            try:
                rs = U.parse(a, primary_only=True)
            except U.ParseError as x:
                chk.inconclusive("R1", inst, "symbol %r: %s" % (a, x), loc)
                continue
            got = tuple(rs[0].d)
            if got != dv:
                chk.violated("R1", inst, "symbol %r has exponents (T,L,M,I,Θ,N,J) = %s but RelatedDimensions<%s> declares %s" % (a, got, M.short(ut), dv), loc)
            else:
                chk.holds("R1", inst, "%r -> %s" % (a, got), loc, nontrivial=any(got))
    chk.floor("units", n_units, 500)
    # R2
    n_q = 0
    for T in NUMERIC:
        FT = F if T == "double" else facts.load(T, chk.tier)
        TT = M.T if T == "double" else tables.Tables(FT)
        inv = quant.inventory(FT)
        for name, q in sorted(inv.items()):
            if q.kind != "quantity":
                continue
            n_q += 1
            ms = quant.find_method(FT, name, "Dimensions")
            if not ms:
                chk.violated("R2", name, "no Dimensions() member", short(q.rec["loc"]))
                continue
            f = ms[0]
            try:
                E = ev.Evaluator(FT)
                r = E.call(f["id"], None, []) if f.get("static") else E.call(f["id"], E.new_loc(E.symbolic(name, "self"), "this"), [])
                val = E.rv(r)
                got = tables.dims_of_value(val)
                want = TT.dimensions(q.unit) if q.unit else {k: 0 for k in tables.DIM_FIELDS}
                if got == want:
                    chk.holds("R2", name, "%s" % [got[k] for k in tables.DIM_FIELDS], short(f["loc"]), nontrivial=any(got.values()))
                else:
                    chk.violated("R2", name, "Dimensions() = %s but unit type %s declares %s" % (got, q.unit, want), short(f["loc"]))
            except (ev.Inconclusive, facts.AnalysisBroken) as x:
                chk.inconclusive("R2", name, str(x), short(f["loc"]))
    chk.floor("quantity classes (x3)", n_q, 270)
    print_rules(chk, F)
    order_rules(chk, F)


def resolve(t, value):
    """Evaluate gamma/cmp structure with the symbolic int replaced by a representative value; all
    comparisons must be against integer constants."""
    if isinstance(t, tuple) and t:
        if t[0] == "g":
            return resolve(t[2], value) if resolve(t[1], value) else resolve(t[3], value)
        if t[0] == "cmp":
            a, b = t[2], t[3]
            def v(x):
                if isinstance(x, int):
                    return x
                if isinstance(x, tuple) and x[0] == "isym":
                    return value
                if isinstance(x, tuple) and x[0] == "c" and x[1].denominator == 1:
                    return int(x[1])
                raise ev.Inconclusive("comparison operand %r" % (x,))
            x, y = v(a), v(b)
            return {"==": x == y, "!=": x != y, "<": x < y, ">": x > y, "<=": x <= y, ">=": x >= y}[t[1]]
        if t[0] == "not":
            return not resolve(t[1], value)
        if t[0] == "and":
            return resolve(t[1], value) and resolve(t[2], value)
        if t[0] == "or":
            return resolve(t[1], value) or resolve(t[2], value)
    return t


def constants_compared(t, acc):
    if isinstance(t, tuple) and t:
        if t[0] == "cmp":
            for x in (t[2], t[3]):
                if isinstance(x, int):
                    acc.add(x)
        for x in t:
            constants_compared(x, acc)
    elif isinstance(t, ev.Str):
        for p in t.parts:
            constants_compared(p, acc)


def print_rules(chk, F):
    for field in tables.DIM_FIELDS:
        cls = "PhQ::Dimension::" + CLASS_OF[field]
        fs = quant.find_method(F, cls, "Print", lambda g: not g["params"] and "body" in g)   # possibly inherited from a helper base
        if len(fs) != 1:
            chk.inconclusive("R3", cls + "::Print", "method not found", "")
            continue
        f = fs[0]
        try:
            E = ev.Evaluator(F)
            this = E.new_loc(E.symbolic(cls, "self"), "this")
            r = E.rv(E.call(f["id"], this, []))
            consts = set()
            constants_compared(r, consts)
            if not consts <= {0, 1}:
                chk.inconclusive("R3", cls + "::Print", "exponent compared against %s: the case split {<0, 0, 1, >1} is not complete" % sorted(consts), short(f["loc"]))
                continue
            A = SYMBOLS[field]
            sym = ("int", ("isym", "self.value"))
            cases = {"negative": (-2, ev.Str([A + "^(", sym, ")"])), "zero": (0, ev.Str([])), "one": (1, ev.Str([A])), "above one": (3, ev.Str([A + "^", sym]))}
            bad = []
            for cname, (v, want) in cases.items():
                got = resolve(r, v)
                if got != want:
                    bad.append("%s exponent: prints %s, expected %s" % (cname, ev.show(got), ev.show(want)))
            if bad:
                chk.violated("R3", cls + "::Print", "; ".join(bad), short(f["loc"]))
            else:
                chk.holds("R3", cls + "::Print", "'' / %s / %s^n / %s^(n)" % (A, A, A), short(f["loc"]))
        except ev.Inconclusive as x:
            chk.inconclusive("R3", cls + "::Print", str(x), short(f["loc"]))
    # Dimensions::Print with the seven component strings symbolic, all 2^7 emptiness patterns
    fs = F.methods("PhQ::Dimensions", "Print")
    if len(fs) != 1:
        chk.inconclusive("R3", "PhQ::Dimensions::Print", "method not found", "")
        return
    f = fs[0]
    bad = []
    n = 0
    try:
        for pattern in itertools.product([False, True], repeat=7):
            n += 1
            E = ev.Evaluator(F)
            for field, nonempty in zip(tables.DIM_FIELDS, pattern):
                def hook(E_, fn, this_lv, args, field=field, nonempty=nonempty):
                    return ev.Str([("nonempty", field)]) if nonempty else ev.Str([])
                E.hooks["PhQ::Dimension::%s::Print" % CLASS_OF[field]] = hook
                for g in quant.find_method(F, "PhQ::Dimension::" + CLASS_OF[field], "Print", lambda g_: not g_["params"]):
                    E.hooks[g.get("qname", g["name"])] = hook      # Print() inherited from a helper base
            r, _, _ = E.run_symbolic(f)
            parts = []
            for field, nonempty in zip(tables.DIM_FIELDS, pattern):
                if nonempty:
                    if parts:
                        parts.append("·")
                    parts.append(("nonempty", field))
            want = ev.Str(parts) if parts else ev.Str(["1"])
            if r != want:
                bad.append("non-empty components %s: prints %s, expected %s" % ([fl for fl, ne in zip(tables.DIM_FIELDS, pattern) if ne], ev.show(r), ev.show(want)))
        if bad:
            chk.violated("R3", "PhQ::Dimensions::Print", "; ".join(bad[:3]) + (" (+%d more)" % (len(bad) - 3) if len(bad) > 3 else ""), short(f["loc"]))
        else:
            chk.holds("R3", "PhQ::Dimensions::Print", "%d emptiness patterns: order T,L,M,I,Θ,N,J, separator '·', '1' when empty" % n, short(f["loc"]))
    except ev.Inconclusive as x:
        chk.inconclusive("R3", "PhQ::Dimensions::Print", str(x), short(f["loc"]))


def order_rules(chk, F):
    tname = "PhQ::Dimensions"
    for f in F.fns.values():
        op = f.get("op")
        if op not in order.REL or f.get("kind") != "function" or len(f["params"]) != 2 or "body" not in f:
            continue
        if [strip_cvref(t) for t in F.param_types(f)] != [tname, tname]:
            continue
        try:
            E = ev.Evaluator(F)
            lv = E.symbolic(tname, "left")
            rv = E.symbolic(tname, "right")
            ls = [t[1] for _, t in ev.flatten(lv)]
            rs = [t[1] for _, t in ev.flatten(rv)]
            res = E.rv(E.call(f["id"], None, [E.new_loc(lv, "a"), E.new_loc(rv, "a")]))
            ok, detail, cases = order.decide(res, ls, rs, op)
            (chk.holds if ok else chk.violated)("R4", "Dimensions %s" % op, detail, short(f["loc"]))
        except ev.Inconclusive as x:
            chk.inconclusive("R4", "Dimensions %s" % op, str(x), short(f["loc"]))
    got_ops = {o["instance"] for o in chk.obs if o["rule"] == "R4"}
    for op in order.REL:
        if "Dimensions %s" % op not in got_ops:
            chk.violated("R4", "Dimensions %s" % op, "operator not defined", "PhQ/Dimensions.hpp")
    fs = F.methods("std::hash<PhQ::Dimensions>", "operator()")
    if not fs:
        chk.violated("R4", "hash<Dimensions>", "no std::hash specialisation", "PhQ/Dimensions.hpp")
        return
    from .c14 import hash_shape
    f = fs[0]
    try:
        E = ev.Evaluator(F)
        v = E.symbolic(tname, "x")
        ls = [t[1] for _, t in ev.flatten(v)]
        res = E.rv(E.call(f["id"], E.new_loc(ev.Obj("h", {}), "this"), [E.new_loc(v, "a")]))
        ok, detail = hash_shape(res, ls)
        if ok and "ignores" in detail:
            chk.violated("R4", "hash<Dimensions>", "the hash is not that of the exponent 7-tuple: " + detail, short(f["loc"]))
        else:
            (chk.holds if ok else chk.violated)("R4", "hash<Dimensions>", detail, short(f["loc"]))
    except ev.Inconclusive as x:
        chk.inconclusive("R4", "hash<Dimensions>", str(x), short(f["loc"]))
