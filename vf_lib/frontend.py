"""Front end: umbrella TU, clang-14 shim overlay, inventory, driver generation, fact extraction.

Everything here only *parses and type-checks* /repo's headers (clang -fsyntax-only semantics via
libTooling). No PhQ code is executed.
"""
import glob
import hashlib
import json
import os
import re
import subprocess
import sys
import time
import fcntl
from concurrent.futures import ThreadPoolExecutor

VERIF = os.path.dirname(os.path.dirname(os.path.abspath(__file__)))
REPO = os.environ.get("PHQ_REPO", "/repo")
INC = os.path.join(REPO, "include")
CACHE = os.environ.get("VF_CACHE_DIR") or os.path.join(VERIF, ".cache")
PHQX = os.path.join(VERIF, ".build", "phqx")
TOOL_SRC = os.path.join(VERIF, "tool", "phqx.cc")
NUMERIC = ["float", "double", "long double"]
TAG = {"float": "f", "double": "d", "long double": "ld"}

CLANG_FLAGS = [
    "-std=c++17", "-I" + INC, "-ferror-limit=0", "-Wno-c++11-narrowing", "-w",
    "-UNDEBUG", "-fsyntax-only",
    "-resource-dir=/usr/lib/llvm-14/lib/clang/14.0.6",
]


class AnalysisBroken(Exception):
    """The analysis itself could not be carried out (exit code 2)."""


def headers():
    hs = sorted(glob.glob(os.path.join(INC, "PhQ", "**", "*.hpp"), recursive=True))
    if len(hs) < 100:
        raise AnalysisBroken("only %d headers under %s/PhQ (expected >= 100)" % (len(hs), INC))
    return hs


def tree_hash():
    h = hashlib.sha256()
    for p in headers():
        h.update(p.encode())
        with open(p, "rb") as f:
            h.update(f.read())
    for p in [TOOL_SRC, os.path.abspath(__file__)]:
        with open(p, "rb") as f:
            h.update(f.read())
    return h.hexdigest()[:20]


def _tool_fresh():
    return os.path.exists(PHQX) and os.path.getmtime(PHQX) >= os.path.getmtime(TOOL_SRC)


def ensure_tool():
    if _tool_fresh():
        return
    os.makedirs(os.path.dirname(PHQX), exist_ok=True)
    # several checks may start at once: one of them builds, the others wait for it
    with open(PHQX + ".lock", "w") as lock:
        fcntl.flock(lock, fcntl.LOCK_EX)
        try:
            if _tool_fresh():
                return
            tmp = "%s.tmp.%d" % (PHQX, os.getpid())
            cx = subprocess.run(["llvm-config-14", "--cxxflags"], capture_output=True, text=True, check=True).stdout.split()
            cmd = ["clang++"] + cx + ["-fno-rtti", "-O1", "-std=c++17", TOOL_SRC, "-o", tmp,
                                      "/usr/lib/llvm-14/lib/libclang-cpp.so.14", "/usr/lib/llvm-14/lib/libLLVM-14.so"]
            r = subprocess.run(cmd, capture_output=True, text=True)
            if r.returncode != 0:
                raise AnalysisBroken("cannot build phqx: " + r.stderr[-2000:])
            os.replace(tmp, PHQX)
        finally:
            fcntl.flock(lock, fcntl.LOCK_UN)


# ----------------------------------------------------------------------------------------------
# clang-14 shim: "template parameter redefines default argument" on the out-of-class definitions
# of the three member class templates of ConstitutiveModel.  g++ (the repo's compiler) accepts.
_SHIM_RE = re.compile(r"template <typename NumericType = double>\n(class ConstitutiveModel::\w+)")


def make_overlay(work):
    entries = []
    shimmed = []
    for p in sorted(glob.glob(os.path.join(INC, "PhQ", "ConstitutiveModel", "*.hpp"))):
        src = open(p, encoding="utf-8").read()
        new, n = _SHIM_RE.subn(r"template <typename NumericType>\n\1", src)
        if n == 0:
            continue  # already acceptable to clang (e.g. fixed upstream)
        if n != 1:
            raise AnalysisBroken("overlay shim matched %d times in %s" % (n, p))
        # nothing else may differ
        if len(new) != len(src) - len(" = double"):
            raise AnalysisBroken("overlay shim changed more than the default argument in " + p)
        q = os.path.join(work, "overlay", os.path.basename(p))
        os.makedirs(os.path.dirname(q), exist_ok=True)
        open(q, "w", encoding="utf-8").write(new)
        entries.append({"name": p, "type": "file", "external-contents": q})
        shimmed.append(p)
    y = {"version": 0, "case-sensitive": "true", "use-external-names": "false", "roots": entries}
    yp = os.path.join(work, "overlay.yaml")
    json.dump(y, open(yp, "w"))
    return yp, shimmed


def write_umbrella(work):
    lines = ["// generated: includes every header under %s/PhQ" % INC]
    for h in headers():
        lines.append('#include "%s"' % h)
    p = os.path.join(work, "umbrella.hpp")
    open(p, "w").write("\n".join(lines) + "\n")
    return p


def run_phqx(mode, src, out, overlay, extra=()):
    cmd = [PHQX, "--mode=" + mode, "--root=" + INC, "--extern-body=phq_verif_control", "--extern-body=std::hash<float>::operator()",
           "--extern-body=std::hash<double>::operator()", "--extern-body=std::hash<long double>::operator()", "--out=" + out] + (["--overlay=" + overlay] if overlay else []) + list(extra) + [src, "--"] + CLANG_FLAGS
    t0 = time.time()
    r = subprocess.run(cmd, capture_output=True, text=True)
    if not os.path.exists(out) or os.path.getsize(out) == 0:
        raise AnalysisBroken("phqx %s failed on %s: rc=%s %s" % (mode, src, r.returncode, r.stderr[-3000:]))
    return time.time() - t0


# ----------------------------------------------------------------------------------------------
# driver generation

def _subst(s, mapping):
    if not mapping:
        return s
    return re.sub(r"\b(%s)\b" % "|".join(re.escape(k) for k in mapping), lambda m: mapping[m.group(1)], s)


def _split_targs(written):
    """'A<B<C>, D>' -> ('A', ['B<C>', 'D'])"""
    if "<" not in written:
        return written, []
    head, rest = written.split("<", 1)
    rest = rest.rstrip()[:-1]
    out, depth, cur = [], 0, ""
    for ch in rest:
        if ch == "," and depth == 0:
            out.append(cur.strip())
            cur = ""
            continue
        depth += ch in "<([" 
        depth -= ch in ">)]"
        cur += ch
    if cur.strip():
        out.append(cur.strip())
    return head.strip(), out


CONTROL = r'''
namespace phq_verif_control {
enum class E : signed char { A, B };
inline E cast_to_enum(int i) { return static_cast<E>(i); }
inline int signed_add(int a, int b) { return a + b; }
inline double unchecked_find(const std::map<E, double>& m, E e) { return m.find(e)->second; }
inline double uninitialised_read(bool b) { double x; if (b) { x = 1.0; } return x; }
inline double throwing(const std::string& s) { return std::stod(s); }
inline double vector_element(std::vector<double>& v) { return v[0]; }
inline double dangling(double x) { const double& r{std::clamp(x, -1.0, 1.0)}; return r; }
inline double history(double x) { static const double first{x}; return first; }
inline int counter() { static int n = 0; return ++n; }
inline double array_element(std::array<double, 3>& a, std::size_t i) { return a[i]; }
inline double optional_deref(const std::optional<double>& o) { return *o; }
inline int integer_divide(int a, int b) { return a / b; }
}  // namespace phq_verif_control
'''

UNIT_CONVERT_FUNCS = {"ConvertInPlace", "Convert", "ConvertStatically"}


def gen_driver(inv, T, tier):
    """C++ source instantiating every PhQ template for numeric type T."""
    others = [x for x in NUMERIC if x != T]
    out = []
    w = out.append
    w("// generated driver for NumericType = %s" % T)
    w('#include "umbrella.hpp"')
    w("#include <utility>\n#include <sstream>\n#include <set>\n#include <unordered_set>")
    w("template <class X> X&& mk();")
    enums = {e["name"]: e for e in inv["enums"]}
    unit_enums = {n: e for n, e in enums.items() if n.startswith("PhQ::Unit::")}
    ct = {c["name"]: c for c in inv["class_templates"]}
    # enumerations the library keeps tables for: the unit types, and whatever a variable template (Abbreviations,
    # Spellings, ...) is explicitly specialised for.  Other enumerations (a helper's private notation enum, ...) are not
    # handed to Abbreviation / ParseEnumeration: that would instantiate the empty primary tables for them.
    table_enums = {n for n in enums if n.startswith("PhQ::Unit::")}
    for vs in inv.get("var_specializations", []):
        for a in vs.get("targs", [])[:1]:
            if a in enums:
                table_enums.add(a)
    w("namespace PhQ {")
    # (a) class templates
    inst_classes = []       # (written type with T, class template record)
    base_insts = set()
    used_as_base = set()
    for c in inv["class_templates"]:
        for b in c["bases"]:
            used_as_base.add(b.split("<")[0])
    for c in inv["class_templates"]:
        tp = c["tparams"]
        names = [p["n"] for p in tp]
        if names == ["NumericType"] and c["name"].split("::")[-1] in used_as_base:
            base_insts.add(c["name"][len("PhQ::"):] + "<NumericType>")
            continue
        if names == ["NumericType"]:
            nm = c["name"][len("PhQ::"):] if c["name"].startswith("PhQ::") else c["name"]
            inst_classes.append((nm, c))
            for b in c["bases"]:
                if "NumericType" in b and "<" in b:
                    base_insts.add(b)
    # bases of bases (a CRTP or mixin base of Dimensional*): substitute the written arguments through
    def _expand(b, depth=0):
        head, args = _split_targs(b)
        rec = ct.get("PhQ::" + head) or ct.get(head)
        if rec is None or depth > 4:
            return
        names_ = [p["n"] for p in rec["tparams"]]
        if len(names_) != len(args):
            return
        for bb in rec["bases"]:
            if "<" not in bb:
                continue
            nb = _subst(bb, dict(zip(names_, args)))
            if nb not in base_insts and nb not in more_bases:
                more_bases.append(nb)
                _expand(nb, depth + 1)
    more_bases = []
    for b in sorted(base_insts):
        _expand(b)
    for b in more_bases + sorted(base_insts):
        w("template class %s;" % _subst(b, {"NumericType": T}))
    for nm, c in inst_classes:
        w("template class %s<%s>;" % (nm, T))
    k = 0
    # hidden friends (friend functions defined inside a class template): reachable by argument-dependent lookup only
    for c in inv["class_templates"]:
        names = [p["n"] for p in c["tparams"]]
        if names != ["NumericType"] or not c["name"].startswith("PhQ::"):
            continue
        short_name = c["name"].split("::")[-1]
        for h in c.get("hidden_friends", []):
            tps = h.get("tparams") or []
            if any(p["kind"] != "type" or not re.search(r"Numeric|Number", p["n"]) for p in tps):
                w("// hidden friend template not instantiated generically: %s of %s" % (h["sname"], c["name"]))
                continue
            combos = [{"NumericType": T}]
            for p in tps:
                combos = [dict(m, **{p["n"]: o}) for m in combos for o in NUMERIC]
            for m in combos:
                # the class's own name as written inside the class: qualify it (a nested class template such as
                # ConstitutiveModel::ElasticIsotropicSolid is not visible by its short name) and give the injected
                # class name its argument
                ps = [re.sub(r"(?<![:\w])%s\b(?!\s*<)" % short_name, "%s<NumericType>" % short_name, p) for p in h["params"]]
                ps = [re.sub(r"(?<![:\w])%s\b" % short_name, "::" + c["name"], p) for p in ps]
                args = ", ".join("mk<%s>()" % _subst(p, m) for p in ps)
                k += 1
                w("void drv_h%d() { (void)%s(%s); }" % (k, h["sname"], args))
    # (d) member templates
    for f in inv["function_templates"]:
        if not f.get("in_class"):
            continue
        cname = f.get("class_template")
        if not cname or cname not in ct:
            continue
        if f.get("access", 0) != 0:
            # private/protected member templates (helpers) cannot be named from the driver; they are instantiated by
            # the public members that call them
            continue
        c = ct[cname]
        if [p["n"] for p in c["tparams"]] != ["NumericType"] or cname.split("::")[-1] in used_as_base:
            # member templates of the Dimensional*/Dimensionless* bases: instantiated through the
            # derived quantity classes below (StaticValue) or transitively if used at all.
            continue
        nm = cname[len("PhQ::"):]
        tps = f["tparams"]
        if len(tps) == 1 and tps[0]["kind"] == "type":
            tn = tps[0]["n"]
            if not re.search(r"Numeric|Number", tn):
                continue    # not a numeric type parameter (a vector type of a helper, ...): never guessed; analysed through its callers
            for o in (others if f["kind"] == "ctor" or f["sname"] == "operator=" else NUMERIC):
                m = {"NumericType": T, tn: o}
                args = ", ".join("mk<%s>()" % _subst(p, m) for p in f["params"])
                k += 1
                # a class template in a nested namespace (PhQ::Internal helpers) names its siblings without qualification
                nss = nm.split("::")[:-1] if not c.get("member_of_class") else []
                pre, post = " ".join("namespace %s {" % n for n in nss), "}" * len(nss)
                if f["kind"] == "ctor":
                    w("%s void drv_m%d() { %s<%s> a(%s); (void)a; } %s" % (pre, k, "::PhQ::" + nm, T, args, post))
                else:
                    w("%s void drv_m%d() { (void)mk<%s<%s>&>().%s(%s); } %s" % (pre, k, "::PhQ::" + nm, T, f["sname"], args, post))
        elif len(tps) == 1 and tps[0]["kind"] == "nontype":
            ety = tps[0]["type"]
            en = "PhQ::" + ety if not ety.startswith("PhQ::") else ety
            if en not in enums:
                continue
            for ec in enums[en]["enumerators"]:
                m = {"NumericType": T}
                args = ", ".join("mk<%s>()" % _subst(p, m) for p in f["params"])
                k += 1
                if f.get("static"):
                    w("void drv_m%d() { (void)%s<%s>::template %s<%s::%s>(%s); }" % (k, nm, T, f["sname"], en, ec["n"], args))
                else:
                    w("void drv_m%d() { (void)mk<%s<%s>&>().template %s<%s::%s>(%s); }" % (k, nm, T, f["sname"], en, ec["n"], args))
    # StaticValue<U> through each derived quantity class
    base_member_templates = [f for f in inv["function_templates"] if f.get("in_class") and f.get("class_template") in ct
                             and [p["n"] for p in ct[f["class_template"]]["tparams"]] == ["UnitType", "NumericType"]
                             and len(f["tparams"]) == 1 and f["tparams"][0]["kind"] == "nontype"]
    for nm, c in inst_classes:
        for b in c["bases"]:
            mm = re.match(r"(\w+)<(Unit::\w+), NumericType>", b)
            if not mm:
                continue
            bname, uty = "PhQ::" + mm.group(1), "PhQ::" + mm.group(2)
            if uty not in enums:
                continue
            for f in base_member_templates:
                if f["class_template"] != bname:
                    continue
                for ec in enums[uty]["enumerators"]:
                    k += 1
                    w("void drv_m%d() { (void)mk<const %s<%s>&>().template %s<%s::%s>(); }" % (k, nm, T, f["sname"], uty, ec["n"]))
    # (c) free function templates in PhQ / std
    for f in inv["function_templates"]:
        if f.get("in_class"):
            continue
        tps = f["tparams"]
        qn = f["name"]
        if f["sname"] in UNIT_CONVERT_FUNCS and f["context"] == "PhQ":
            continue  # handled below with explicit template arguments
        if not all(p["kind"] == "type" for p in tps):
            continue
        tnames = [p["n"] for p in tps]
        if not all(any(re.search(r"\b%s\b" % tn, p) for p in f["params"]) for tn in tnames):
            # not deducible (ParseNumber<T>, Pi, ...): explicit argument when it is the numeric type
            if tnames == ["NumericType"]:
                k += 1
                args = ", ".join("mk<%s>()" % _subst(p, {"NumericType": T}) for p in f["params"])
                w("void drv_f%d() { (void)%s<%s>(%s); }" % (k, qn, T, args))
            elif tnames == ["Enumeration"] and T == "double":
                for en in sorted(table_enums):
                    if en.startswith("PhQ::Dimension"):
                        continue
                    k += 1
                    args = ", ".join("mk<%s>()" % _subst(p, {"Enumeration": en}) for p in f["params"])
                    w("void drv_f%d() { (void)%s<%s>(%s); }" % (k, qn, en, args))
            continue
        if tnames == ["NumericType"]:
            combos = [{"NumericType": T}]
        elif "NumericType" in tnames and len(tnames) == 2 and re.search(r"Numeric|Number", [t for t in tnames if t != "NumericType"][0]):
            # a second numeric type (OtherNumericType of the mixed-precision operators).  Any other kind of type parameter
            # (a unit enumeration of an Internal helper, ...) is NOT guessed: such templates are analysed through the
            # instantiations their callers request.
            other = [t for t in tnames if t != "NumericType"][0]
            combos = [{"NumericType": T, other: o} for o in NUMERIC]
        elif tnames == ["Enumeration"]:
            combos = [{"Enumeration": e} for e in sorted(table_enums) if not e.startswith("PhQ::Dimension")]
            if T != "double":
                combos = []
        else:
            combos = []
            w("// not instantiated generically: %s <%s>" % (qn, ",".join(tnames)))
        for m in combos:
            k += 1
            args = ", ".join("mk<%s>()" % _subst(p, m) for p in f["params"])
            ctx = f.get("context", "")
            if ctx.startswith("PhQ::") and "(" not in ctx and "<" not in ctx:
                # written parameter types are looked up in the function's own namespace (PhQ::Internal helpers name their
                # sibling types without qualification)
                inner = ctx[len("PhQ::"):].split("::")
                w("%s void drv_f%d() { (void)%s(%s); } %s" % (" ".join("namespace %s {" % n for n in inner), k, qn, args, "}" * len(inner)))
            else:
                w("void drv_f%d() { (void)%s(%s); }" % (k, qn, args))
    # unit conversion entry points, explicit template arguments, every unit type
    shapes = [("%s", 1), ("std::array<%s, 5>", 0), ("std::vector<%s>", 0), ("PlanarVector<%s>", 0), ("Vector<%s>", 0),
              ("SymmetricDyad<%s>", 0), ("Dyad<%s>", 0)]
    for un, e in sorted(unit_enums.items()):
        first = e["enumerators"][0]["n"]
        last = e["enumerators"][-1]["n"]
        for sh, _ in shapes:
            ty = sh % T
            k += 1
            w("void drv_c%d() { ConvertInPlace(mk<%s&>(), mk<%s>(), mk<%s>()); (void)Convert(mk<const %s&>(), mk<%s>(), mk<%s>()); }"
              % (k, ty, un, un, ty, un, un))
            if "vector" in sh:
                continue
            names = [x["n"] for x in e["enumerators"]]
            static_pairs = [(last, first)]
            if len(names) >= 3:
                static_pairs.append((names[1], last))     # two non-standard units (for Temperature: two offset units)
            for (ua, ub) in static_pairs:
                k += 1
                if "array" in sh:
                    w("void drv_c%d() { (void)ConvertStatically<%s, %s::%s, %s::%s, 5, %s>(mk<const %s&>()); }" % (k, un, un, ua, un, ub, T, ty))
                else:
                    w("void drv_c%d() { (void)ConvertStatically<%s, %s::%s, %s::%s, %s>(mk<const %s&>()); }" % (k, un, un, ua, un, ub, T, ty))
    if T == "double":
        for un in sorted(enums):
            if un.startswith("PhQ::Unit::"):
                k += 1
                w("void drv_u%d() { (void)ConsistentUnit<%s>(mk<UnitSystem>()); (void)RelatedUnitSystem(mk<%s>()); (void)Abbreviation(mk<%s>()); (void)ParseEnumeration<%s>(mk<std::string_view>()); mk<std::ostream&>() << mk<%s>(); }"
                  % (k, un, un, un, un, un))
    w("}  // namespace PhQ")
    # (b) std::hash partial specialisations
    for p in inv["partial_specializations"]:
        if p["primary"] != "std::hash":
            continue
        tn = [x["n"] for x in p["tparams"]]
        a = p["args_written"][0]
        if tn == ["NumericType"]:
            w("template struct std::hash<%s>;" % _subst(a, {"NumericType": T}))
        else:
            w("// hash partial specialisation with parameters %s not instantiated: %s" % (tn, a))
    # positive controls for the zero-expected-count rules of C20/C10 (must be matched on every run)
    w(CONTROL)
    return "\n".join(out) + "\n"


# ----------------------------------------------------------------------------------------------

def build_facts(tier="quick", verbose=False):
    """Returns the work directory holding inventory.json and facts_{f,d,ld}.json for the current tree."""
    ensure_tool()
    key = tree_hash()
    work = os.path.join(CACHE, "w-" + key)
    os.makedirs(CACHE, exist_ok=True)
    done = os.path.join(work, "DONE")
    # a short global lock for pruning, then one lock per tree: different trees build in parallel
    glock = open(os.path.join(CACHE, "lock"), "w")
    fcntl.flock(glock, fcntl.LOCK_EX)
    try:
        if os.path.exists(done):
            try:
                os.utime(work)
            except OSError:
                pass
            return work
        olds = sorted((d for d in glob.glob(os.path.join(CACHE, "w-*")) if d != work), key=os.path.getmtime, reverse=True)
        for d in olds[8:]:
            if time.time() - os.path.getmtime(d) > 1800:      # never a directory another run may still be reading
                subprocess.run(["rm", "-rf", d])
                try:
                    os.remove(os.path.join(CACHE, "lock-" + os.path.basename(d)[2:]))
                except OSError:
                    pass
        os.makedirs(work, exist_ok=True)
    finally:
        fcntl.flock(glock, fcntl.LOCK_UN)
        glock.close()
    lock = open(os.path.join(CACHE, "lock-" + key), "w")
    fcntl.flock(lock, fcntl.LOCK_EX)
    try:
        if os.path.exists(done):
            return work
        t0 = time.time()
        overlay, shimmed = make_overlay(work)
        umb = write_umbrella(work)
        ucc = os.path.join(work, "umbrella.cc")
        open(ucc, "w").write('#include "umbrella.hpp"\n')
        inv_path = os.path.join(work, "inventory.json")
        run_phqx("inventory", ucc, inv_path, overlay, ["--extra-arg=-I" + work])
        inv = json.load(open(inv_path))
        errs = [d for d in inv["diagnostics"] if d["level"] in ("error", "fatal")]
        if errs:
            raise AnalysisBroken("umbrella TU does not parse: %s at %s" % (errs[0]["msg"], errs[0]["loc"]))
        jobs = []
        for T in NUMERIC:
            src = os.path.join(work, "driver_%s.cc" % TAG[T])
            open(src, "w").write(gen_driver(inv, T, tier))
            jobs.append((src, os.path.join(work, "facts_%s.json" % TAG[T])))
        with ThreadPoolExecutor(3) as ex:
            ts = list(ex.map(lambda j: run_phqx("facts", j[0], j[1], overlay, ["--extra-arg=-I" + work]), jobs))
        meta = {"key": key, "shimmed": shimmed, "t_total": time.time() - t0, "t_facts": ts, "headers": len(headers())}
        json.dump(meta, open(os.path.join(work, "meta.json"), "w"))
        open(done, "w").write("ok\n")
        if verbose:
            print("facts built in %.1fs" % (time.time() - t0), file=sys.stderr)
        return work
    finally:
        fcntl.flock(lock, fcntl.LOCK_UN)
        lock.close()


if __name__ == "__main__":
    print(build_facts(verbose=True))
