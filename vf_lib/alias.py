"""Aliasing safety of mutating members: a member that takes an operand by reference must behave as if it had taken a copy,
even when the operand is (part of) the object itself - `v /= v.Mutable_x()`, `a -= a`.

For a non-const member f of class C with a reference parameter p:
  * p refers to an arithmetic value of the component type: for every stored slot k, f is evaluated once with p bound to a
    fresh copy of slot k and once with p bound to slot k itself; the final objects must be identical term by term;
  * p refers to a C: f is evaluated with p bound to a copy of *this and with p bound to *this.
A difference means the result depends on whether the caller's operand happens to live inside the object."""
from . import ev
from .facts import strip_cvref, is_ref

FLOATS = {"float", "double", "long double"}


def mutating_members_with_reference_params(F, cname):
    for f in F.methods(cname):
        if "body" not in f or f.get("const") or f.get("static") or f["kind"] not in ("method",):
            continue
        if f.get("copy_assign") or f.get("move_assign"):
            continue
        pts = F.param_types(f)
        if any(is_ref(t) and not t.rstrip().endswith("&&") for t in pts):
            yield f, pts


def check(F, f, cname, T):
    """Returns a list of problem strings (empty = alias-safe), or raises ev.Inconclusive."""
    pts = F.param_types(f)
    probs = []
    for pi, pt in enumerate(pts):
        if not is_ref(pt) or pt.rstrip().endswith("&&"):
            continue
        target = strip_cvref(pt)
        if target == T:
            E0 = ev.Evaluator(F)
            slots = [path for path, _ in ev.flatten_paths(E0.symbolic(cname, "a"))]
            scenarios = [("slot " + ".".join(str(x) for x in path), path) for path in slots]
        elif target == cname:
            scenarios = [("the object itself", ())]
        else:
            continue
        for label, path in scenarios:
            finals = []
            for aliased in (False, True):
                E = ev.Evaluator(F)
                this = E.new_loc(E.symbolic(cname, "a"), "this")
                args = []
                for qi, qt in enumerate(pts):
                    if qi == pi:
                        src = ev.LV(this.loc, tuple(path))
                        args.append(src if aliased else E.new_loc(E.load(src), "copy"))
                    else:
                        v = E.symbolic(strip_cvref(qt), "q%d" % qi)
                        args.append(E.new_loc(v, "arg") if is_ref(qt) else v)
                E.call(f["id"], this, args)
                finals.append([t for _, t in ev.flatten(E.load(this))])
            if finals[0] != finals[1]:
                k = next(i for i, (x, y) in enumerate(zip(finals[0], finals[1])) if x != y)
                probs.append("with the operand bound to %s: stored component %d becomes %s, but %s when the operand is a copy of it"
                             % (label, k, ev.show(finals[1][k])[:90], ev.show(finals[0][k])[:90]))
                break
    return probs
