"""C09 — vectors and tensors implement Euclidean tensor algebra."""
import re
import sys
import sympy

from .. import facts, ev, nf, quant, alias
from ..models import narrowing_casts
from ..facts import short, strip_cvref
from ..frontend import NUMERIC, VERIF

sys.path.insert(0, VERIF)
from oracle import tensor_algebra as TA  # noqa: E402

SHAPES = {"PhQ::PlanarVector": "planar", "PhQ::Vector": "vector", "PhQ::SymmetricDyad": "symdyad", "PhQ::Dyad": "dyad",
          "PhQ::PlanarDirection": "planar", "PhQ::Direction": "vector"}
FLOATS = {"float", "double", "long double"}


def shape_of(F, t):
    t = strip_cvref(t)
    if t in FLOATS:
        return "scalar"
    r = F.records.get(t)
    if r is not None and r.get("template") in SHAPES:
        return SHAPES[r["template"]]
    m = re.match(r"std::optional<(.+)>$", t)
    if m:
        s = shape_of(F, m.group(1))
        return ("optional", s) if s else None
    return None


def comps(conv, v):
    return [conv(t) for _, t in ev.flatten(v)]


def compare(conv, got_val, got_shape, want):
    """Compare an evaluator value of a tensor shape with an oracle sympy object. Returns None if equal, else text."""
    if got_shape == "scalar":
        g = conv(got_val)
        if not nf.equal(g, want):
            return "value %s differs from %s" % (g, sympy.simplify(want)), (g, want)
        return None
    g = TA.embed(got_shape, comps(conv, got_val))
    w = want
    if isinstance(g, sympy.MatrixBase):
        if not isinstance(w, sympy.MatrixBase) or g.shape != w.shape:
            return "result has shape %s, oracle %s" % (g.shape, getattr(w, "shape", "scalar")), None
        names = "xyz"
        for i in range(g.shape[0]):
            for j in range(g.shape[1]):
                if not nf.equal(g[i, j], w[i, j]):
                    slot = names[i] + (names[j] if g.shape[1] == 3 else "")
                    return "component %s is %s, index notation gives %s" % (slot, sympy.expand(g[i, j]), sympy.expand(w[i, j])), (g[i, j], w[i, j])
        # a symmetric/planar result type must be able to hold the oracle's value (checked by embedding g; also check dropped parts)
        if got_shape == "planar" and not nf.is_zero(w[2]):
            return "planar result drops a non-zero z component %s" % w[2], None
        if got_shape == "symdyad":
            for i in range(3):
                for j in range(3):
                    if not nf.equal(w[i, j], w[j, i]):
                        return "symmetric result type but the exact result is not symmetric (%s%s)" % (names[i], names[j]), None
    return None


def run(chk):
    chk.level = "other"
    chk.technique = ("term evaluation of every tensor kernel and operand-shape overload; algebraic normal forms (sympy, exact rationals) of "
                     "each result component compared with index-notation definitions on the 3x3 / 3-vector embeddings; polynomial identity "
                     "decided by normalisation")
    chk.rule("R1", "every kernel / product overload equals its index-notation definition on the embedded operands (polynomial identity => exact on integer inputs)")
    chk.rule("R2", "Inverse() is present exactly when Determinant() != 0 and then equals Adjugate()/Determinant(); Inverse * original == I algebraically")
    chk.rule("R4", "no kernel computes through a numeric type narrower than its own (e.g. an unqualified sqrt resolving to ::sqrt(double) in the long double instantiation)")
    chk.rule("R5", "kernels whose components contain no sum of terms of unknown sign have an a-priori forward error bound (<= 8 u) on arbitrary inputs; the others (inherent cancellation) are not decided")
    chk.rule("R3", "compound assignments of the tensor classes equal the corresponding pure operator")
    chk.rule("R7", "aliasing safety: a mutating member that takes an operand by reference gives the same result when the operand is a stored "
                   "component of the object (or the object itself) as when it is a copy of it - `v /= v.Mutable_x()` scales every component by the old x")
    chk.rule("R6", "component accessors (x, xy, ...), Mutable_<c>() references, Set_<c>(v) setters and the component-list constructors of the "
                   "four tensor classes address the entry of the embedded 3x3 matrix / 3-vector that their name says (the symmetric "
                   "aliases yx, zx, zy share the slots of xy, xz, yz); a setter changes nothing else; the array forms map element k to "
                   "the k-th name; conversions between the classes (planar <-> 3-D, symmetric -> general) preserve the embedded entries; "
                   "IsSymmetric() is the conjunction of the three mirrored equalities")
    chk.assumptions += ["polynomial identity over Q implies exact agreement on integer-valued inputs (degree <= 3, no rounding below 2^53/products)",
                        "the few-ulp clause on non-integer inputs is decided only for kernels without cancellation (R5); for dot/cross/determinant/products it is input-dependent and NOT decided"]
    n = 0
    n_acc = [0]
    n_alias = [0]
    errstats = {"decided": 0, "undecided": 0, "max_u": 0.0}
    for T in NUMERIC:
        F = facts.load(T, chk.tier)
        tensors = ["PhQ::%s<%s>" % (c, T) for c in ("PlanarVector", "Vector", "SymmetricDyad", "Dyad")]
        for tn in tensors:
            if tn not in F.records:
                chk.inconclusive("R1", tn, "class not instantiated", "")
                continue
            sh = SHAPES[F.records[tn]["template"]]
            for f in F.methods(tn):
                if "body" not in f:
                    continue
                sn = f["sname"]
                pts = F.param_types(f)
                if sn in TA.UNARY and not pts:
                    kind = "unary"
                elif sn in TA.BINARY and len(pts) == 1:
                    kind = "binary"
                elif sn == "Inverse" and not pts:
                    kind = "inverse"
                elif f.get("op") in ("+=", "-=", "*=", "/=") and len(pts) == 1:
                    kind = "cassign"
                elif f.get("op") in ("+", "-", "*", "/") and len(pts) == 1 and f.get("const") and shape_of(F, pts[0]) is not None \
                        and not isinstance(shape_of(F, pts[0]), tuple):
                    kind = "memop"       # an arithmetic operator written as a const member function
                else:
                    continue
                if any(strip_cvref(p) not in FLOATS and not strip_cvref(p).endswith("<%s>" % T) for p in pts):
                    continue
                inst = "%s::%s(%s)" % (tn, sn, ", ".join(strip_cvref(p).replace("PhQ::", "") for p in pts))
                loc = short(f.get("def_loc", f["loc"]))
                n += 1
                try:
                    E = ev.Evaluator(F)
                    res, this_lv, args = E.run_symbolic(f, this_prefix="a", arg_prefixes=["b"])
                    nar = narrowing_casts(E.load(this_lv) if kind == "cassign" else E.rv(res), T)
                    if nar:
                        chk.violated("R4", inst, "the %s kernel narrows an intermediate to %s (%s): the result has only %s precision" % (T, nar[0][0], ev.show(nar[0][1])[:100], nar[0][0]), loc)
                        continue
                    conv = nf.Conv()
                    E0 = ev.Evaluator(F)
                    A = TA.embed(sh, comps(conv, E0.symbolic(tn, "a")))
                    if kind == "unary":
                        rs = shape_of(F, F.T(f["ret"]))
                        want = TA.UNARY[sn](A)
                        bad = compare(conv, E.rv(res), rs, want)
                    elif kind == "binary":
                        bs = shape_of(F, pts[0])
                        B = TA.embed(bs, comps(conv, E0.symbolic(pts[0], "b")))
                        rs = shape_of(F, F.T(f["ret"]))
                        want = TA.BINARY[sn](A, B)
                        bad = compare(conv, E.rv(res), rs, want)
                    elif kind == "memop":
                        bs = shape_of(F, pts[0])
                        Bv = E0.symbolic(pts[0], "b")
                        B = TA.embed(bs, comps(conv, Bv)) if bs != "scalar" else conv(Bv)
                        rs = shape_of(F, F.T(f["ret"]))
                        op = f["op"]
                        if op == "+":
                            want = A + B
                        elif op == "-":
                            want = A - B
                        elif op == "/":
                            want = A / B
                        elif bs == "scalar":
                            want = A * B
                        elif TA.is_vec(B):
                            want = TA.matvec(A, B)
                        else:
                            want = TA.matmat(A, B)
                        bad = compare(conv, E.rv(res), rs, want)
                    elif kind == "cassign":
                        bs = shape_of(F, pts[0])
                        Bv = E0.symbolic(pts[0], "b")
                        B = TA.embed(bs, comps(conv, Bv)) if bs != "scalar" else conv(Bv)
                        op = f["op"][0]
                        want = {"+": lambda: A + B, "-": lambda: A - B, "*": lambda: A * B, "/": lambda: A / B}[op]()
                        bad = compare(conv, E.load(this_lv), sh, want)
                    else:
                        bad = check_inverse(F, E, conv, E.rv(res), A, sh)
                    rule = "R2" if kind == "inverse" else ("R3" if kind == "cassign" else "R1")
                    if bad is None:
                        chk.holds(rule, inst, "equals the index-notation definition", loc)
                        if kind != "inverse":
                            note_error_bound(chk, inst, E.load(this_lv) if kind == "cassign" else E.rv(res), T, loc, errstats)
                    else:
                        text, pair = bad
                        w = nf.witness(pair[0], pair[1]) if pair else None
                        chk.violated(rule, inst, text + ("; e.g. at %s" % w if w else ""), loc, witness=w)
                except ev.Inconclusive as x:
                    chk.inconclusive("R1", inst, str(x), loc)
        for tn in tensors:
            if tn in F.records:
                n_acc[0] += component_access(chk, F, tn, SHAPES[F.records[tn]["template"]], T)
                for f, pts in alias.mutating_members_with_reference_params(F, tn):
                    inst = "%s::%s(%s)" % (tn, f["sname"], ", ".join(strip_cvref(p).replace("PhQ::", "") + ("&" if facts.is_ref(p) else "") for p in pts))
                    loc = short(f.get("def_loc", f["loc"]))
                    try:
                        probs = alias.check(F, f, tn, T)
                        n_alias[0] += 1
                        (chk.violated if probs else chk.holds)("R7", inst, "; ".join(probs) or "same result whether a reference operand is a copy or lives inside the object", loc)
                    except ev.Inconclusive as x:
                        chk.inconclusive("R7", inst, str(x), loc)
        # free operators
        for f in F.fns.values():
            if f.get("kind") != "function" or f.get("op") not in ("+", "-", "*", "/") or "body" not in f or len(f["params"]) != 2:
                continue
            pts = F.param_types(f)
            shs = [shape_of(F, p) for p in pts]
            if None in shs or all(s == "scalar" for s in shs):
                continue
            if any(isinstance(s, tuple) for s in shs):
                continue
            # operands of this shard's numeric type (a plain number operand may have any type)
            if any(s != "scalar" and not strip_cvref(p).endswith("<%s>" % T) for s, p in zip(shs, pts)):
                continue
            # only the four tensor classes and directions
            inst = "operator%s(%s)" % (f["op"], ", ".join(strip_cvref(p).replace("PhQ::", "") for p in pts))
            loc = short(f.get("def_loc", f["loc"]))
            rs = shape_of(F, F.T(f["ret"]))
            if rs is None:
                continue
            n += 1
            try:
                E = ev.Evaluator(F)
                res, _, args = E.run_symbolic(f, arg_prefixes=["a", "b"])
                nar = narrowing_casts(E.rv(res), T)
                if nar:
                    chk.violated("R4", inst, "the %s kernel narrows an intermediate to %s (%s)" % (T, nar[0][0], ev.show(nar[0][1])[:100]), loc)
                    continue
                conv = nf.Conv()
                E0 = ev.Evaluator(F)
                ops = []
                for s, p, nm in zip(shs, pts, "ab"):
                    v = E0.symbolic(p, nm)
                    ops.append(conv(v) if s == "scalar" else TA.embed(s, comps(conv, v)))
                A, B = ops
                op = f["op"]
                if op == "+":
                    want = A + B
                elif op == "-":
                    want = A - B
                elif op == "/":
                    want = A / B
                else:
                    if shs[0] == "scalar" or shs[1] == "scalar":
                        want = A * B
                    elif TA.is_vec(B):
                        want = TA.matvec(A, B)
                    else:
                        want = TA.matmat(A, B)
                bad = compare(conv, E.rv(res), rs, want)
                if bad is None:
                    chk.holds("R1", inst, "equals the index-notation definition", loc)
                    note_error_bound(chk, inst, E.rv(res), T, loc, errstats)
                else:
                    text, pair = bad
                    w = nf.witness(pair[0], pair[1]) if pair else None
                    chk.violated("R1", inst, text + ("; e.g. at %s" % w if w else ""), loc, witness=w)
            except ev.Inconclusive as x:
                chk.inconclusive("R1", inst, str(x), loc)
    if not any(o["rule"] == "R4" for o in chk.obs):
        chk.holds("R4", "all kernels", "%d kernel overloads evaluated: none casts a computed value to a narrower numeric type" % n, "")
    chk.floor("kernel overloads (x3 numeric types)", n, 300)
    chk.floor("component accessors/setters/constructors (x3)", n_acc[0], 200)
    chk.coverage["component_access_members"] = n_acc[0]
    chk.coverage["alias_checked_members"] = n_alias[0]
    chk.coverage["kernel_overloads"] = n
    chk.coverage["forward_error_bound"] = errstats
    chk.holds("R5", "a-priori error bounds", "%d kernels without subtraction of rounded terms: relative error <= %s u on arbitrary (non-integer) inputs; %d kernels with possible cancellation (dot, cross, determinant, ...) not decided" % (errstats["decided"], errstats["max_u"], errstats["undecided"]), "")


COMP = re.compile(r"^[xyz]{1,2}$")


def entry(M, name):
    """Entry of the embedded matrix/vector addressed by a component name."""
    idx = ["xyz".index(c) for c in name]
    return M[idx[0]] if M.shape[1] == 1 else M[idx[0], idx[1]]


def component_access(chk, F, tn, sh, T):
    """R6 for one tensor class: single-component accessors / references / setters, component-list constructors and setters,
    the array forms (constructor, assignment, setter, accessor), the embedding conversions between the four classes, and
    IsSymmetric().  Returns the number of members examined."""
    n = 0
    rank = 1 if sh in ("planar", "vector") else 2
    valid = lambda c: COMP.match(c) and len(c) == rank and not (sh == "planar" and "z" in c)   # noqa: E731
    for f in F.methods(tn):
        if "body" not in f:
            continue
        sn = f["sname"]
        pts = F.param_types(f)
        loc = short(f.get("def_loc", f["loc"]))
        try:
            conv = nf.Conv()
            E = ev.Evaluator(F)
            if f["kind"] == "method" and valid(sn) and not pts and f.get("const"):
                n += 1
                inst = "%s::%s()" % (tn, sn)
                this = E.new_loc(E.symbolic(tn, "a"), "this")
                got = conv(E.rv(E.call(f["id"], this, [])))
                want = entry(TA.embed(sh, comps(conv, E.load(this))), sn)
                (chk.holds if nf.equal(got, want) else chk.violated)("R6", inst, "returns %s, the %s entry is %s" % (got, sn, want), loc)
            elif f["kind"] == "method" and sn.startswith("Mutable_") and valid(sn[8:]) and not pts:
                n += 1
                c = sn[8:]
                inst = "%s::%s()" % (tn, sn)
                this = E.new_loc(E.symbolic(tn, "a"), "this")
                r = E.call(f["id"], this, [])
                if not (isinstance(r, ev.LV) and r.loc == this.loc):
                    chk.violated("R6", inst, "does not return a reference into the object", loc)
                    continue
                E.save(r, ("leaf", "NEW"))
                M = TA.embed(sh, comps(conv, E.load(this)))
                ok = nf.equal(entry(M, c), conv(("leaf", "NEW")))
                (chk.holds if ok else chk.violated)("R6", inst, "the reference addresses the entry that reads %s afterwards" % entry(M, c), loc)
            elif f["kind"] == "method" and sn.startswith("Set_") and valid(sn[4:]) and len(pts) == 1 and strip_cvref(pts[0]) in FLOATS:
                n += 1
                c = sn[4:]
                inst = "%s::%s(v)" % (tn, sn)
                this = E.new_loc(E.symbolic(tn, "a"), "this")
                before = TA.embed(sh, comps(conv, E.load(this)))
                E.call(f["id"], this, [("leaf", "v")])
                after = TA.embed(sh, comps(conv, E.load(this)))
                v = conv(("leaf", "v"))
                i = ["xyz".index(ch) for ch in c]
                probs = []
                rows, cols = after.shape
                for r_ in range(rows):
                    for c_ in range(cols):
                        hit = ([r_] == i) if cols == 1 else ([r_, c_] == i or (sh == "symdyad" and [c_, r_] == i))
                        if cols == 1 and sh == "planar" and r_ == 2:
                            continue
                        want = v if hit else before[r_, c_]
                        if not nf.equal(after[r_, c_], want):
                            probs.append("entry %s%s becomes %s, expected %s" % ("xyz"[r_], "xyz"[c_] if cols == 3 else "", after[r_, c_], want))
                if probs:
                    chk.violated("R6", inst, "; ".join(probs[:3]), loc)
                else:
                    chk.holds("R6", inst, "sets entry %s and nothing else" % c, loc)
            elif f["kind"] == "ctor" and pts and all(strip_cvref(p) in FLOATS for p in pts) and all(valid(p_["n"] or "") for p_ in f["params"]):
                n += 1
                inst = "%s(%s)" % (tn, ", ".join(p_["n"] for p_ in f["params"]))
                this = E.new_loc(E.blank(tn), "this")
                E.call(f["id"], this, [("leaf", "p_" + p_["n"]) for p_ in f["params"]])
                M = TA.embed(sh, comps(conv, E.load(this)))
                probs = []
                for p_ in f["params"]:
                    if not nf.equal(entry(M, p_["n"]), conv(("leaf", "p_" + p_["n"]))):
                        probs.append("entry %s is %s, expected the argument named %s" % (p_["n"], entry(M, p_["n"]), p_["n"]))
                if probs:
                    chk.violated("R6", inst, "; ".join(probs[:3]), loc)
                else:
                    chk.holds("R6", inst, "each argument lands in the entry of its name", loc)
            elif f["kind"] == "method" and sn.startswith("Set_") and len(pts) > 1 and all(strip_cvref(p) in FLOATS for p in pts) \
                    and all(valid(p_["n"] or "") for p_ in f["params"]):
                n += 1
                inst = "%s::%s(%s)" % (tn, sn, ", ".join(p_["n"] for p_ in f["params"]))
                this = E.new_loc(E.symbolic(tn, "a"), "this")
                E.call(f["id"], this, [("leaf", "p_" + p_["n"]) for p_ in f["params"]])
                M = TA.embed(sh, comps(conv, E.load(this)))
                probs = ["entry %s is %s, expected the argument named %s" % (p_["n"], entry(M, p_["n"]), p_["n"])
                         for p_ in f["params"] if not nf.equal(entry(M, p_["n"]), conv(("leaf", "p_" + p_["n"])))]
                if len(f["params"]) != len(comps(conv, E.load(this))):
                    probs.append("%d arguments for %d stored components" % (len(f["params"]), len(comps(conv, E.load(this)))))
                (chk.violated if probs else chk.holds)("R6", inst, "; ".join(probs[:3]) or "each argument lands in the entry of its name", loc)
            elif len(pts) == 1 and strip_cvref(pts[0]).startswith("std::array<") and (f["kind"] == "ctor" or sn == "operator=" or sn.startswith("Set_")) \
                    and all(valid(c) for c in (f["params"][0]["n"] or "-").split("_")):
                n += 1
                names = f["params"][0]["n"].split("_")
                inst = "%s::%s(array %s)" % (tn, sn, f["params"][0]["n"])
                this = E.new_loc(E.blank(tn) if f["kind"] == "ctor" else E.symbolic(tn, "a"), "this")
                arr = E.new_loc(ev.Obj(strip_cvref(pts[0]), {"_M_elems": ev.Arr([("leaf", "e_" + c) for c in names])}), "arg")
                E.call(f["id"], this, [arr])
                M = TA.embed(sh, comps(conv, E.load(this)))
                probs = ["entry %s is %s, expected array element %d (%s)" % (c, entry(M, c), k, c)
                         for k, c in enumerate(names) if not nf.equal(entry(M, c), conv(("leaf", "e_" + c)))]
                (chk.violated if probs else chk.holds)("R6", inst, "; ".join(probs[:3]) or "element k of the array lands in the entry named by the k-th component of the parameter name", loc)
            elif f["kind"] == "method" and not pts and "_" in sn and all(valid(c) for c in sn.replace("Mutable_", "").split("_")):
                n += 1
                names = sn.replace("Mutable_", "").split("_")
                inst = "%s::%s()" % (tn, sn)
                this = E.new_loc(E.symbolic(tn, "a"), "this")
                r = E.call(f["id"], this, [])
                got = [conv(t) for _, t in ev.flatten(E.rv(r))]
                M = TA.embed(sh, comps(conv, E.load(this)))
                probs = []
                if len(got) != len(names):
                    probs.append("returns %d elements for %d names" % (len(got), len(names)))
                else:
                    probs = ["element %d is %s, the %s entry is %s" % (k, g, c, entry(M, c)) for k, (g, c) in enumerate(zip(got, names)) if not nf.equal(g, entry(M, c))]
                if sn.startswith("Mutable_") and not (isinstance(r, ev.LV) and r.loc == this.loc):
                    probs.append("does not return a reference into the object")
                (chk.violated if probs else chk.holds)("R6", inst, "; ".join(probs[:3]) or "element k is the entry named by the k-th component of the name", loc)
            elif len(pts) == 1 and (f["kind"] == "ctor" or sn == "operator=") and shape_of(F, pts[0]) in ("planar", "vector", "symdyad", "dyad") \
                    and shape_of(F, pts[0]) != sh and strip_cvref(pts[0]).endswith("<%s>" % T) and not (f.get("copy_ctor") or f.get("move_ctor")):
                n += 1
                ssh = shape_of(F, pts[0])
                inst = "%s::%s(%s)" % (tn, sn, strip_cvref(pts[0]).replace("PhQ::", ""))
                this = E.new_loc(E.blank(tn) if f["kind"] == "ctor" else E.symbolic(tn, "a"), "this")
                src = E.new_loc(E.symbolic(strip_cvref(pts[0]), "b"), "arg")
                E.call(f["id"], this, [src])
                M = TA.embed(sh, comps(conv, E.load(this)))
                S = TA.embed(ssh, comps(conv, E.load(src)))
                probs = []
                if M.shape != S.shape:
                    probs.append("a %s cannot hold a %s" % (sh, ssh))
                else:
                    for r_ in range(M.shape[0]):
                        for c_ in range(M.shape[1]):
                            if sh == "planar" and M.shape[1] == 1 and r_ == 2:
                                continue          # the planar projection drops z
                            if not nf.equal(M[r_, c_], S[r_, c_]):
                                probs.append("entry %s%s is %s, the source has %s" % ("xyz"[r_], "xyz"[c_] if M.shape[1] == 3 else "", M[r_, c_], S[r_, c_]))
                (chk.violated if probs else chk.holds)("R6", inst, "; ".join(probs[:3]) or "the embedded %s equals the embedded %s entry by entry" % (sh, ssh), loc)
            elif f["kind"] == "method" and sn == "IsSymmetric" and not pts:
                n += 1
                inst = "%s::IsSymmetric()" % tn
                this = E.new_loc(E.symbolic(tn, "a"), "this")
                res = E.rv(E.call(f["id"], this, []))
                slot_names = [nme for nme, _ in ev.flatten(E.symbolic(tn, "a"))]
                from .. import order
                atoms = []
                order.collect_atoms(res, atoms)
                M = TA.embed(sh, [sympy.Symbol("s%d" % k) for k in range(len(slot_names))])
                leaf_sym = {}
                for k, (_, t) in enumerate(ev.flatten(E.symbolic(tn, "a"))):
                    leaf_sym[t[1]] = sympy.Symbol("s%d" % k)
                pairs = [(M[0, 1], M[1, 0]), (M[0, 2], M[2, 0]), (M[1, 2], M[2, 1])]
                amap = {}
                bad_atom = None
                for a_ in atoms:
                    x_, y_ = leaf_sym.get(order._leafname(a_[2])), leaf_sym.get(order._leafname(a_[3]))
                    k_ = next((k for k, (p, q) in enumerate(pairs) if {x_, y_} == {p, q}), None)
                    if k_ is None or a_[1] not in ("==", "!="):
                        bad_atom = ev.show(a_)
                        break
                    amap[a_] = k_
                if bad_atom:
                    chk.violated("R6", inst, "tests %s, which is not the equality of two mirrored entries" % bad_atom[:120], loc)
                else:
                    import itertools
                    wrong = None
                    for eqs in itertools.product((True, False), repeat=3):
                        got = order.evaluate(res, lambda a_, eqs=eqs: eqs[amap[a_]] if a_[1] == "==" else not eqs[amap[a_]])
                        if got != all(eqs):
                            wrong = eqs
                            break
                    if wrong is None:
                        chk.holds("R6", inst, "true exactly when xy = yx, xz = zx and yz = zy (8 cases)", loc)
                    else:
                        chk.violated("R6", inst, "with (xy=yx, xz=zx, yz=zy) = %s it returns %s" % (wrong, not all(wrong)), loc)
        except ev.Inconclusive as x:
            if str(x).startswith("bad array"):
                chk.violated("R6", "%s::%s" % (tn, sn), "accesses its component array out of bounds: %s" % x, loc)
            else:
                chk.inconclusive("R6", "%s::%s" % (tn, sn), str(x), loc)
    return n


def note_error_bound(chk, inst, val, T, loc, stats):
    from .. import errdom
    signs = {}
    bs = []
    for _, t in ev.flatten(val):
        for leaf in ev.leaves(t):
            signs[leaf] = "?"
        bs.append(errdom.err(t, T, signs)[0])
    if any(b is None for b in bs) or not bs:
        stats["undecided"] += 1
        return
    w = float(max(bs))
    if w > 8:
        chk.violated("R5", inst, "a-priori forward error bound %s u (> 8 ulps) for all inputs" % w, loc)
        return
    stats["decided"] += 1
    stats["max_u"] = max(stats["max_u"], w)


def check_inverse(F, E, conv, res, A, sh):
    """res = ('opt', present, value)."""
    if not (isinstance(res, tuple) and res and res[0] == "opt"):
        return "Inverse() does not return an optional: %s" % ev.show(res)[:100], None
    present, val = res[1], res[2]
    det = TA.determinant(A)
    # the guard: present <=> det != 0
    if not (isinstance(present, tuple) and present[0] == "cmp" and present[1] == "!=" and present[3] in (ev.ZERO, 0)):
        if isinstance(present, tuple) and present[0] == "not" and isinstance(present[1], tuple) and present[1][0] == "cmp" and present[1][1] == "==" and present[1][3] in (ev.ZERO, 0):
            guard = present[1][2]
        else:
            return "Inverse() is present under %s, expected exactly `determinant != 0`" % ev.show(present)[:160], None
    else:
        guard = present[2]
    if not nf.equal(conv(guard), det):
        return "the guard tests %s, which is not the determinant" % sympy.expand(conv(guard)), (conv(guard), det)
    v = ev.assume(val, present, True)
    want = TA.inverse(A)
    bad = compare(conv, v, sh, want)
    if bad:
        return bad
    g = TA.embed(sh, [conv(t) for _, t in ev.flatten(v)])
    prod = TA.matmat(g, A)
    for i in range(3):
        for j in range(3):
            if not nf.equal(prod[i, j], 1 if i == j else 0):
                return "Inverse * original is not the identity at (%d,%d)" % (i, j), None
    return None
