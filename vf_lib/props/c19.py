"""C19 — quantities work during static initialisation."""
import os
import re
import subprocess
import tempfile

from .. import facts, cg, frontend, ev
from ..facts import short, strip_cvref
from ..frontend import NUMERIC


def tmpl_name(qname):
    """Qualified name (phqx `qname`: no function template arguments) with the template-argument lists of the
    enclosing classes removed: PhQ::DimensionalScalar<U,T>::Print -> PhQ::DimensionalScalar::Print."""
    depth, last = 0, -1
    for i, c in enumerate(qname):
        if c == "<" and not qname.startswith("operator", max(0, i - 8), i) and not qname.startswith("operator<", max(0, i - 9), i):
            depth += 1
        elif c == ">" and depth > 0:
            depth -= 1
        elif c == ":" and depth == 0 and qname.startswith("::", i):
            last = i
    head, tail = (qname[:last], qname[last:]) if last >= 0 else ("", qname)
    out, depth = [], 0
    for c in head:
        if c == "<":
            depth += 1
        elif c == ">":
            depth -= 1
        elif depth == 0:
            out.append(c)
    return "".join(out) + tail


def classify(v):
    """[basic.start.static]/[basic.start.dynamic] classification of a namespace-scope variable."""
    if v.get("constant_init") is True:
        return "constant"
    if v["tsk"] in ("implicit_instantiation", "explicit_instantiation_definition", "explicit_instantiation_declaration"):
        return "unordered"
    if v.get("inline"):
        return "partially-ordered"
    return "ordered"


def run(chk):
    chk.level = "proof"
    chk.technique = ("initialisation-order classification of every namespace-scope PhQ variable per [basic.start.dynamic] "
                     "(constant / partially-ordered / ordered / unordered) from clang's TemplateSpecializationKind, isInline and "
                     "hasConstantInitialization, plus a who-reads walk over all instantiated function bodies")
    chk.rule("R1", "no function of the library reads a namespace-scope variable whose dynamic initialisation is unordered "
                   "(an instantiated variable-template specialisation): a user object defined after the includes has no ordering with it")
    chk.rule("R2", "the dynamic initialiser of a PhQ namespace-scope variable reads no other dynamically initialised variable")
    chk.rule("R4", "no function that takes no unit (or unit-system) enumerator at run time - arithmetic, comparison, printing in the standard unit, "
                   "Create<U>/StaticValue<U>/ConvertStatically and the Conversion kernels - reads an unordered-initialised table on any path "
                   "(path-sensitive: each such function that can reach a reader in the call graph is evaluated, with the standard unit where it passes one)")
    chk.rule("R3", "every table family the public API relies on (abbreviations, spellings, consistent units, related systems, conversion dispatch) is classified")
    chk.assumptions += ["user objects are defined at namespace scope after the PhQ includes, as the property states",
                        "the classification is the C++17 standard's; both GCC and Clang implement partially-ordered initialisation of explicitly specialised inline variables in definition order (thorough tier cross-checks the emitted initialiser order)"]
    seen_templates = {}
    for T in NUMERIC:
        F = facts.load(T, chk.tier)
        readers = {}
        for f in F.fns.values():
            if "body" not in f:
                continue
            for vid in cg.gvar_refs(f):
                readers.setdefault(vid, []).append(f)
        for v in F.vars.values():
            if not v.get("under_root"):
                continue
            cls = classify(v)
            tn = v.get("template") or v["name"]
            seen_templates.setdefault(tn, set()).add(cls)
            rs = readers.get(v["id"], [])
            if cls == "unordered":
                names = sorted({tmpl_name(f.get("qname", f["name"])) for f in rs})
                if not names:
                    chk.holds("R1", "%s|<no reader>|%s" % (v["name"], T), "unordered but never read", short(v["loc"]), nontrivial=False)
                elif not any(o["instance"] == tn for o in chk.obs):
                    # one obligation per variable template (the known-finding key): the defect is "this table has no initialisation
                    # order with user objects, yet the library reads it"; which internal function holds the read is an
                    # implementation detail that a refactor may move (paths from unit-free entry points are R4's business)
                    chk.violated("R1", tn,
                                 "%s (%s, dynamic initialisation, from %s) is read by %s; first seen for %s at %s. "
                                 "A namespace-scope object that converts units before main() may run before this table is constructed."
                                 % (tn, v["tsk"], "a partial specialisation" if v.get("from_partial") else "the primary template",
                                    ", ".join(names[:4]), v["name"], short(rs[0].get("def_loc", rs[0]["loc"]))), short(v["loc"]))
            else:
                chk.holds("R1", "%s|%s" % (v["name"], T), "%s; %d reader(s)" % (cls, len(rs)), short(v["loc"]), nontrivial=(cls != "constant"))
            # R2
            if cls != "constant" and v.get("init") is not None:
                direct = cg.tree_gvar_refs(v["init"])
                fns = cg.reachable(F, cg.tree_callees(v["init"]))
                # the conversion maps only *store* function references; a stored reference is not a read at init time,
                # so only constructors/calls evaluated in the initialiser matter: take callees of call/ctor nodes only
                called = set()
                cg.walk(v["init"], lambda n: called.add(n["f"]) if n.get("k") in ("call", "ctor") and "f" in n else None)
                for i in cg.reachable(F, called):
                    direct |= cg.gvar_refs(F.fns[i]) if "body" in F.fns[i] else set()
                bad = [F.vars[d]["name"] for d in direct if d in F.vars and F.vars[d].get("under_root") and classify(F.vars[d]) != "constant"]
                if bad:
                    chk.violated("R2", "%s|%s" % (v["name"], T), "initialiser reads dynamically initialised %s" % bad, short(v["loc"]))
                else:
                    chk.holds("R2", "%s|%s" % (v["name"], T), "initialiser reads only constants/functions", short(v["loc"]))
        unit_free_paths(chk, F, T)
    for fam in ("PhQ::Internal::Abbreviations", "PhQ::Internal::Spellings", "PhQ::Internal::ConsistentUnits",
                "PhQ::Internal::RelatedUnitSystems", "PhQ::Internal::MapOfConversionsToStandard", "PhQ::Internal::MapOfConversionsFromStandard"):
        if fam in seen_templates:
            chk.holds("R3", fam, "classes: %s" % sorted(seen_templates[fam]), "")
        else:
            chk.inconclusive("R3", fam, "table family not found among the instantiated variables (anchor vanished)", "")
    chk.coverage["variable_templates"] = {k: sorted(v) for k, v in seen_templates.items()}
    if chk.tier == "thorough":
        cross_check(chk)


def takes_unit(F, f):
    for p in f["params"]:
        t = strip_cvref(F.T(p["t"]))
        if t in F.enums and (t.startswith("PhQ::Unit::") or t == "PhQ::UnitSystem"):
            return True
    return False


def unit_free_paths(chk, F, T):
    unordered = {v["id"]: v for v in F.vars.values() if v.get("under_root") and classify(v) == "unordered"}
    direct = {f["id"] for f in F.fns.values() if "body" in f and cg.gvar_refs(f) & set(unordered)}
    rev = {}
    for f in F.fns.values():
        if "body" in f or f.get("inits"):
            for c in cg.callees(f):
                rev.setdefault(c, set()).add(f["id"])
    reach, stack = set(), list(direct)
    while stack:
        i = stack.pop()
        if i in reach:
            continue
        reach.add(i)
        stack.extend(rev.get(i, ()))
    n = 0
    for i in sorted(reach):
        f = F.fns[i]
        if "body" not in f or not f["loc"].startswith(frontend.INC) or takes_unit(F, f) or f.get("qname", "").startswith("phq_verif"):
            continue
        if f["kind"] == "lambda" or f.get("deleted") or f.get("invalid"):
            continue
        n += 1
        inst = "%s(%s)|%s" % (tmpl_name(f.get("qname", f["name"])), ", ".join(strip_cvref(t).replace("PhQ::", "") for t in F.param_types(f)), T)
        loc = short(f.get("def_loc", f["loc"]))
        try:
            E = ev.Evaluator(F)
            E.run_symbolic(f)
            hit = sorted(unordered[v]["name"] for v in E.gvar_reads if v in unordered)
            if hit:
                chk.violated("R4", inst, "takes no unit at run time but reads %s (unordered dynamic initialisation): evaluating it in the initialiser of a "
                                         "namespace-scope object may run before the table exists" % hit[:2], loc)
            else:
                chk.holds("R4", inst, "can reach a table reader in the call graph, but every path passes the standard unit: no table is read", loc)
        except ev.Inconclusive as x:
            chk.inconclusive("R4", inst, str(x), loc)
    chk.coverage.setdefault("unit_free_functions_evaluated", {})[T] = n


WITNESS = r'''
#include <PhQ/Length.hpp>
#include <PhQ/Speed.hpp>
const PhQ::Length<> phq_verif_witness_length{1.0, PhQ::Unit::Length::Foot};
const std::string phq_verif_witness_print = phq_verif_witness_length.Print(PhQ::Unit::Length::Inch);
int main() { return phq_verif_witness_length.Value() > 0 ? 0 : 1; }
'''


def cross_check(chk):
    """Thorough: read the order of initialiser calls in the compiler's *output* (never executed)."""
    d = tempfile.mkdtemp(prefix="phq-c19-", dir="/var/tmp")
    try:
        src = os.path.join(d, "w.cc")
        open(src, "w").write(WITNESS)
        r = subprocess.run(["g++", "-std=c++17", "-O0", "-S", "-I" + frontend.INC, src, "-o", os.path.join(d, "w.s")], capture_output=True, text=True)
        if r.returncode != 0:
            chk.observe("g++ -S of the witness TU failed: " + r.stderr[:300])
            return
        asm = open(os.path.join(d, "w.s")).read()
        m = re.search(r"_Z41__static_initialization_and_destruction_0.*?:\n(.*?)\.cfi_endproc", asm, re.S)
        body = m.group(1) if m else ""
        calls = re.findall(r"call\s+(\S+)", body)
        order = []
        for c in calls:
            if "phq_verif_witness" in c or "Length" in c and "C1E" in c or "C2E" in c and "Length" in c:
                order.append(("user", c))
            if "MapOfConversions" in c or ("St3map" in c and "function" in c):
                order.append(("map", c))
        idx_user = next((i for i, (k, _) in enumerate(order) if k == "user"), None)
        idx_map = next((i for i, (k, _) in enumerate(order) if k == "map"), None)
        chk.coverage["gcc_static_init_call_order"] = [k for k, _ in order][:20]
        if idx_user is not None and idx_map is not None:
            chk.observe("g++ -O0 assembly of a witness TU: first user-object constructor call is #%d, first conversion-map constructor call is #%d in the TU's static-initialisation function (%s)"
                        % (idx_user, idx_map, "user object BEFORE the table: consistent with the unordered classification" if idx_user < idx_map else "table first"))
    finally:
        subprocess.run(["rm", "-rf", d])
