// Differential program for the comparison-operator / std::hash refactor (property C14).
#include <PhQ/Dyad.hpp>
#include <PhQ/PlanarVector.hpp>
#include <PhQ/Position.hpp>
#include <PhQ/Strain.hpp>
#include <PhQ/SymmetricDyad.hpp>
#include <PhQ/Time.hpp>
#include <PhQ/Vector.hpp>

#include <algorithm>
#include <array>
#include <cstdint>
#include <cstdio>
#include <functional>
#include <iostream>
#include <limits>
#include <map>
#include <random>
#include <set>
#include <string>
#include <unordered_map>
#include <unordered_set>
#include <vector>

namespace {

struct Digest {
  std::uint64_t h = 1469598103934665603ULL;
  void add(std::uint64_t v) {
    for (int i = 0; i < 8; ++i) {
      h ^= (v >> (8 * i)) & 0xffU;
      h *= 1099511628211ULL;
    }
  }
};

template <typename T>
const char* TypeName();
template <>
const char* TypeName<float>() {
  return "float";
}
template <>
const char* TypeName<double>() {
  return "double";
}
template <>
const char* TypeName<long double>() {
  return "long double";
}

template <typename T>
std::vector<T> Grid(const bool with_nan) {
  using L = std::numeric_limits<T>;
  std::vector<T> g{-L::infinity(),
                   -L::max(),
                   static_cast<T>(-1),
                   -L::min(),
                   -L::denorm_min(),
                   static_cast<T>(-0.0),
                   static_cast<T>(0.0),
                   L::denorm_min(),
                   L::min(),
                   static_cast<T>(1),
                   static_cast<T>(1) + L::epsilon(),
                   static_cast<T>(2.5),
                   L::max(),
                   L::infinity()};
  if (with_nan) {
    g.push_back(L::quiet_NaN());
    g.push_back(-L::quiet_NaN());
  }
  return g;
}

// Six operators in both argument orders, packed into 12 bits.
template <typename Q>
unsigned Ops(const Q& a, const Q& b) {
  unsigned r = 0;
  r |= (a == b) ? 1U : 0U;
  r |= (a != b) ? 2U : 0U;
  r |= (a < b) ? 4U : 0U;
  r |= (a > b) ? 8U : 0U;
  r |= (a <= b) ? 16U : 0U;
  r |= (a >= b) ? 32U : 0U;
  r |= (b == a) ? 64U : 0U;
  r |= (b != a) ? 128U : 0U;
  r |= (b < a) ? 256U : 0U;
  r |= (b > a) ? 512U : 0U;
  r |= (b <= a) ? 1024U : 0U;
  r |= (b >= a) ? 2048U : 0U;
  return r;
}

template <typename Q>
void AllPairs(const char* label, const char* type, const std::vector<Q>& objects) {
  Digest d;
  std::array<std::uint64_t, 6> counts{};
  for (const Q& a : objects) {
    for (const Q& b : objects) {
      const unsigned r = Ops(a, b);
      d.add(r);
      for (int k = 0; k < 6; ++k) {
        counts[k] += (r >> k) & 1U;
      }
    }
  }
  Digest hd;
  for (const Q& a : objects) {
    hd.add(static_cast<std::uint64_t>(std::hash<Q>()(a)));
  }
  std::printf("%s<%s> n=%zu ops=%016llx eq=%llu ne=%llu lt=%llu gt=%llu le=%llu ge=%llu hash=%016llx\n",
              label, type, objects.size(), static_cast<unsigned long long>(d.h),
              static_cast<unsigned long long>(counts[0]), static_cast<unsigned long long>(counts[1]),
              static_cast<unsigned long long>(counts[2]), static_cast<unsigned long long>(counts[3]),
              static_cast<unsigned long long>(counts[4]), static_cast<unsigned long long>(counts[5]),
              static_cast<unsigned long long>(hd.h));
}

// Sorting / containers on NaN-free objects.
template <typename Q>
void Containers(const char* label, const char* type, const std::vector<Q>& objects) {
  std::vector<std::size_t> index(objects.size());
  for (std::size_t i = 0; i < index.size(); ++i) {
    index[i] = i;
  }
  std::stable_sort(index.begin(), index.end(),
                   [&](std::size_t i, std::size_t j) { return objects[i] < objects[j]; });
  Digest d;
  for (const std::size_t i : index) {
    d.add(i);
  }
  std::vector<std::size_t> index2(index.size());
  for (std::size_t i = 0; i < index2.size(); ++i) {
    index2[i] = i;
  }
  std::stable_sort(index2.begin(), index2.end(),
                   [&](std::size_t i, std::size_t j) { return objects[i] > objects[j]; });
  for (const std::size_t i : index2) {
    d.add(i);
  }
  std::set<Q> ordered(objects.begin(), objects.end());
  std::set<Q, std::greater<Q>> ordered_desc(objects.begin(), objects.end());
  std::map<Q, std::size_t, std::less_equal<Q>> dummy;  // only instantiation of <=, never filled
  (void)dummy;
  std::unordered_set<Q> unordered(objects.begin(), objects.end());
  std::unordered_map<Q, std::size_t> first_seen;
  for (std::size_t i = 0; i < objects.size(); ++i) {
    first_seen.emplace(objects[i], i);
  }
  std::size_t found = 0;
  for (const Q& a : objects) {
    found += ordered.count(a) + unordered.count(a) + ordered_desc.count(a);
    d.add(first_seen.at(a));
  }
  std::printf("%s<%s> containers: sort=%016llx set=%zu set_desc=%zu uset=%zu found=%zu\n", label,
              type, static_cast<unsigned long long>(d.h), ordered.size(), ordered_desc.size(),
              unordered.size(), found);
}

template <typename T, std::size_t N>
std::vector<std::array<T, N>> RandomArrays(const std::vector<T>& values, const std::size_t count,
                                           const unsigned seed) {
  std::mt19937 gen(seed);
  std::vector<std::array<T, N>> out;
  out.reserve(count);
  for (std::size_t c = 0; c < count; ++c) {
    std::array<T, N> a{};
    // Bias towards a shared prefix so that ties in leading components are common.
    const std::size_t tie_prefix = gen() % (N + 1);
    for (std::size_t i = 0; i < N; ++i) {
      if (i < tie_prefix) {
        a[i] = (i % 2 == 0) ? ((gen() % 2 == 0) ? static_cast<T>(0.0) : static_cast<T>(-0.0))
                            : static_cast<T>(1);
      } else {
        a[i] = values[gen() % values.size()];
      }
    }
    out.push_back(a);
  }
  return out;
}

template <typename T>
void PrintExplicit(const char* type) {
  const T pz = static_cast<T>(0.0);
  const T nz = static_cast<T>(-0.0);
  const T nan = std::numeric_limits<T>::quiet_NaN();
  const T one = static_cast<T>(1);
  {
    const PhQ::Vector<T> a(pz, nz, pz), b(nz, pz, nz), c(pz, pz, one), d(pz, nan, one),
        e(pz, pz, nan);
    std::printf("Vector<%s> zeros %03x h=%d | tie %03x %03x | nan %03x %03x %03x %03x\n", type,
                Ops(a, b), std::hash<PhQ::Vector<T>>()(a) == std::hash<PhQ::Vector<T>>()(b) ? 1 : 0,
                Ops(a, c), Ops(c, c), Ops(c, d), Ops(d, d), Ops(c, e), Ops(e, e));
    std::printf("  hash(0,0,0)=%zu hash(0,0,1)=%zu hash(1,0,0)=%zu\n",
                std::hash<PhQ::Vector<T>>()(a), std::hash<PhQ::Vector<T>>()(c),
                std::hash<PhQ::Vector<T>>()(PhQ::Vector<T>(one, pz, pz)));
  }
  {
    const PhQ::PlanarVector<T> a(pz, nz), b(nz, pz), c(pz, one), d(nan, one), e(pz, nan);
    std::printf("PlanarVector<%s> zeros %03x h=%d | tie %03x %03x | nan %03x %03x %03x %03x\n", type,
                Ops(a, b),
                std::hash<PhQ::PlanarVector<T>>()(a) == std::hash<PhQ::PlanarVector<T>>()(b) ? 1 : 0,
                Ops(a, c), Ops(c, c), Ops(c, d), Ops(d, d), Ops(c, e), Ops(e, e));
    std::printf("  hash(0,0)=%zu hash(0,1)=%zu hash(1,0)=%zu\n",
                std::hash<PhQ::PlanarVector<T>>()(a), std::hash<PhQ::PlanarVector<T>>()(c),
                std::hash<PhQ::PlanarVector<T>>()(PhQ::PlanarVector<T>(one, pz)));
  }
  {
    const PhQ::SymmetricDyad<T> a(pz, nz, pz, nz, pz, nz), b(nz, pz, nz, pz, nz, pz),
        c(pz, pz, pz, pz, pz, one), d(pz, pz, pz, nan, pz, one), e(pz, pz, pz, pz, pz, nan),
        f(pz, pz, pz, pz, one, pz);
    std::printf(
        "SymmetricDyad<%s> zeros %03x h=%d | tie %03x %03x %03x | nan %03x %03x %03x %03x\n", type,
        Ops(a, b),
        std::hash<PhQ::SymmetricDyad<T>>()(a) == std::hash<PhQ::SymmetricDyad<T>>()(b) ? 1 : 0,
        Ops(a, c), Ops(c, c), Ops(c, f), Ops(c, d), Ops(d, d), Ops(c, e), Ops(e, e));
    std::printf("  hash(0)=%zu hash(zz=1)=%zu hash(yz=1)=%zu\n",
                std::hash<PhQ::SymmetricDyad<T>>()(a), std::hash<PhQ::SymmetricDyad<T>>()(c),
                std::hash<PhQ::SymmetricDyad<T>>()(f));
  }
  {
    const PhQ::Dyad<T> a(pz, nz, pz, nz, pz, nz, pz, nz, pz), b(nz, pz, nz, pz, nz, pz, nz, pz, nz),
        c(pz, pz, pz, pz, pz, pz, pz, pz, one), d(pz, pz, pz, pz, nan, pz, pz, pz, one),
        e(pz, pz, pz, pz, pz, pz, pz, pz, nan), f(pz, pz, pz, pz, pz, pz, pz, one, pz),
        g(pz, pz, pz, one, pz, pz, pz, pz, pz), h(pz, one, pz, pz, pz, pz, pz, pz, pz);
    std::printf("Dyad<%s> zeros %03x h=%d | tie %03x %03x %03x %03x %03x | nan %03x %03x %03x %03x\n",
                type, Ops(a, b),
                std::hash<PhQ::Dyad<T>>()(a) == std::hash<PhQ::Dyad<T>>()(b) ? 1 : 0, Ops(a, c),
                Ops(c, c), Ops(c, f), Ops(g, h), Ops(f, g), Ops(c, d), Ops(d, d), Ops(c, e),
                Ops(e, e));
    std::printf("  hash(0)=%zu hash(zz=1)=%zu hash(zy=1)=%zu hash(yx=1)=%zu hash(xy=1)=%zu\n",
                std::hash<PhQ::Dyad<T>>()(a), std::hash<PhQ::Dyad<T>>()(c),
                std::hash<PhQ::Dyad<T>>()(f), std::hash<PhQ::Dyad<T>>()(g),
                std::hash<PhQ::Dyad<T>>()(h));
  }
  {
    const PhQ::Time<T> a(pz, PhQ::Unit::Time::Second), b(nz, PhQ::Unit::Time::Second),
        c(one, PhQ::Unit::Time::Minute), d(nan, PhQ::Unit::Time::Second);
    std::printf("Time<%s> zeros %03x h=%d | %03x %03x | nan %03x %03x | hash %zu %zu\n", type,
                Ops(a, b), std::hash<PhQ::Time<T>>()(a) == std::hash<PhQ::Time<T>>()(b) ? 1 : 0,
                Ops(a, c), Ops(c, c), Ops(c, d), Ops(d, d), std::hash<PhQ::Time<T>>()(a),
                std::hash<PhQ::Time<T>>()(c));
  }
}

template <typename T>
void Run() {
  const char* type = TypeName<T>();
  const std::vector<T> full = Grid<T>(true);
  const std::vector<T> finite = Grid<T>(false);
  // A small grid for the wide types: forces many ties. Includes both zeros and a NaN.
  const std::vector<T> small{static_cast<T>(-1), static_cast<T>(-0.0), static_cast<T>(0.0),
                             static_cast<T>(1), std::numeric_limits<T>::infinity(),
                             std::numeric_limits<T>::quiet_NaN()};
  const std::vector<T> small_finite{static_cast<T>(-1), static_cast<T>(-0.0), static_cast<T>(0.0),
                                    static_cast<T>(1), std::numeric_limits<T>::infinity()};

  PrintExplicit<T>(type);

  // PlanarVector: complete grid (16^2 = 256 objects, 65536 pairs).
  {
    std::vector<PhQ::PlanarVector<T>> objects, clean;
    for (const T x : full) {
      for (const T y : full) {
        objects.emplace_back(x, y);
      }
    }
    for (const T x : finite) {
      for (const T y : finite) {
        clean.emplace_back(x, y);
      }
    }
    AllPairs("PlanarVector", type, objects);
    Containers("PlanarVector", type, clean);
  }
  // Vector: complete small grid (6^3 = 216) + complete grid subsampled.
  {
    std::vector<PhQ::Vector<T>> objects, clean;
    std::vector<PhQ::Position<T>> positions, clean_positions;
    for (const T x : small) {
      for (const T y : small) {
        for (const T z : small) {
          objects.emplace_back(x, y, z);
          positions.emplace_back(PhQ::Vector<T>(x, y, z), PhQ::Unit::Length::Metre);
        }
      }
    }
    for (const T x : small_finite) {
      for (const T y : small_finite) {
        for (const T z : small_finite) {
          clean.emplace_back(x, y, z);
          clean_positions.emplace_back(PhQ::Vector<T>(x, y, z), PhQ::Unit::Length::Millimetre);
        }
      }
    }
    for (const std::array<T, 3>& a : RandomArrays<T, 3>(full, 500, 11)) {
      objects.emplace_back(a);
      positions.emplace_back(PhQ::Vector<T>(a), PhQ::Unit::Length::Metre);
    }
    for (const std::array<T, 3>& a : RandomArrays<T, 3>(finite, 500, 12)) {
      clean.emplace_back(a);
      clean_positions.emplace_back(PhQ::Vector<T>(a), PhQ::Unit::Length::Foot);
    }
    AllPairs("Vector", type, objects);
    Containers("Vector", type, clean);
    AllPairs("Position", type, positions);
    AllPairs("Position(clean)", type, clean_positions);
    Containers("Position", type, clean_positions);
  }
  // SymmetricDyad and Strain.
  {
    std::vector<PhQ::SymmetricDyad<T>> objects, clean;
    std::vector<PhQ::Strain<T>> strains, clean_strains;
    for (const std::array<T, 6>& a : RandomArrays<T, 6>(small, 500, 21)) {
      objects.emplace_back(a);
      strains.emplace_back(a);
    }
    for (const std::array<T, 6>& a : RandomArrays<T, 6>(full, 300, 22)) {
      objects.emplace_back(a);
      strains.emplace_back(PhQ::SymmetricDyad<T>(a));
    }
    for (const std::array<T, 6>& a : RandomArrays<T, 6>(small_finite, 500, 23)) {
      clean.emplace_back(a);
      clean_strains.emplace_back(a);
    }
    for (const std::array<T, 6>& a : RandomArrays<T, 6>(finite, 300, 24)) {
      clean.emplace_back(a);
      clean_strains.emplace_back(a);
    }
    AllPairs("SymmetricDyad", type, objects);
    Containers("SymmetricDyad", type, clean);
    AllPairs("Strain", type, strains);
    Containers("Strain", type, clean_strains);
  }
  // Dyad.
  {
    std::vector<PhQ::Dyad<T>> objects, clean;
    for (const std::array<T, 9>& a : RandomArrays<T, 9>(small, 500, 31)) {
      objects.emplace_back(a);
    }
    for (const std::array<T, 9>& a : RandomArrays<T, 9>(full, 300, 32)) {
      objects.emplace_back(a);
    }
    for (const std::array<T, 9>& a : RandomArrays<T, 9>(small_finite, 500, 33)) {
      clean.emplace_back(a);
    }
    for (const std::array<T, 9>& a : RandomArrays<T, 9>(finite, 300, 34)) {
      clean.emplace_back(a);
    }
    AllPairs("Dyad", type, objects);
    Containers("Dyad", type, clean);
  }
  // Time: complete grid in several units plus random values.
  {
    std::vector<PhQ::Time<T>> objects, clean;
    const std::array<PhQ::Unit::Time, 4> units{PhQ::Unit::Time::Second, PhQ::Unit::Time::Minute,
                                               PhQ::Unit::Time::Hour, PhQ::Unit::Time::Millisecond};
    for (const PhQ::Unit::Time unit : units) {
      for (const T v : full) {
        objects.emplace_back(v, unit);
      }
      for (const T v : finite) {
        clean.emplace_back(v, unit);
      }
    }
    std::mt19937_64 gen(41);
    std::uniform_real_distribution<double> dist(-3.0, 3.0);
    for (int i = 0; i < 300; ++i) {
      const T v = static_cast<T>(dist(gen));
      objects.emplace_back(v, PhQ::Unit::Time::Second);
      objects.emplace_back(v * static_cast<T>(60), PhQ::Unit::Time::Minute);
      clean.emplace_back(v, PhQ::Unit::Time::Second);
      clean.emplace_back(v / static_cast<T>(60), PhQ::Unit::Time::Minute);
    }
    AllPairs("Time", type, objects);
    Containers("Time", type, clean);
  }
}

// The comparison operators must remain usable in constant expressions.
constexpr PhQ::Vector<double> kV1(1.0, 2.0, 3.0), kV2(1.0, 2.0, 4.0);
static_assert(kV1 < kV2 && kV1 <= kV2 && kV2 > kV1 && kV2 >= kV1 && kV1 != kV2 && kV1 == kV1, "");
constexpr PhQ::PlanarVector<float> kP1(1.0F, -0.0F), kP2(1.0F, 0.0F);
static_assert(kP1 == kP2 && !(kP1 < kP2) && kP1 <= kP2 && kP1 >= kP2 && !(kP1 > kP2)
                  && !(kP1 != kP2),
              "");
constexpr PhQ::SymmetricDyad<long double> kS1(1.0L, 2.0L, 3.0L, 4.0L, 5.0L, 6.0L),
    kS2(1.0L, 2.0L, 3.0L, 4.0L, 5.0L, 7.0L);
static_assert(kS1 < kS2 && kS1 <= kS2 && kS2 > kS1 && kS2 >= kS1 && kS1 != kS2 && kS2 == kS2, "");
constexpr PhQ::Dyad<double> kD1(1.0, 2.0, 3.0, 4.0, 5.0, 6.0, 7.0, 8.0, 9.0),
    kD2(1.0, 2.0, 3.0, 4.0, 5.0, 6.0, 7.0, 9.0, 0.0);
static_assert(kD1 < kD2 && kD1 <= kD2 && kD2 > kD1 && kD2 >= kD1 && kD1 != kD2 && kD2 == kD2, "");
constexpr PhQ::Strain<double> kE1(1.0, 2.0, 3.0, 4.0, 5.0, 6.0), kE2(1.0, 2.0, 3.0, 4.0, 6.0, 0.0);
static_assert(kE1 < kE2 && kE1 <= kE2 && kE2 > kE1 && kE2 >= kE1 && kE1 != kE2 && kE2 == kE2, "");
static_assert(noexcept(kV1 < kV2) && noexcept(kV1 == kV2) && noexcept(kD1 >= kD2)
                  && noexcept(kE1 <= kE2) && noexcept(kS1 != kS2) && noexcept(kP1 > kP2),
              "");

}  // namespace

int main() {
  Run<float>();
  Run<double>();
  Run<long double>();
  return 0;
}
