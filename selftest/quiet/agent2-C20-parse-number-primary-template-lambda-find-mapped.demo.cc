// Differential program for the C20r refactor: exercises PhQ::ParseNumber, PhQ::ParseEnumeration,
// PhQ::RelatedUnitSystem, PhQ::ConsistentUnit and the ConvertInPlace/Convert table lookups.
#include <PhQ/Base.hpp>
#include <PhQ/Dyad.hpp>
#include <PhQ/PlanarVector.hpp>
#include <PhQ/SymmetricDyad.hpp>
#include <PhQ/Unit.hpp>
#include <PhQ/Unit/Acceleration.hpp>
#include <PhQ/Unit/Angle.hpp>
#include <PhQ/Unit/Area.hpp>
#include <PhQ/Unit/Energy.hpp>
#include <PhQ/Unit/Force.hpp>
#include <PhQ/Unit/Frequency.hpp>
#include <PhQ/Unit/Length.hpp>
#include <PhQ/Unit/Mass.hpp>
#include <PhQ/Unit/MassDensity.hpp>
#include <PhQ/Unit/Memory.hpp>
#include <PhQ/Unit/Power.hpp>
#include <PhQ/Unit/Pressure.hpp>
#include <PhQ/Unit/Speed.hpp>
#include <PhQ/Unit/Temperature.hpp>
#include <PhQ/Unit/TemperatureDifference.hpp>
#include <PhQ/Unit/Time.hpp>
#include <PhQ/Unit/Volume.hpp>
#include <PhQ/UnitSystem.hpp>
#include <PhQ/Vector.hpp>

#include <algorithm>
#include <array>
#include <cmath>
#include <cstdint>
#include <cstdio>
#include <cstring>
#include <iostream>
#include <limits>
#include <optional>
#include <random>
#include <string>
#include <string_view>
#include <vector>

namespace {

std::string Hex(const std::string_view s) {
  static const char* digits = "0123456789abcdef";
  std::string out;
  for (const char c : s) {
    const unsigned char u = static_cast<unsigned char>(c);
    out += digits[u >> 4];
    out += digits[u & 15];
  }
  return out;
}

// Prints the exact bytes of a floating-point value (and a readable hexfloat).
template <typename T>
std::string Bits(const T value) {
  char buffer[128];
  if constexpr (std::is_same_v<T, long double>) {
    std::snprintf(buffer, sizeof(buffer), "%La", value);
  } else {
    std::snprintf(buffer, sizeof(buffer), "%a", static_cast<double>(value));
  }
  std::string out{buffer};
  out += "/";
  unsigned char raw[sizeof(T)];
  std::memcpy(raw, &value, sizeof(T));
  // Only the 10 significant bytes of an x87 long double are defined.
  const std::size_t count = std::is_same_v<T, long double> ? 10 : sizeof(T);
  out += Hex(std::string_view(reinterpret_cast<const char*>(raw), count));
  return out;
}

template <typename T>
const char* TypeName() {
  if constexpr (std::is_same_v<T, float>) {
    return "float";
  } else if constexpr (std::is_same_v<T, double>) {
    return "double";
  } else {
    return "long double";
  }
}

std::vector<std::string> NumberStrings() {
  std::vector<std::string> strings{
    "", " ", "0", "-0", "+0", "0.0", "-0.0", "1", "-1", "1.5", "  1.5", "1.5  ", "1.5abc", "abc1.5",
    "1e10", "1E10", "1e-10", "1e38", "1e39", "3.4028235e38", "3.4028236e38", "1e-45", "1e-46",
    "1e308", "1e309", "1.7976931348623157e308", "1.7976931348623159e308", "4.9e-324", "1e-325",
    "1e4932", "1e4933", "1e-4951", "1e-4966", "-1.0e1000000", "1.0e-1000000", "nan", "NaN", "-NaN",
    "nan(123)", "nan(", "inf", "-inf", "infinity", "-infinity", "INF", "Infinity", "infinit", "in",
    "0x1p3", "0x1.8p-3", "0x", "0x.", "0xg", "-0x1p-1074", "0x1p-1075", "0x1p1024", "1.", ".1", ".",
    "-.", "+.", "-", "+", "--1", "+-1", "1,5", "1 5", "1e", "1e+", "1e-", "e1", "1e1e1", "1.2.3",
    "\t\n\v\f\r 42", "42\t", "Hello world!", "-1.23456789e12", "-100", "-1.23456789", "1.23456789",
    "100", "1.23456789e12", "0.1", "0.2", "0.3", "0.30000000000000004", "123456789012345678901234567890",
    "0.000000000000000000000000000000000000000000001", "9007199254740993", "16777217", "1e+0", "1e-0",
    "\xc2\xa0""1", "\xef\xbb\xbf""1", "\xff", "\xff\xfe", "1\xff", "\x80\x81\x82", "\xe2\x88\x9e", "١٢٣",
    "1\xc2\xb2", "π", "3.14159265358979323846264338327950288419716939937510",
    "2.2250738585072011e-308", "2.2250738585072014e-308", "1.17549435e-38", "1.17549421e-38",
    "3.3621031431120935063e-4932", "1.18973149535723176502e+4932", "1.18973149535723176503e+4933",
  };
  // Strings with embedded NUL bytes.
  strings.push_back(std::string("1\0" "2", 3));
  strings.push_back(std::string("\0" "1", 2));
  strings.push_back(std::string("1.5\0", 4));
  strings.push_back(std::string("\0", 1));
  strings.push_back(std::string("inf\0inity", 9));
  strings.push_back(std::string(5000, '9'));
  strings.push_back(std::string(5000, '0') + "1");
  strings.push_back("0." + std::string(5000, '0') + "1");
  strings.push_back(std::string(400, ' ') + "7");
  // Random byte strings and random number-like strings.
  std::mt19937_64 generator{20240920};
  for (int i = 0; i < 3000; ++i) {
    const std::size_t length = generator() % 12;
    std::string s;
    for (std::size_t j = 0; j < length; ++j) {
      s += static_cast<char>(generator() & 0xFF);
    }
    strings.push_back(s);
  }
  const std::string alphabet = "0123456789+-.eExXpPnaifNAIF \t";
  for (int i = 0; i < 6000; ++i) {
    const std::size_t length = 1 + generator() % 14;
    std::string s;
    for (std::size_t j = 0; j < length; ++j) {
      s += alphabet[generator() % alphabet.size()];
    }
    strings.push_back(s);
  }
  for (int i = 0; i < 3000; ++i) {
    char buffer[64];
    const double mantissa = std::ldexp(static_cast<double>(generator() >> 11), -52);
    const int exponent = static_cast<int>(generator() % 700) - 350;
    std::snprintf(buffer, sizeof(buffer), "%s%.17ge%d", (generator() & 1) ? "-" : "", mantissa,
                  exponent);
    strings.push_back(buffer);
  }
  return strings;
}

template <typename T>
void TestParseNumber(const std::vector<std::string>& strings) {
  std::cout << "== ParseNumber<" << TypeName<T>() << ">\n";
  for (const std::string& s : strings) {
    std::optional<T> result;
    bool threw = false;
    try {
      result = PhQ::ParseNumber<T>(s);
    } catch (...) {
      threw = true;
    }
    std::cout << (s.size() > 40 ? "long:" + std::to_string(s.size()) + ":" + Hex(s.substr(0, 8))
                                : Hex(s))
              << " -> ";
    if (threw) {
      std::cout << "THROW";
    } else if (result.has_value()) {
      std::cout << Bits(result.value());
    } else {
      std::cout << "nullopt";
    }
    std::cout << "\n";
  }
}

std::vector<std::string> ExtraSpellings() {
  std::vector<std::string> strings{"", " ", "m", "M", "s", "S", "kg", "KG", "N", "n", "hr", "HR",
    "m·kg·s·K", "m-kg-s-K", "m kg s K", "ft·lbf·s·°R", "°R", "°C", "K", "k", "\xff", "\xc2",
    "rad", "deg", "Pa", "psi", "lbf", "B", "b", "Hz", "J", "W", "m^2", "m^3", "m/s", "m/s^2",
    "kg/m^3", "in, lb", "in,lb", "not a unit", "\xe2\x84\xa6", "µm", "μm", "um"};
  strings.push_back(std::string("m\0", 2));
  strings.push_back(std::string("\0", 1));
  strings.push_back(std::string("\0m", 2));
  strings.push_back(std::string("h\0r", 3));
  std::mt19937_64 generator{777};
  for (int i = 0; i < 1500; ++i) {
    const std::size_t length = generator() % 6;
    std::string s;
    for (std::size_t j = 0; j < length; ++j) {
      s += static_cast<char>(generator() & 0xFF);
    }
    strings.push_back(s);
  }
  const std::string alphabet = "mskgNftlbinKR°·-* ^23/";
  for (int i = 0; i < 1500; ++i) {
    const std::size_t length = 1 + generator() % 5;
    std::string s;
    for (std::size_t j = 0; j < length; ++j) {
      s += alphabet[generator() % alphabet.size()];
    }
    strings.push_back(s);
  }
  return strings;
}

template <typename Enumeration>
void TestEnumeration(const char* name, const std::vector<std::string>& extra) {
  std::cout << "== Enumeration " << name << "\n";
  // All spellings known to the table, in a deterministic order.
  std::vector<std::string> spellings;
  for (const auto& entry : PhQ::Internal::Spellings<Enumeration>) {
    spellings.emplace_back(entry.first);
  }
  std::sort(spellings.begin(), spellings.end());
  std::vector<std::string> all{spellings};
  for (const std::string& s : spellings) {
    all.push_back(s + " ");
    all.push_back(" " + s);
    all.push_back(PhQ::Lowercase(s));
    all.push_back(PhQ::Uppercase(s));
    all.push_back(s.substr(0, s.size() / 2));
    all.push_back(s + std::string(1, '\0'));
  }
  all.insert(all.end(), extra.begin(), extra.end());
  for (const std::string& s : all) {
    std::optional<Enumeration> result;
    bool threw = false;
    try {
      result = PhQ::ParseEnumeration<Enumeration>(s);
    } catch (...) {
      threw = true;
    }
    std::cout << Hex(s) << " -> ";
    if (threw) {
      std::cout << "THROW";
    } else if (result.has_value()) {
      std::cout << static_cast<long long>(result.value()) << " " << PhQ::Abbreviation(result.value());
    } else {
      std::cout << "nullopt";
    }
    std::cout << "\n";
  }
  // Round trip: every enumeration value's abbreviation parses.
  for (const auto& entry : PhQ::Internal::Abbreviations<Enumeration>) {
    const std::optional<Enumeration> parsed = PhQ::ParseEnumeration<Enumeration>(entry.second);
    std::cout << "abbr " << static_cast<long long>(entry.first) << " " << entry.second << " -> "
              << (parsed.has_value() ? static_cast<long long>(parsed.value()) : -1LL) << "\n";
  }
}

template <typename T>
std::vector<T> Samples() {
  using L = std::numeric_limits<T>;
  std::vector<T> values{static_cast<T>(0), -static_cast<T>(0), static_cast<T>(1), static_cast<T>(-1),
    static_cast<T>(0.1L), static_cast<T>(-0.3L), static_cast<T>(273.15L), static_cast<T>(-459.67L),
    static_cast<T>(1.0e-6L), static_cast<T>(123456.789L), L::min(), -L::min(), L::denorm_min(),
    -L::denorm_min(), L::max(), -L::max(), L::lowest(), L::epsilon(), L::max() / static_cast<T>(1024),
    L::min() * static_cast<T>(1024), static_cast<T>(1.0e30L), static_cast<T>(-1.0e-30L)};
  std::mt19937_64 generator{4242};
  std::uniform_real_distribution<double> mantissa{-1.0, 1.0};
  for (int i = 0; i < 40; ++i) {
    const int exponent = static_cast<int>(generator() % 60) - 30;
    values.push_back(static_cast<T>(std::ldexp(mantissa(generator), exponent)));
  }
  return values;
}

template <typename Unit, typename T>
void TestUnitForType(const char* name) {
  std::cout << "== Convert " << name << " " << TypeName<T>() << "\n";
  std::vector<Unit> units;
  for (const auto& entry : PhQ::Internal::Abbreviations<Unit>) {
    units.push_back(entry.first);
  }
  const std::vector<T> samples = Samples<T>();
  for (std::size_t from_index = 0; from_index < units.size(); ++from_index) {
    for (std::size_t to_index = 0; to_index < units.size(); ++to_index) {
      const Unit from = units[from_index];
      const Unit to = units[to_index];
      // Every pair that involves the standard unit, the identity pairs, and a sample of the rest.
      if (units.size() > 6 && from != PhQ::Standard<Unit> && to != PhQ::Standard<Unit>
          && from != to && (from_index * 7 + to_index * 3) % 11 != 0) {
        continue;
      }
      std::cout << PhQ::Abbreviation(from) << ">" << PhQ::Abbreviation(to) << ":";
      // Scalars.
      for (const T value : samples) {
        const T converted = PhQ::Convert(value, from, to);
        T in_place = value;
        PhQ::ConvertInPlace(in_place, from, to);
        std::cout << " " << Bits(converted);
        if (std::memcmp(&converted, &in_place, std::is_same_v<T, long double> ? 10 : sizeof(T))
            != 0) {
          std::cout << "!" << Bits(in_place);
        }
      }
      std::cout << "\n";
      // Arrays, std::vectors, and geometric shapes, built from consecutive samples.
      const std::size_t n = samples.size();
      for (std::size_t i = 0; i + 9 <= n; i += 9) {
        const std::array<T, 2> a2{samples[i], samples[i + 1]};
        const std::array<T, 3> a3{samples[i], samples[i + 1], samples[i + 2]};
        const std::array<T, 6> a6{samples[i], samples[i + 1], samples[i + 2], samples[i + 3],
                                  samples[i + 4], samples[i + 5]};
        const std::array<T, 9> a9{samples[i], samples[i + 1], samples[i + 2], samples[i + 3],
                                  samples[i + 4], samples[i + 5], samples[i + 6], samples[i + 7],
                                  samples[i + 8]};
        const std::array<T, 0> a0{};
        static_cast<void>(PhQ::Convert(a0, from, to));
        for (const T x : PhQ::Convert(a3, from, to)) {
          std::cout << " " << Bits(x);
        }
        std::array<T, 9> a9_in_place{a9};
        PhQ::ConvertInPlace(a9_in_place, from, to);
        for (const T x : a9_in_place) {
          std::cout << " " << Bits(x);
        }
        std::vector<T> v(samples.begin() + static_cast<std::ptrdiff_t>(i),
                         samples.begin() + static_cast<std::ptrdiff_t>(i + 5));
        for (const T x : PhQ::Convert(v, from, to)) {
          std::cout << " " << Bits(x);
        }
        PhQ::ConvertInPlace(v, from, to);
        for (const T x : v) {
          std::cout << " " << Bits(x);
        }
        std::vector<T> empty;
        PhQ::ConvertInPlace(empty, from, to);
        std::cout << " " << empty.size() << PhQ::Convert(empty, from, to).size();
        const PhQ::PlanarVector<T> planar_vector{a2};
        for (const T x : PhQ::Convert(planar_vector, from, to).x_y()) {
          std::cout << " " << Bits(x);
        }
        const PhQ::Vector<T> vector{a3};
        for (const T x : PhQ::Convert(vector, from, to).x_y_z()) {
          std::cout << " " << Bits(x);
        }
        const PhQ::SymmetricDyad<T> symmetric_dyad{a6};
        for (const T x : PhQ::Convert(symmetric_dyad, from, to).xx_xy_xz_yy_yz_zz()) {
          std::cout << " " << Bits(x);
        }
        PhQ::Dyad<T> dyad{a9};
        PhQ::ConvertInPlace(dyad, from, to);
        for (const T x : dyad.xx_xy_xz_yx_yy_yz_zx_zy_zz()) {
          std::cout << " " << Bits(x);
        }
        std::cout << "\n";
      }
    }
  }
}

template <typename Unit>
void TestUnit(const char* name, const std::vector<std::string>& extra) {
  TestEnumeration<Unit>(name, extra);
  std::cout << "== UnitSystems " << name << "\n";
  for (const auto& entry : PhQ::Internal::Abbreviations<Unit>) {
    const std::optional<PhQ::UnitSystem> system = PhQ::RelatedUnitSystem(entry.first);
    std::cout << "related " << entry.second << " -> ";
    if (system.has_value()) {
      std::cout << static_cast<long long>(system.value()) << " " << system.value();
    } else {
      std::cout << "nullopt";
    }
    std::cout << "\n";
  }
  for (const auto& entry : PhQ::Internal::Abbreviations<PhQ::UnitSystem>) {
    const Unit unit = PhQ::ConsistentUnit<Unit>(entry.first);
    const std::optional<PhQ::UnitSystem> back = PhQ::RelatedUnitSystem(unit);
    std::cout << "consistent " << entry.second << " -> " << static_cast<long long>(unit) << " "
              << PhQ::Abbreviation(unit) << " -> "
              << (back.has_value() ? static_cast<long long>(back.value()) : -1LL) << "\n";
  }
  std::cout << "standard " << static_cast<long long>(PhQ::Standard<Unit>) << "\n";
  TestUnitForType<Unit, float>(name);
  TestUnitForType<Unit, double>(name);
  TestUnitForType<Unit, long double>(name);
}

}  // namespace

int main() {
  const std::vector<std::string> numbers = NumberStrings();
  TestParseNumber<float>(numbers);
  TestParseNumber<double>(numbers);
  TestParseNumber<long double>(numbers);
  // Default template argument and const char* argument.
  {
    const std::optional<double> a = PhQ::ParseNumber<>("1.25");
    const std::optional<double> b = PhQ::ParseNumber("junk");
    std::cout << "default " << (a.has_value() ? Bits(a.value()) : "nullopt") << " "
              << (b.has_value() ? Bits(b.value()) : "nullopt") << "\n";
  }

  const std::vector<std::string> extra = ExtraSpellings();
  TestEnumeration<PhQ::UnitSystem>("UnitSystem", extra);
  TestUnit<PhQ::Unit::Acceleration>("Acceleration", extra);
  TestUnit<PhQ::Unit::Angle>("Angle", extra);
  TestUnit<PhQ::Unit::Area>("Area", extra);
  TestUnit<PhQ::Unit::Energy>("Energy", extra);
  TestUnit<PhQ::Unit::Force>("Force", extra);
  TestUnit<PhQ::Unit::Frequency>("Frequency", extra);
  TestUnit<PhQ::Unit::Length>("Length", extra);
  TestUnit<PhQ::Unit::Mass>("Mass", extra);
  TestUnit<PhQ::Unit::MassDensity>("MassDensity", extra);
  TestUnit<PhQ::Unit::Memory>("Memory", extra);
  TestUnit<PhQ::Unit::Power>("Power", extra);
  TestUnit<PhQ::Unit::Pressure>("Pressure", extra);
  TestUnit<PhQ::Unit::Speed>("Speed", extra);
  TestUnit<PhQ::Unit::Temperature>("Temperature", extra);
  TestUnit<PhQ::Unit::TemperatureDifference>("TemperatureDifference", extra);
  TestUnit<PhQ::Unit::Time>("Time", extra);
  TestUnit<PhQ::Unit::Volume>("Volume", extra);
  return 0;
}
